(* ParamInst.v — C10 at instance level: ParametricInstance::with_parameters followed by
   Instance::evaluate.  The solution reported for the instantiated instance I2 at a state x has
   - the objective value of the PARAMETRIC objective at (x, theta),
   - for every ACTIVE constraint, in the same order and with the same id / equality / metadata,
     the value of the PARAMETRIC constraint function at (x, theta),
   - for every REMOVED constraint the record of P's removed constraint evaluated at x alone: the
     model's with_parameters copies the removed constraints and does NOT instantiate their
     functions, so a removed constraint whose function mentions a parameter makes evaluation fail
     unless x itself gives that id a value,
   and decision variables, sense, removed constraints, hints, dependencies and description are
   those of P, with theta recorded as the parameters of the result. *)
Require Import Ommx.Num Ommx.Poly Ommx.Msg Ommx.Eval Ommx.Tree Ommx.Arith Ommx.PEval Ommx.PEvalProofs
        Ommx.Inst Ommx.InstProofs Ommx.Transform Ommx.TransformProofs Ommx.Subst Ommx.SubstProofs
        Ommx.SubstInst.
From Coq Require Import String.
Close Scope string_scope.
Open Scope list_scope.
Open Scope Qc_scope.

(* a family of pointwise relations, indexed by an inhabited class of valuations, is one relation *)
Lemma Forall2_forall {X Y A} (C : A -> Prop) (P : A -> X -> Y -> Prop) :
  (exists a, C a) -> forall l l',
  (forall a, C a -> Forall2 (P a) l l') -> Forall2 (fun x y => forall a, C a -> P a x y) l l'.
Proof.
  intros (a0 & Ha0). induction l as [|x l IH]; intros l' H.
  - pose proof (H a0 Ha0) as H0. inversion H0; subst. constructor.
  - pose proof (H a0 Ha0) as H0. inversion H0 as [|? y ? l1 _ _]; subst. constructor.
    + intros a Ha. specialize (H a Ha). inversion H; subst. assumption.
    + apply IH. intros a Ha. specialize (H a Ha). inversion H; subst. assumption.
Qed.

(* what is recorded for an active constraint of the parametric instance: value at (x, theta) *)
Definition reports_param (c : constr) (x theta : state) (e : evaluated) : Prop :=
  ev_id e = c_id c /\ ev_eq e = c_eq c /\ ev_meta e = c_meta c /\ ev_removed e = None /\
  (forall rho, agrees rho x -> agrees rho theta -> ev_value e = denote (fn_or_zero (c_fn c)) rho).

Section ParamInst.
  Variable tiny : num -> bool.
  Hypothesis TE : tiny_exact tiny.

  (* the part of the frame that C10_sem_and_frame does not list *)
  Lemma with_parameters_desc P theta I2 : with_parameters tiny P theta = Some I2 -> i_desc I2 = p_desc P.
  Proof.
    unfold with_parameters. destruct (negb _); [discriminate|].
    destruct (opt_fn_pe tiny _ _) as [o|]; [|discriminate].
    destruct (constrs_pe tiny _ _) as [cs|]; [|discriminate].
    intros H. injection H as <-. reflexivity.
  Qed.

  (* every declared parameter has a value in theta *)
  Lemma with_parameters_supplied P theta I2 : with_parameters tiny P theta = Some I2 ->
    forall p, In p (p_params P) -> sget theta (pa_id p) <> None.
  Proof.
    intros H p Hp G. rewrite (with_parameters_missing tiny P theta p Hp G) in H. discriminate.
  Qed.

  Theorem with_parameters_eval : forall P theta I2 x sol,
    with_parameters tiny P theta = Some I2 ->
    inst_eval I2 x = Some sol ->
    (* objective: the parametric objective at (x, theta) *)
    (forall rho, agrees rho x -> agrees rho theta ->
       so_objective sol = denote (fn_or_zero (p_obj P)) rho) /\
    (* constraints *)
    (exists ea er, so_evaluated sol = ea ++ er /\
       Forall2 (fun c e => reports_param c x theta e) (p_cs P) ea /\
       Forall2 (fun r e => reports_removed r x e) (p_rs P) er /\
       (so_feasible_relaxed sol = true <-> Forall holds ea) /\
       (so_feasible sol = true <-> Forall holds (ea ++ er))) /\
    (* frame *)
    i_dvs I2 = p_dvs P /\ i_sense I2 = p_sense P /\ i_rs I2 = p_rs P /\ i_hints I2 = p_hints P /\
    i_deps I2 = p_deps P /\ i_desc I2 = p_desc P /\ i_params I2 = Some theta /\
    so_dvs sol = p_dvs P.
  Proof.
    intros P theta I2 x sol HW HE.
    destruct (with_parameters_spec tiny TE _ _ _ HW) as (F1 & F2 & F3 & F4 & F5 & F6 & Sem).
    split; [|split].
    - intros rho Ax At. rewrite (inst_eval_objective _ _ _ HE rho Ax). apply (Sem rho At).
    - destruct (inst_eval_constraints _ _ _ HE) as (ea & er & E1 & Fa & Fr & H1 & H2).
      exists ea, er. split; [exact E1|]. split; [|split; [|split; assumption]].
      + assert (FS : Forall2 (fun c c' => forall rho, agrees rho theta -> same_constr_at rho c c') (p_cs P) (i_cs I2)).
        { apply (Forall2_forall (fun rho => agrees rho theta) (fun rho c c' => same_constr_at rho c c')).
          - exists (total theta). apply total_agrees.
          - intros rho At. apply (Sem rho At). }
        apply (Forall2_compose (fun c c' => forall rho, agrees rho theta -> same_constr_at rho c c')
                                (fun c' e => reports c' None x e)) with (l' := i_cs I2); [|exact FS|exact Fa].
        intros c c' e Sc (R1 & R2 & R3 & R4 & R5 & _).
        destruct (Sc (total theta) (total_agrees theta)) as (S1 & S2 & S3 & _).
        unfold reports_param. rewrite <- S1, <- S2, <- S3. repeat split; auto.
        intros rho Ax At. rewrite (R5 rho Ax). apply (Sc rho At).
      + rewrite <- F3. exact Fr.
    - repeat split; auto.
      + apply (with_parameters_desc _ _ _ HW).
      + rewrite (inst_eval_dvs _ _ _ HE). exact F1.
  Qed.

  (* the same, read at the union state: when theta gives no value to an id of x (parameter ids are
     not ids of the state), every valuation of theta ++ x will do, e.g. total (theta ++ x) *)
  Corollary with_parameters_eval_union : forall P theta I2 x sol,
    sdisjoint theta x ->
    with_parameters tiny P theta = Some I2 ->
    inst_eval I2 x = Some sol ->
    (forall rho, agrees rho (theta ++ x) -> so_objective sol = denote (fn_or_zero (p_obj P)) rho) /\
    so_objective sol = denote (fn_or_zero (p_obj P)) (total (theta ++ x)) /\
    exists ea er, so_evaluated sol = ea ++ er /\
      Forall2 (fun c e => ev_id e = c_id c /\ ev_eq e = c_eq c /\ ev_meta e = c_meta c /\ ev_removed e = None /\
                 forall rho, agrees rho (theta ++ x) -> ev_value e = denote (fn_or_zero (c_fn c)) rho) (p_cs P) ea /\
      Forall2 (fun r e => reports_removed r x e) (p_rs P) er.
  Proof.
    intros P theta I2 x sol Dj HW HE.
    destruct (with_parameters_eval _ _ _ _ _ HW HE) as (Ob & (ea & er & E1 & Fa & Fr & _) & _).
    assert (Ob' : forall rho, agrees rho (theta ++ x) -> so_objective sol = denote (fn_or_zero (p_obj P)) rho).
    { intros rho Ag. apply Ob; [eapply agrees_app_r; eauto|eapply agrees_app_l; eauto]. }
    split; [exact Ob'|]. split; [apply Ob'; apply total_agrees|].
    exists ea, er. split; [exact E1|]. split; [|exact Fr].
    eapply Forall2_impl'; [|exact Fa]. intros c e (R1 & R2 & R3 & R4 & R5). repeat split; auto.
    intros rho Ag. apply R5; [eapply agrees_app_r; eauto|eapply agrees_app_l; eauto].
  Qed.

  (* the same, read at the REPORTED state, whenever that state extends x (see
     inst_eval_reports_deps in PenaltyPathEval.v for when it does) *)
  Corollary with_parameters_eval_reported : forall P theta I2 x sol,
    sext x (so_state sol) ->
    with_parameters tiny P theta = Some I2 ->
    inst_eval I2 x = Some sol ->
    (forall rho, agrees rho (so_state sol) -> agrees rho theta ->
       so_objective sol = denote (fn_or_zero (p_obj P)) rho) /\
    exists ea er, so_evaluated sol = ea ++ er /\
      Forall2 (fun c e => reports_param c (so_state sol) theta e) (p_cs P) ea /\
      Forall2 (fun r e => reports_removed_at r (so_state sol) e) (p_rs P) er.
  Proof.
    intros P theta I2 x sol X HW HE.
    destruct (with_parameters_eval _ _ _ _ _ HW HE) as (Ob & (ea & er & E1 & Fa & Fr & _) & _).
    split; [intros rho Ag At; apply Ob; [eapply agrees_sext; eauto|exact At]|].
    exists ea, er. split; [exact E1|]. split.
    - eapply Forall2_impl'; [|exact Fa]. intros c e (R1 & R2 & R3 & R4 & R5). repeat split; auto.
      intros rho Ag At. apply R5; [eapply agrees_sext; eauto|exact At].
    - eapply Forall2_impl'; [|exact Fr]. intros r e (c & Hc & Rp). exists c. split; [exact Hc|].
      eapply reports_reports_at; eauto.
  Qed.

  (* removed constraints are NOT instantiated: one that mentions an id without a value in x --
     for instance a parameter -- makes the evaluation of the result fail, whatever theta says *)
  Theorem with_parameters_removed_not_instantiated : forall P theta I2 x r c i,
    with_parameters tiny P theta = Some I2 ->
    In r (p_rs P) -> r_c r = Some c -> occurs (fn_or_zero (c_fn c)) i -> sget x i = None ->
    inst_eval I2 x = None.
  Proof.
    intros P theta I2 x r c i HW Hin Hc Ho G.
    destruct (with_parameters_spec tiny TE _ _ _ HW) as (_ & _ & F3 & _).
    apply (inst_eval_rejects_missing_removed I2 x r c i); auto. rewrite F3. exact Hin.
  Qed.
End ParamInst.

(* ================= non-vacuity ================= *)
(* x1 binary, x2 in [0,5]; parameters 8 and 9; minimise p8*x1*x2 + x2; active constraint 3:
   x1 + p9*x2 - 4 <= 0; a removed constraint 4: x1 - 1 = 0 (no parameter); theta = {8 -> 2, 9 -> 3};
   at x = (1, 1): objective 2*1*1 + 1 = 3, constraint 3: 1 + 3 - 4 = 0, constraint 4: 0 *)
Definition P_ex : pinstance :=
  {| p_sense := SENSE_MIN;
     p_obj := Some (FPoly [([8; 1; 2]%N, 1); ([2]%N, 1)]);
     p_dvs := [ {| dv_id := 1; dv_kind := KIND_BINARY; dv_bound := None; dv_subst := None; dv_meta := [] |};
                {| dv_id := 2; dv_kind := KIND_CONTINUOUS; dv_bound := Some (Fin 0, Fin (qz 5));
                   dv_subst := None; dv_meta := [] |} ];
     p_params := [ {| pa_id := 8; pa_meta := [] |}; {| pa_id := 9; pa_meta := [] |} ];
     p_cs := [ {| c_id := 3; c_eq := LE_ZERO;
                  c_fn := Some (FQuad {| q_rows := [9%N]; q_cols := [2%N]; q_vals := [1];
                                         q_lin := Some {| l_terms := [(1%N, 1)]; l_const := qz (-4) |} |});
                  c_meta := [A "c3"%string] |} ];
     p_rs := [ {| r_c := Some {| c_id := 4; c_eq := EQ_ZERO;
                                 c_fn := Some (FLin {| l_terms := [(1%N, 1)]; l_const := qz (-1) |});
                                 c_meta := [] |};
                  r_reason := A "r"%string; r_params := L [] |} ];
     p_deps := []; p_hints := L [A "h"%string]; p_desc := L [A "d"%string] |}.
Definition theta_ex : state := [ (8%N, qz 2); (9%N, qz 3) ].
Definition x_ex : state := [ (1%N, 1); (2%N, 1) ].

Example with_parameters_eval_nonvacuous :
  exists I2 sol,
    sdisjoint theta_ex x_ex /\
    with_parameters tiny_0 P_ex theta_ex = Some I2 /\
    inst_eval I2 x_ex = Some sol /\
    so_objective sol = qz 3 /\
    denote (fn_or_zero (p_obj P_ex)) (total (theta_ex ++ x_ex)) = qz 3 /\
    map ev_value (so_evaluated sol) = [0; 0] /\ map ev_id (so_evaluated sol) = [3%N; 4%N] /\
    so_feasible sol = true /\ i_params I2 = Some theta_ex.
Proof.
  do 2 eexists.
  split. { intros i H. unfold theta_ex in H. cbn [sget] in H. unfold x_ex. cbn [sget].
           destruct (i =? 8)%N eqn:E8; [apply N.eqb_eq in E8; subst; reflexivity|].
           destruct (i =? 9)%N eqn:E9; [apply N.eqb_eq in E9; subst; reflexivity|]. congruence. }
  split. { vm_compute. reflexivity. }
  split. { vm_compute. reflexivity. }
  repeat split; vm_compute; reflexivity.
Qed.

Print Assumptions with_parameters_eval.
Print Assumptions with_parameters_eval_union.
Print Assumptions with_parameters_eval_reported.
Print Assumptions with_parameters_removed_not_instantiated.
Print Assumptions with_parameters_eval_nonvacuous.
