(* RunC04.v — correspondence runner for C04. *)
Require Import Ommx.Num Ommx.Poly Ommx.Msg Ommx.Eval Ommx.Tree Ommx.Arith Ommx.Inst Ommx.Relax
        Ommx.RunC02 Ommx.RunC03 Ommx.RunC05 Ommx.RunC14 Ommx.Transform Ommx.RunTransform Ommx.Subst
        Ommx.Samples Ommx.RunSamples Ommx.PEval Ommx.PEvalInst.
From Coq Require Import String.
Open Scope string_scope.

Definition d_repl (t : tree) : option repl := d_list (d_pair d_N d_function) t.

Fixpoint substitute_all (I : instance) (Rs : list repl) : option instance :=
  match Rs with
  | [] => Some I
  | R :: Rs' => match inst_substitute tiny_eps I R with Some I' => substitute_all I' Rs' | None => None end
  end.

(* values of two evaluations, ignoring the used-id lists of the constraint records (those follow
   the representation: a kept zero-coefficient term still "uses" its variables) *)
Definition sol_eqb_values (dvids : list N) (a b : solution) : bool :=
  qeqb (so_objective a) (so_objective b) && Bool.eqb (so_feasible a) (so_feasible b) &&
  Bool.eqb (so_feasible_relaxed a) (so_feasible_relaxed b) && state_eqb_on dvids (so_state a) (so_state b) &&
  list_eqb (fun x y => (ev_id x =? ev_id y)%N && (ev_eq x =? ev_eq y)%Z && qeqb (ev_value x) (ev_value y) &&
                        trees_eqb (ev_meta x) (ev_meta y) &&
                        optb (fun p q => tree_eqb (fst p) (fst q) && tree_eqb (snd p) (snd q)) (ev_removed x) (ev_removed y))
           (so_evaluated a) (so_evaluated b).

(* the evaluation of the SDK is judged on the message the SDK actually holds (its own substituted
   instance G, already checked to be the expected one J as formal polynomials): used ids follow the
   representation; the VALUES must be those of evaluating J *)
Definition judge_subst_eval (J G : instance) (s : state) (ev : tree) : tree :=
  match inst_eval G s, inst_eval J s with
  | Some mG, Some mJ =>
      if negb (sol_eqb_values (map dv_id (i_dvs J)) mG mJ)
      then badcase "MODEL: evaluating the SDK's substituted instance differs in value from evaluating the expected one"
      else judge_inst_eval G s ev
  | _, _ => judge_inst_eval J s ev
  end.

Definition run_C04 (case : tree) : tree :=
  match case with
  | L [A "fn_substitute"; L [f; r]; res] =>
      match d_function f, d_repl r with
      | Some f', Some R =>
          match fn_substitute tiny_eps f' R with
          | None => if is_err res || is_panic res then agree ["subst"; "err"]
                    else disagree "substitute must fail (unset oneof)" (A "err")
          | Some g =>
              match ok_payload res with
              | Some p =>
                  match d_function p with
                  | Some h =>
                      if fn_eqb h g then
                        agree ["subst"; kind_tag_of f';
                               match fn_substitute tiny_0 f' R with
                               | Some g0 => if fn_eqb g0 g then "exact" else "dropped-tiny" | None => "?" end]
                      else disagree "substituted function (composition with the replacements)" (e_fn g)
                  | None => badresult "fn_substitute: shape"
                  end
              | None => if is_err res || is_panic res then disagree "substitute must succeed" (e_fn g)
                        else badresult "fn_substitute: shape"
              end
          end
      | _, _ => badcase "fn_substitute: input"
      end
  | L [A "inst_substitute"; L [i; rs; s]; L [res; ev]] =>
      match d_instance i, d_list d_repl rs, d_state s with
      | Some I', Some Rs, Some s' =>
          match substitute_all I' Rs with
          | None => if is_err res || is_panic res then agree ["inst-subst"; "err"]
                    else disagree "Instance::substitute must fail" (A "err")
          | Some J =>
              match judge_instance (Some J) res "inst_substitute" with
              | L (A "agree" :: _) =>
                  let G := match ok_payload res with
                           | Some p => match d_instance p with Some G0 => G0 | None => J end
                           | None => J end in
                  match judge_subst_eval J G s' ev with
                  | L (A "agree" :: _) => agree ["inst-subst"; match Rs with [_] => "one-step" | _ => "chain" end]
                  | v => v
                  end
              | v => v
              end
          end
      | _, _, _ => badcase "inst_substitute: input"
      end
  | L [A "subst_penalty_eval"; L [i; rs; s; u; w]; L [res; ev]] =>
      match d_instance i, d_list d_repl rs, d_state s, d_Z u, d_num w with
      | Some I', Some Rs, Some s', Some u', Some w' =>
          match substitute_all I' Rs with
          | None => if is_err res || is_panic res then agree ["subst-penalty"; "err"]
                    else disagree "Instance::substitute must fail" (A "err")
          | Some J =>
              match judge_instance (Some J) res "inst_substitute" with
              | L (A "agree" :: _) =>
                  (* continue from the message the SDK holds (equal to J as formal polynomials) *)
                  let G := match ok_payload res with
                           | Some p => match d_instance p with Some G0 => G0 | None => J end
                           | None => J end in
                  match (if (u' =? 1)%Z then uniform_penalty tiny_eps G else penalty tiny_eps G) with
                  | None => badcase "MODEL: penalty conversion undefined"
                  | Some P =>
                      match with_parameters tiny_eps P (map (fun p => (pa_id p, w')) (p_params P)) with
                      | None => badcase "MODEL: with_parameters undefined"
                      | Some I2 =>
                          match judge_inst_eval I2 s' ev with
                          | L (A "agree" :: _) => agree ["subst-penalty"; if (u' =? 1)%Z then "uniform" else "each"]
                          | v => v
                          end
                      end
                  end
              | v => v
              end
          end
      | _, _, _, _, _ => badcase "subst_penalty_eval: input"
      end
  | L [A "subst_pe_samples"; L [i; rs; fx; sm]; L [res; ev]] =>
      match d_instance i, d_list d_repl rs, d_state fx with
      | Some I', Some Rs, Some fx' =>
          match substitute_all I' Rs with
          | None => if is_err res || is_panic res then agree ["subst-pe-samples"; "err"]
                    else disagree "Instance::substitute must fail" (A "err")
          | Some J =>
              match inst_pe tiny_eps J fx' with
              | None => if is_err res || is_panic res then agree ["subst-pe-samples"; "err"]
                        else disagree "partial_evaluate must fail" (A "err")
              | Some (K, _) =>
                  match judge_instance (Some K) res "substitute + partial_evaluate" with
                  | L (A "agree" :: _) =>
                      (* the sampled evaluation is judged by the C06 runner on the instance the SDK holds *)
                      match ok_payload res with
                      | Some kt =>
                          match run_C06 (L [A "eval_samples"; L [kt; sm]; ev]) with
                          | L (A "agree" :: _) => agree ["subst-pe-samples"; "ok"]
                          | v => v
                          end
                      | None => badresult "subst_pe_samples: shape"
                      end
                  | v => v
                  end
              end
          end
      | _, _, _ => badcase "subst_pe_samples: input"
      end
  | L [A "deps_orders"; L [i; s; _]; res] =>
      match d_instance i, d_state s with
      | Some I', Some s' =>
          match ok_payload res with
          | Some (L obs) =>
              (fix go (obs : list tree) (n : nat) : tree :=
                 match obs with
                 | [] => agree ["deps"; match inst_eval I' s' with Some _ => "resolved" | None => "rejected" end;
                                if Nat.leb 2 n then "orders>=2" else "orders<2"]
                 | L [_; ev] :: obs' =>
                     match judge_inst_eval I' s' ev with
                     | L (A "agree" :: _) => go obs' (S n)
                     | v => v
                     end
                 | _ => badresult "deps_orders: shape"
                 end) obs 0%nat
          | _ => if is_hang res then disagree "evaluation with dependencies must return (no hang)" (A "err")
                 else badresult "deps_orders: shape"
          end
      | _, _ => badcase "deps_orders: input"
      end
  | L [A "inst_substitute"; _; res] =>
      if is_hang res then disagree "substitute / evaluate must return" (A "err") else badresult "inst_substitute: shape"
  | L [A "subst_pe_samples"; _; res] =>
      if is_hang res then disagree "substitute / partial_evaluate / evaluate_samples must return" (A "err") else badresult "subst_pe_samples: shape"
  | L [A "subst_penalty_eval"; _; res] =>
      if is_hang res then disagree "substitute / penalty / evaluate must return" (A "err") else badresult "subst_penalty_eval: shape"
  | L [A "deps_orders"; _; res] =>
      if is_hang res then disagree "evaluation with dependencies must return (no hang)" (A "err") else badresult "deps_orders: shape"
  | _ => badcase "C04: unknown op"
  end.
