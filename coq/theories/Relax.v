(* Relax.v — Instance::relax_constraint / restore_constraint (v1_ext/instance.rs:209-238)
   as a state machine over (active, removed), with the conservation theorems of C14. *)
Require Import Ommx.Num Ommx.Poly Ommx.Msg Ommx.Eval Ommx.Tree Ommx.Inst Ommx.InstProofs.
From Coq Require Import Permutation.

(* first element satisfying p, and the list without it (Vec::position + Vec::remove) *)
Fixpoint extract {X} (p : X -> bool) (l : list X) : option (X * list X) :=
  match l with
  | [] => None
  | x :: l' =>
      if p x then Some (x, l')
      else match extract p l' with
           | Some (y, r) => Some (y, x :: r)
           | None => None
           end
  end.

Definition set_lists (I : instance) (cs : list constr) (rs : list removed) : instance :=
  {| i_sense := i_sense I; i_obj := i_obj I; i_dvs := i_dvs I; i_cs := cs; i_rs := rs;
     i_deps := i_deps I; i_params := i_params I; i_hints := i_hints I; i_desc := i_desc I |}.

Definition relax (I : instance) (id : N) (reason params : tree) : option instance :=
  match extract (fun c => (c_id c =? id)%N) (i_cs I) with
  | None => None
  | Some (c, cs') =>
      Some (set_lists I cs' (i_rs I ++ [{| r_c := Some c; r_reason := reason; r_params := params |}]))
  end.
Definition removed_has_id (id : N) (r : removed) : bool :=
  match r_c r with Some c => (c_id c =? id)%N | None => false end.
Definition restore (I : instance) (id : N) : option instance :=
  match extract (removed_has_id id) (i_rs I) with
  | None => None
  | Some (r, rs') =>
      match r_c r with
      | Some c => Some (set_lists I (i_cs I ++ [c]) rs')
      | None => None   (* unreachable: removed_has_id r = true *)
      end
  end.

Inductive rop := Relax (id : N) (reason params : tree) | Restore (id : N).
(* a failed operation changes nothing *)
Definition step (I : instance) (o : rop) : instance * bool :=
  match (match o with Relax id r p => relax I id r p | Restore id => restore I id end) with
  | Some I' => (I', true)
  | None => (I, false)
  end.
Definition run (I : instance) (ops : list rop) : instance := fold_left (fun I o => fst (step I o)) ops I.

(* the collection of all constraints, active then removed *)
Fixpoint removed_constrs (rs : list removed) : list constr :=
  match rs with
  | [] => []
  | r :: rs' => match r_c r with Some c => c :: removed_constrs rs' | None => removed_constrs rs' end
  end.
Definition all_constrs (I : instance) : list constr := i_cs I ++ removed_constrs (i_rs I).

Lemma extract_spec {X} (p : X -> bool) l x r : extract p l = Some (x, r) ->
  p x = true /\ Permutation l (x :: r) /\ exists a b, l = a ++ x :: b /\ r = a ++ b /\ forallb (fun y => negb (p y)) a = true.
Proof.
  revert x r; induction l as [|y l IH]; intros x r H; cbn [extract] in H; [discriminate|].
  destruct (p y) eqn:Py.
  - inversion H; subst. split; [exact Py|]. split; [reflexivity|].
    exists [], r. repeat split.
  - destruct (extract p l) as [[z r']|] eqn:E; [|discriminate]. inversion H; subst.
    destruct (IH _ _ eq_refl) as (Pz & Pm & a & b & -> & -> & Fa).
    split; [exact Pz|]. split.
    + eapply perm_trans; [apply perm_skip; exact Pm|apply perm_swap].
    + exists (y :: a), b. repeat split. cbn [forallb]. rewrite Py. exact Fa.
Qed.
Lemma extract_none {X} (p : X -> bool) l : extract p l = None <-> forallb (fun y => negb (p y)) l = true.
Proof.
  induction l as [|y l IH]; cbn [extract forallb]; [tauto|].
  destruct (p y); cbn [negb andb].
  - split; discriminate.
  - destruct (extract p l) as [[z r]|]; [|tauto]. split; [discriminate|].
    intro H. apply IH in H. discriminate.
Qed.

Lemma removed_constrs_app a b : removed_constrs (a ++ b) = removed_constrs a ++ removed_constrs b.
Proof.
  induction a as [|r a IH]; cbn [app removed_constrs]; [reflexivity|].
  destruct (r_c r); cbn [app]; rewrite IH; reflexivity.
Qed.

(* ---- conservation ---- *)
Theorem relax_conserves I id rs ps I' : relax I id rs ps = Some I' ->
  Permutation (all_constrs I') (all_constrs I).
Proof.
  unfold relax. destruct (extract _ (i_cs I)) as [[c cs']|] eqn:E; [|discriminate].
  intro H; inversion H; subst; clear H. apply extract_spec in E. destruct E as (_ & Pm & _).
  unfold all_constrs; cbn [set_lists i_cs i_rs]. rewrite removed_constrs_app. cbn [removed_constrs r_c].
  rewrite app_assoc.
  eapply perm_trans; [apply Permutation_sym; apply Permutation_cons_append|].
  change (Permutation ((c :: cs') ++ removed_constrs (i_rs I)) (i_cs I ++ removed_constrs (i_rs I))).
  apply Permutation_app_tail. apply Permutation_sym. exact Pm.
Qed.

Lemma removed_constrs_perm_extract id rs r rs' c :
  extract (removed_has_id id) rs = Some (r, rs') -> r_c r = Some c ->
  Permutation (removed_constrs rs) (c :: removed_constrs rs').
Proof.
  intros E Hc. apply extract_spec in E. destruct E as (_ & _ & a & b & -> & -> & _).
  rewrite !removed_constrs_app. cbn [removed_constrs]. rewrite Hc.
  apply Permutation_sym. apply Permutation_middle.
Qed.

Theorem restore_conserves I id I' : restore I id = Some I' ->
  Permutation (all_constrs I') (all_constrs I).
Proof.
  unfold restore. destruct (extract _ (i_rs I)) as [[r rs']|] eqn:E; [|discriminate].
  destruct (r_c r) as [c|] eqn:Hc; [|discriminate].
  intro H; inversion H; subst; clear H.
  unfold all_constrs; cbn [set_lists i_cs i_rs].
  pose proof (removed_constrs_perm_extract _ _ _ _ _ E Hc) as Pm.
  eapply perm_trans; [|apply Permutation_app_head; apply Permutation_sym; exact Pm].
  rewrite <- app_assoc. cbn [app]. reflexivity.
Qed.

Theorem step_conserves I o : Permutation (all_constrs (fst (step I o))) (all_constrs I).
Proof.
  unfold step. destruct o as [id r p|id].
  - destruct (relax I id r p) as [I'|] eqn:E; cbn [fst]; [eapply relax_conserves; eauto|reflexivity].
  - destruct (restore I id) as [I'|] eqn:E; cbn [fst]; [eapply restore_conserves; eauto|reflexivity].
Qed.

(* any history: the collection of active plus removed constraints is unchanged as a multiset of
   (id, function, equality, metadata) records *)
Theorem run_conserves ops : forall I, Permutation (all_constrs (run I ops)) (all_constrs I).
Proof.
  induction ops as [|o ops IH]; intro I; cbn [run fold_left]; [reflexivity|].
  eapply perm_trans; [apply IH|apply step_conserves].
Qed.

(* every id stays in exactly one of the two lists: uniqueness of ids is preserved *)
Theorem run_ids_unique ops I : NoDup (map c_id (all_constrs I)) -> NoDup (map c_id (all_constrs (run I ops))).
Proof.
  intro H. eapply Permutation_NoDup; [|exact H].
  apply Permutation_map. apply Permutation_sym. apply run_conserves.
Qed.

(* nothing but the two lists is touched *)
Theorem step_frame I o :
  let I' := fst (step I o) in
  i_sense I' = i_sense I /\ i_obj I' = i_obj I /\ i_dvs I' = i_dvs I /\ i_deps I' = i_deps I /\
  i_params I' = i_params I /\ i_hints I' = i_hints I /\ i_desc I' = i_desc I.
Proof.
  unfold step. destruct o as [id r p|id].
  - unfold relax. destruct (extract _ (i_cs I)) as [[c cs']|]; cbn; repeat split.
  - unfold restore. destruct (extract _ (i_rs I)) as [[r rs']|]; [destruct (r_c r)|]; cbn; repeat split.
Qed.

(* a relaxed constraint carries the given reason *)
Theorem relax_records_reason I id rs ps I' : relax I id rs ps = Some I' ->
  exists c, c_id c = id /\ In c (i_cs I) /\
            In {| r_c := Some c; r_reason := rs; r_params := ps |} (i_rs I').
Proof.
  unfold relax. destruct (extract _ (i_cs I)) as [[c cs']|] eqn:E; [|discriminate].
  intro H; inversion H; subst; clear H. apply extract_spec in E. destruct E as (Pc & Pm & _).
  apply N.eqb_eq in Pc. exists c. split; [exact Pc|]. split.
  - eapply Permutation_in; [apply Permutation_sym; exact Pm|left; reflexivity].
  - cbn [set_lists i_rs]. apply in_or_app. right. left. reflexivity.
Qed.

(* an operation fails exactly when the id is not in the expected list, and then changes nothing *)
Theorem relax_fails_iff I id rs ps : relax I id rs ps = None <-> ~ In id (map c_id (i_cs I)).
Proof.
  unfold relax. destruct (extract _ (i_cs I)) as [[c cs']|] eqn:E.
  - split; [discriminate|]. intro H. exfalso. apply H.
    apply extract_spec in E. destruct E as (Pc & Pm & _). apply N.eqb_eq in Pc. subst id.
    apply in_map. eapply Permutation_in; [apply Permutation_sym; exact Pm|left; reflexivity].
  - split; [|reflexivity]. intros _ Hin. apply extract_none in E.
    rewrite forallb_forall in E. apply in_map_iff in Hin. destruct Hin as (c & Hc & Hin).
    specialize (E c Hin). rewrite Hc, N.eqb_refl in E. discriminate.
Qed.
Theorem restore_fails_iff I id : restore I id = None <-> ~ In id (map c_id (removed_constrs (i_rs I))).
Proof.
  unfold restore. destruct (extract _ (i_rs I)) as [[r rs']|] eqn:E.
  - pose proof (extract_spec _ _ _ _ E) as (Pr & Pm & _).
    unfold removed_has_id in Pr. destruct (r_c r) as [c|] eqn:Hc; [|discriminate].
    split; [discriminate|]. intro H. exfalso. apply H. apply N.eqb_eq in Pr. subst id.
    apply in_map. eapply Permutation_in.
    + apply Permutation_sym. eapply removed_constrs_perm_extract; eauto.
    + left. reflexivity.
  - split; [|reflexivity]. intros _ Hin. apply extract_none in E. rewrite forallb_forall in E.
    apply in_map_iff in Hin. destruct Hin as (c & Hc & Hin).
    assert (exists r, In r (i_rs I) /\ r_c r = Some c) as (r & Hr & Hrc).
    { clear E Hc. induction (i_rs I) as [|r rs IH]; cbn [removed_constrs] in Hin; [destruct Hin|].
      destruct (r_c r) as [c'|] eqn:Hc'.
      - destruct Hin as [->|Hin]; [exists r; split; [left; reflexivity|exact Hc']|].
        destruct (IH Hin) as (r' & H1 & H2). exists r'. split; [right; exact H1|exact H2].
      - destruct (IH Hin) as (r' & H1 & H2). exists r'. split; [right; exact H1|exact H2]. }
    specialize (E r Hr). unfold removed_has_id in E. rewrite Hrc, Hc, N.eqb_refl in E. discriminate.
Qed.
Theorem step_fail_noop I o I' : step I o = (I', false) -> I' = I.
Proof.
  unfold step. destruct o as [id r p|id];
    [destruct (relax I id r p)|destruct (restore I id)]; intro H; inversion H; reflexivity.
Qed.

(* ---- consequences for evaluation ---- *)
Definition chold (s : state) (c : constr) : Prop := exists e, constr_eval c s = Some e /\ holds e.

Lemma holds_removed_eval r s e : removed_eval r s = Some e ->
  exists c e0, r_c r = Some c /\ constr_eval c s = Some e0 /\ (holds e <-> holds e0).
Proof.
  unfold removed_eval. destruct (r_c r) as [c|]; [|discriminate].
  destruct (constr_eval c s) as [e0|] eqn:E; [|discriminate].
  intro H; inversion H; subst; clear H. exists c, e0. repeat split; auto.
Qed.

Lemma Forall2_active_hold s cs ea :
  Forall2 (fun c e => constr_eval c s = Some e) cs ea -> (Forall holds ea <-> Forall (chold s) cs).
Proof.
  induction 1 as [|c e cs ea H _ IH]; [split; constructor|].
  split; intro F; inversion F; subst; constructor.
  - exists e. auto.
  - apply IH. assumption.
  - match goal with H1 : chold s c |- _ => destruct H1 as (e' & E' & He') end. congruence.
  - apply IH. assumption.
Qed.
Lemma Forall2_removed_hold s rs er :
  Forall2 (fun r e => removed_eval r s = Some e) rs er ->
  (Forall holds er <-> Forall (chold s) (removed_constrs rs)).
Proof.
  induction 1 as [|r e rs er H _ IH]; [split; constructor|].
  apply holds_removed_eval in H. destruct H as (c & e0 & Hc & E0 & Hh).
  cbn [removed_constrs]. rewrite Hc.
  split; intro F; inversion F; subst; constructor.
  - exists e0. split; [exact E0|apply Hh; assumption].
  - apply IH. assumption.
  - match goal with H1 : chold s c |- _ => destruct H1 as (e' & E' & He') end.
    apply Hh. congruence.
  - apply IH. assumption.
Qed.

Theorem flags_iff_all_hold I s sol : inst_eval I s = Some sol ->
  (so_feasible_relaxed sol = true <-> Forall (chold s) (i_cs I)) /\
  (so_feasible sol = true <-> Forall (chold s) (all_constrs I)).
Proof.
  unfold inst_eval. destruct (negb (check_bound (i_dvs I) s tol7)); [discriminate|].
  destruct (eval_loop constr_eval (i_cs I) s true []) as [[fr ev1]|] eqn:L1; [|discriminate].
  destruct (eval_loop removed_eval (i_rs I) s fr ev1) as [[fe ev2]|] eqn:L2; [|discriminate].
  destruct (fn_eval (fn_or_zero (i_obj I)) s) as [[obj ids]|]; [|discriminate].
  destruct (eval_deps (i_deps I) (insert_subst (i_dvs I) s)) as [s1|]; [|discriminate].
  destruct (fill_vacant (i_dvs I) s1) as [s2|]; [|discriminate].
  intro H; inversion H; subst; clear H. cbn [so_feasible so_feasible_relaxed].
  apply eval_loop_spec in L1. destruct L1 as (ea & -> & Fa & Ha). cbn [app] in *.
  apply eval_loop_spec in L2. destruct L2 as (er & -> & Fr & Hr).
  pose proof (Forall2_active_hold _ _ _ Fa) as Ea.
  pose proof (Forall2_removed_hold _ _ _ Fr) as Er.
  split.
  - rewrite Ha, Ea. tauto.
  - rewrite Hr, Ha, Ea, Er. unfold all_constrs. rewrite Forall_app. tauto.
Qed.

Lemma Forall_perm {X} (P : X -> Prop) l l' : Permutation l l' -> Forall P l -> Forall P l'.
Proof.
  intros Pm F. apply Forall_forall. intros x Hx. rewrite Forall_forall in F. apply F.
  eapply Permutation_in; [apply Permutation_sym; exact Pm|exact Hx].
Qed.

(* overall feasibility of any state is invariant under any relax / restore history, while
   relaxed feasibility is determined by the currently active constraints *)
Theorem run_feasible_invariant I ops s sol sol' :
  inst_eval I s = Some sol -> inst_eval (run I ops) s = Some sol' ->
  so_feasible sol' = so_feasible sol.
Proof.
  intros E E'. apply flags_iff_all_hold in E. apply flags_iff_all_hold in E'.
  destruct E as [_ F]. destruct E' as [_ F'].
  pose proof (run_conserves ops I) as Pm.
  destruct (so_feasible sol) eqn:B, (so_feasible sol') eqn:B'; try reflexivity.
  - assert (T : true = true) by reflexivity. apply F in T.
    apply (Forall_perm _ _ _ (Permutation_sym Pm)) in T. apply F' in T. discriminate.
  - assert (T : true = true) by reflexivity. apply F' in T.
    apply (Forall_perm _ _ _ Pm) in T. apply F in T. discriminate.
Qed.
