(* RunC07.v — correspondence runner for C07: tree <-> dynamic values / bytes, the model encoder
   and decoder at the schema regenerated from /repo's .proto files, and the judge that compares
   what prost and protoc did with the model's answer. *)
Require Import Ommx.Tree Ommx.Schema Ommx.Wire Ommx.Codec Ommx.CodecEq.
Require Import OmmxGen.SchemaProto OmmxGen.SchemaRust OmmxGen.SchemaPy.
From Coq Require Import String Ascii List NArith ZArith Bool.
Import ListNotations.
Open Scope string_scope.

(* ------------------------------------------------------------------ hex *)
Definition hexdigit (n : N) : ascii :=
  match n with
  | 0 => "0" | 1 => "1" | 2 => "2" | 3 => "3" | 4 => "4" | 5 => "5" | 6 => "6" | 7 => "7"
  | 8 => "8" | 9 => "9" | 10 => "a" | 11 => "b" | 12 => "c" | 13 => "d" | 14 => "e" | _ => "f"
  end%N%char.
Fixpoint to_hex (bs : list N) : string :=
  match bs with
  | [] => EmptyString
  | b :: r => String (hexdigit (b / 16)) (String (hexdigit (b mod 16)) (to_hex r))
  end.
Definition hexval (c : ascii) : option N :=
  let n := N_of_ascii c in
  if (48 <=? n)%N && (n <=? 57)%N then Some (n - 48)%N
  else if (97 <=? n)%N && (n <=? 102)%N then Some (n - 87)%N
  else None.
Fixpoint of_hex (s : string) : option (list N) :=
  match s with
  | EmptyString => Some []
  | String a (String b r) =>
      match hexval a, hexval b, of_hex r with
      | Some x, Some y, Some bs => Some ((16 * x + y)%N :: bs)
      | _, _, _ => None
      end
  | _ => None
  end.

(* ------------------------------------------------------------------ values as trees *)
Fixpoint d_value (t : tree) : option value :=
  match t with
  | L [A "u"; I z] => if (0 <=? z)%Z then Some (VU64 (Z.to_N z)) else None
  | L [A "i"; I z] => Some (VI64 z)
  | L [A "b"; I z] => Some (VBool (negb (Z.eqb z 0)))
  | L [A "d"; I z] => if (0 <=? z)%Z then Some (VF64 (Z.to_N z)) else None
  | L [A "s"; A h] => option_map VStr (of_hex h)
  | L [A "e"; I z] => Some (VEnum z)
  | L [A "m"; L fs] =>
      option_map VMsg
        ((fix go (l : list tree) : option (list (N * value)) :=
            match l with
            | [] => Some []
            | L [I n; x] :: r =>
                match d_value x, go r with
                | Some v, Some vs => if (0 <=? n)%Z then Some ((Z.to_N n, v) :: vs) else None
                | _, _ => None
                end
            | _ => None
            end) fs)
  | L [A "l"; L xs] =>
      option_map VList
        ((fix go (l : list tree) : option (list value) :=
            match l with
            | [] => Some []
            | x :: r => match d_value x, go r with
                        | Some v, Some vs => Some (v :: vs) | _, _ => None end
            end) xs)
  | L [A "p"; L kvs] =>
      option_map VMap
        ((fix go (l : list tree) : option (list (value * value)) :=
            match l with
            | [] => Some []
            | L [k; x] :: r =>
                match d_value k, d_value x, go r with
                | Some kv, Some v, Some vs => Some ((kv, v) :: vs)
                | _, _, _ => None
                end
            | _ => None
            end) kvs)
  | _ => None
  end.

Fixpoint e_value (v : value) : tree :=
  match v with
  | VU64 n => L [A "u"; I (Z.of_N n)]
  | VI64 z => L [A "i"; I z]
  | VBool b => L [A "b"; I (if b then 1 else 0)]
  | VF64 n => L [A "d"; I (Z.of_N n)]
  | VStr b => L [A "s"; A (to_hex b)]
  | VEnum z => L [A "e"; I z]
  | VMsg fs => L [A "m"; L (map (fun nv : N * value => L [I (Z.of_N (fst nv)); e_value (snd nv)]) fs)]
  | VList vs => L [A "l"; L (map e_value vs)]
  | VMap kvs => L [A "p"; L (map (fun kv : value * value => L [e_value (fst kv); e_value (snd kv)]) kvs)]
  end.

Definition bytes_eqb (a b : list N) : bool := list_eqb N.eqb a b.

(* prost's recursion limit is 100; the schema nests 7 deep *)
Definition FUEL : nat := 100.

Definition sp := schema_proto.
Definition b2i (b : bool) : tree := I (if b then 1 else 0).

(* ------------------------------------------------------------------ phase 1: model-encode *)
Definition run_enc (ty : string) (v : value) : tree :=
  let bs := encode sp ty v in
  let want := norm sp ty v in
  let self :=
    match decode sp FUEL ty bs with
    | Some w => same_content w want
    | None => false
    end in
  L [A "enc"; A (to_hex bs); b2i (typedb sp true ty v); b2i self;
     b2i (typedb sp false ty v); b2i (Nat.leb (fuel_for v) FUEL)].

(* an alternative conforming encoding: every repeated field written UNPACKED (one record per
   element), which every proto3 decoder must accept for a packed field *)
Definition unpack_schema (s : schema) : schema :=
  mkS (map (fun d => mkM (m_name d)
              (map (fun f => mkF (f_num f) (f_name f) (f_ty f)
                                 (match f_card f with CRepeated _ => CRepeated false | c => c end))
                   (m_fields d))) (s_msgs s))
      (s_enums s).
Definition sp_unpacked := unpack_schema sp.

Definition run_enc_alt (ty : string) (v : value) : tree :=
  let bs := encode sp_unpacked ty v in
  let want := norm sp ty v in
  let self :=
    match decode sp FUEL ty bs with
    | Some w => same_content w want
    | None => false
    end in
  L [A "enc"; A (to_hex bs); b2i (typedb sp true ty v); b2i self;
     b2i (typedb sp false ty v); b2i (Nat.leb (fuel_for v) FUEL)].

(* ------------------------------------------------------------------ phase 2: judge *)

(* content of `bs` (read by the model at the .proto schema) against the normal form of v *)
Definition check_content (ty : string) (v : value) (bs : list N) (allow_negzero : bool)
  : option string + string :=
  match decode sp FUEL ty bs with
  | None => inr "model cannot decode these bytes"
  | Some w =>
      let want := norm sp ty v in
      if same_content w want then inl None
      else if allow_negzero && same_content (norm sp ty (squash w)) (norm sp ty (squash v))
      then inl (Some "negzero")
      else inr "content differs"
  end.

(* the comparator is sound: an exact-content verdict certifies that the bytes decode, under the
   published schema, to the normal form of the value up to the order of fields and map entries *)
Lemma check_content_sound ty v bs :
  check_content ty v bs false = inl None ->
  exists w, decode sp FUEL ty bs = Some w /\ canon w = canon (norm sp ty v).
Proof.
  unfold check_content. destruct (decode sp FUEL ty bs) as [w|]; [|discriminate].
  destruct (same_content w (norm sp ty v)) eqn:E; [|cbn [andb]; discriminate].
  intros _. exists w. split; [reflexivity|]. apply same_content_sound. exact E.
Qed.

Definition judge_one (ty : string) (v : value) (r : tree) : list string + (string * tree) :=
  let want := norm sp ty v in
  let canon_bytes := encode sp ty (canon want) in
  match r with
  | L [A who; A h] =>
      match of_hex h with
      | None => inr (who ++ ": result is not hex", L [])
      | Some bs =>
          let prost_like := negb (String.eqb who "protoc") && negb (String.eqb who "protoc-of-model") in
          match check_content ty v bs prost_like with
          | inr why => inr (who ++ ": " ++ why,
                            L [A "expected"; e_value want; A "got";
                               match decode sp FUEL ty bs with Some w => e_value w | None => A "undecodable" end])
          | inl nz =>
              let content_only := String.prefix "alt" who in
              let must_eq := negb content_only && negb (has_map want) && negb (prost_like && has_negzero v) in
              let eq := bytes_eqb bs canon_bytes in
              if must_eq && negb eq
              then inr (who ++ ": bytes differ from the model's encoding of a map-free message",
                        L [A "expected"; A (to_hex canon_bytes); A "got"; A h])
              else inl (List.app [who ++ (match nz with Some s => "-" ++ s | None => "" end)]
                                 (if eq then [who ++ "-bytes-eq"] else []))
          end
      end
  | L [A who; L (A "err" :: _)] => inr (who ++ ": rejected bytes the model produced / accepts", L [A "decode must succeed"])
  | L [A who; L (A "panic" :: _)] => inr (who ++ ": panicked", L [A "decode must succeed"])
  | _ => inr ("result shape", L [])
  end.

Fixpoint judge_all (ty : string) (v : value) (rs : list tree) (tags : list string) : tree :=
  match rs with
  | [] => agree tags
  | r :: rest =>
      match judge_one ty v r with
      | inl ts => judge_all ty v rest (List.app tags ts)
      | inr (clause, expected) => disagree clause expected
      end
  end.

(* stored bytes (artifact layer): the model and prost must read the same content *)
Definition judge_bytes (ty : string) (orig : list N) (r : tree) : tree :=
  match decode sp FUEL ty orig with
  | None => disagree "model cannot decode the stored layer" (L [])
  | Some w =>
      match r with
      | L [A "ok"; A h] =>
          match of_hex h with
          | Some bs =>
              match decode sp FUEL ty bs with
              | Some w' =>
                  if same_content w w' then agree ["stored"; "stored-exact"]
                  else if same_content (norm sp ty (squash w)) (norm sp ty (squash w'))
                  then agree ["stored"; "stored-negzero"]
                  else disagree "stored layer: prost re-encoding has different content"
                                (L [A "expected"; e_value w; A "got"; e_value w'])
              | None => disagree "stored layer: model cannot decode prost's re-encoding" (e_value w)
              end
          | None => badresult "stored: hex"
          end
      | _ => disagree "stored layer: prost rejects it" (e_value w)
      end
  end.

(* cross-schema witness: the value (keyed by the published field numbers) is re-keyed BY FIELD NAME
   to the numbers of schema X (rust / python bindings), written under X, and read under the
   published schema *)
Fixpoint find_by_name (fs : list field) (nm : string) : option field :=
  match fs with
  | [] => None
  | f :: r => if String.eqb (f_name f) nm then Some f else find_by_name r nm
  end.
Fixpoint rekey (sx : schema) (m : string) (v : value) {struct v} : value :=
  match v with
  | VMsg fs =>
      match lookup_msg sp m, lookup_msg sx m with
      | Some dp, Some dx =>
          VMsg (flat_map (fun nv : N * value =>
            let (n, x) := nv in
            match lookup_field dp n with
            | None => [(n, x)]
            | Some f =>
                match find_by_name dx (f_name f) with
                | None => []
                | Some fx =>
                    [(f_num fx,
                      match f_ty f, x with
                      | TM m', VMsg _ => rekey sx m' x
                      | TM m', VList vs => VList (map (rekey sx m') vs)
                      | TM m', VMap kvs => VMap (map (fun kv : value * value => (fst kv, rekey sx m' (snd kv))) kvs)
                      | _, _ => x
                      end)]
                end
            end) fs)
      | _, _ => VMsg []
      end
  | _ => v
  end.

Definition run_cross (which : string) (ty : string) (v : value) : tree :=
  let sx := if String.eqb which "rust" then schema_rust else schema_py in
  let bs := encode sx ty (rekey sx ty v) in
  let want := norm sp ty v in
  match decode sp FUEL ty bs with
  | Some w => if same_content w want then L [A "same"]
              else L [A "differs"; A (to_hex bs); e_value want; e_value w]
  | None => L [A "differs"; A (to_hex bs); e_value want; A "undecodable"]
  end.

Definition run_C07 (case : tree) : tree :=
  match case with
  | L [A "enc"; A ty; v] =>
      match d_value v with Some v' => run_enc ty v' | None => badcase "enc: value" end
  | L [A "enc_alt"; A ty; v] =>
      match d_value v with Some v' => run_enc_alt ty v' | None => badcase "enc_alt: value" end
  | L [A "judge"; A ty; v; L rs] =>
      match d_value v with Some v' => judge_all ty v' rs [] | None => badcase "judge: value" end
  | L [A "stored"; A ty; A h; r] =>
      match of_hex h with Some bs => judge_bytes ty bs r | None => badcase "stored: hex" end
  | L [A "cross"; A which; A ty; v] =>
      match d_value v with Some v' => run_cross which ty v' | None => badcase "cross: value" end
  | L [A "dec"; A ty; A h] =>
      match of_hex h with
      | Some bs => match decode sp FUEL ty bs with
                   | Some w => L [A "ok"; e_value w] | None => L [A "err"] end
      | None => badcase "dec: hex"
      end
  | _ => badcase "C07: unknown op"
  end.
