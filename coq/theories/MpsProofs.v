(* MpsProofs.v — theorems about the MPS reader model (Mps.v) against the declarative
   tables of MpsSpec.v, and about the writer model. *)
Require Import Ommx.Num Ommx.Poly Ommx.Msg Ommx.Mps Ommx.MpsSpec.
From Coq Require Import String Ascii.
From Coq Require Qcabs.
Open Scope string_scope.
Open Scope list_scope.

(* ================================================================== *)
(* association lists and name sets                                      *)

Lemma lookup_insert_same {V} k (v : V) m : lookup k (insert k v m) = Some v.
Proof.
  induction m as [|[k' v'] m IH]; cbn [insert lookup].
  - rewrite String.eqb_refl. reflexivity.
  - destruct (k =? k') eqn:E; cbn [lookup]; rewrite ?String.eqb_refl, ?E; auto.
Qed.
Lemma lookup_insert_other {V} k x (v : V) m : k <> x -> lookup x (insert k v m) = lookup x m.
Proof.
  intro N. induction m as [|[k' v'] m IH]; cbn [insert lookup].
  - destruct (x =? k) eqn:E; [apply String.eqb_eq in E; congruence|reflexivity].
  - destruct (k =? k') eqn:E; cbn [lookup].
    + apply String.eqb_eq in E. subst k'.
      destruct (x =? k) eqn:E2; [apply String.eqb_eq in E2; congruence|reflexivity].
    + destruct (x =? k'); auto.
Qed.

Lemma smem_app k a b : smem k (a ++ b) = smem k a || smem k b.
Proof. unfold smem. apply existsb_app. Qed.
Lemma smem_sadd_same k l : smem k (sadd k l) = true.
Proof.
  unfold sadd. destruct (smem k l) eqn:E; [exact E|].
  rewrite smem_app. cbn [smem existsb]. rewrite String.eqb_refl. apply orb_true_r.
Qed.
Lemma smem_sadd_other k x l : k <> x -> smem x (sadd k l) = smem x l.
Proof.
  intro N. unfold sadd. destruct (smem k l); [reflexivity|].
  rewrite smem_app. cbn [smem existsb].
  destruct (x =? k) eqn:E; [apply String.eqb_eq in E; congruence|].
  rewrite !orb_false_r. reflexivity.
Qed.
Lemma smem_sdel_same k l : smem k (sdel k l) = false.
Proof.
  unfold sdel, smem. induction l as [|y l IH]; cbn [filter existsb]; [reflexivity|].
  destruct (k =? y) eqn:E; cbn [negb existsb]; [exact IH|]. rewrite E. exact IH.
Qed.
Lemma smem_sdel_other k x l : k <> x -> smem x (sdel k l) = smem x l.
Proof.
  intro N. unfold sdel, smem. induction l as [|y l IH]; cbn [filter existsb]; [reflexivity|].
  destruct (k =? y) eqn:E; cbn [negb existsb].
  - apply String.eqb_eq in E. subst y.
    destruct (x =? k) eqn:E2; [apply String.eqb_eq in E2; congruence|]. exact IH.
  - rewrite IH. reflexivity.
Qed.

(* ================================================================== *)
(* 1. the row table                                                     *)

Lemma valg_neg_terms (rho : N -> num) ts : valg rho (neg_terms ts) = - valg rho ts.
Proof.
  induction ts as [|[i c] ts IH]; cbn [neg_terms map valg fst snd]; [ring|].
  fold (neg_terms ts). rewrite IH. ring.
Qed.

Lemma denote_mk_function ts c rho : denote (mk_function ts c) rho = valg rho ts + c.
Proof.
  unfold mk_function. destruct ts as [|t ts].
  - unfold denote. cbn [fn_terms]. rewrite val_cons, val_nil. cbn [mono_val valg]. ring.
  - change (denote (FLin {| l_terms := t :: ts; l_const := c |}) rho)
      with (lin_denote {| l_terms := t :: ts; l_const := c |} rho).
    rewrite lin_denote_eq. reflexivity.
Qed.

(* each of E / L / G with right-hand side b yields g with  g(x) (=|<=) 0  <->  a.x (=|<=|>=) b *)
Theorem row_table : forall (rho : N -> num) ts b ty,
  let '(ts', c, eq) := convert_inequality ts b ty in
  let g := denote (mk_function ts' c) rho in
  let ax := valg rho ts in
  match ty with
  | RE => eq = 1%N /\ (g = 0 <-> ax = b)
  | RL => eq = 2%N /\ (g <= 0 <-> ax <= b)
  | RG => eq = 2%N /\ (g <= 0 <-> b <= ax)
  | RN => True
  end.
Proof.
  intros rho ts b ty. destruct ty; cbn [convert_inequality]; [exact I| | |];
    rewrite denote_mk_function; split; try reflexivity.
  - split; intro H.
    + transitivity (valg rho ts + - b + b); [ring|]. rewrite H. ring.
    + rewrite H. ring.
  - split; intro H; qc2q; lra.
  - rewrite valg_neg_terms. split; intro H; qc2q; lra.
Qed.

(* ================================================================== *)
(* 2. the RANGES table                                                  *)

Definition sat (ty : rty) (b ax : num) : Prop :=
  match ty with RE => ax = b | RL => ax <= b | RG => b <= ax | RN => True end.

Lemma qabs_pos r : r <> 0 -> 0 < qabs r.
Proof.
  intro N. destruct (Qclt_le_dec 0 (qabs r)) as [H|H]; [exact H|].
  exfalso. apply N. apply qabs_le_0. exact H.
Qed.
Lemma qabs_of_pos r : 0 < r -> qabs r = r.
Proof. intro H. unfold qabs. apply Qcabs.Qcabs_pos. apply Qclt_le_weak. exact H. Qed.
Lemma qabs_of_nonpos r : r <= 0 -> qabs r = - r.
Proof. intro H. unfold qabs. apply Qcabs.Qcabs_neg. exact H. Qed.

(* the rule used by the parser (which row keeps which type, the right-hand side of the generated
   row) describes, for every row type, every b and every R <> 0, exactly  h <= a.x <= u  with
   [h, u] of the RANGES table, and that interval has width |R| > 0 *)
Theorem ranges_table : forall ty b r ax, r <> 0 -> ty <> RN ->
  exists ty1 ty2 b2, range_rule ty b r = Some (ty1, ty2, b2) /\
    let '(h, u) := range_interval ty b r in
    ((sat ty1 b ax /\ sat ty2 b2 ax) <-> (h <= ax /\ ax <= u)) /\ u - h = qabs r /\ h < u.
Proof.
  intros ty b r ax Hr Hty. pose proof (qabs_pos r Hr) as Hp.
  destruct ty; [congruence| | |]; cbn [range_rule range_interval].
  - destruct (qltb 0 r) eqn:E.
    + exists RG, RL, (b + qabs r). split; [reflexivity|]. cbn [sat].
      repeat split; try tauto; try ring. qc2q; lra.
    + exists RL, RG, (b - qabs r). split; [reflexivity|]. cbn [sat].
      repeat split; try tauto; try ring. qc2q; lra.
  - exists RL, RG, (b - qabs r). split; [reflexivity|]. cbn [sat].
    repeat split; try tauto; try ring. qc2q; lra.
  - exists RG, RL, (b + qabs r). split; [reflexivity|]. cbn [sat].
    repeat split; try tauto; try ring. qc2q; lra.
Qed.

(* the table in its textbook form: the sign of R only matters on E rows *)
Theorem ranges_table_values : forall ty b r,
  range_interval ty b r =
  match ty with
  | RG => (b, b + qabs r)
  | RL => (b - qabs r, b)
  | RE => if qltb 0 r then (b, b + r) else (b + r, b)
  | RN => (b, b)
  end.
Proof.
  intros ty b r. destruct ty; cbn [range_interval]; try reflexivity.
  destruct (qltb 0 r) eqn:E.
  - apply qltb_lt in E. rewrite (qabs_of_pos r E). reflexivity.
  - apply qltb_ge in E. rewrite (qabs_of_nonpos r E). f_equal. ring.
Qed.

(* the two constraints the specification generates for a ranged row hold exactly on  h <= a.x <= u *)
Theorem ranges_meaning : forall (kv : string -> num) a h u,
  (valg kv (negv a) + h <= 0 /\ valg kv a + - u <= 0) <-> (h <= valg kv a /\ valg kv a <= u).
Proof.
  intros kv a h u.
  assert (E : valg kv (negv a) = - valg kv a).
  { induction a as [|[k c] a IH]; cbn [negv map valg fst snd]; [ring|]. fold (negv a). rewrite IH. ring. }
  rewrite E. split; intros [H1 H2]; split; qc2q; lra.
Qed.

(* ================================================================== *)
(* 3. BOUNDS: the tables built by the parser are the per-column fold    *)

Definition col_view (x : string) (c : mcols) : cstate :=
  {| cs_lo := lookup x (c_l c); cs_up := lookup x (c_u c);
     cs_int := smem x (c_int c); cs_bin := smem x (c_bin c) |}.

Lemma apply_bound_view x c s :
  col_view x (apply_bound c s) =
  if b_col s =? x then bsem (b_kw s) (b_val s) (col_view x c) else col_view x c.
Proof.
  destruct s as [k y v]. cbn [b_col b_kw b_val].
  destruct (y =? x) eqn:E.
  - apply String.eqb_eq in E. subst y.
    destruct k; unfold apply_bound, col_view, bsem;
      cbn [b_col b_kw b_val c_vars c_int c_bin c_real c_u c_l cs_lo cs_up cs_int cs_bin];
      rewrite ?lookup_insert_same, ?smem_sadd_same, ?smem_sdel_same; reflexivity.
  - apply String.eqb_neq in E.
    destruct k; unfold apply_bound, col_view;
      cbn [b_col b_kw b_val c_vars c_int c_bin c_real c_u c_l];
      rewrite ?(lookup_insert_other y x) by exact E;
      rewrite ?(smem_sadd_other y x) by exact E;
      rewrite ?(smem_sdel_other y x) by exact E; reflexivity.
Qed.

Lemma fold_bound_view x bs : forall c,
  col_view x (fold_left apply_bound bs c) = col_fold x bs (col_view x c).
Proof.
  unfold col_fold. induction bs as [|s bs IH]; intro c; cbn [fold_left]; [reflexivity|].
  rewrite IH, apply_bound_view. reflexivity.
Qed.

(* every declared column stays in one of the three kind sets *)
Definition kinded (x : string) (c : mcols) : Prop :=
  smem x (c_int c) || smem x (c_bin c) || smem x (c_real c) = true.
Lemma apply_bound_kinded x c s : kinded x c -> kinded x (apply_bound c s).
Proof.
  unfold kinded. destruct s as [k y v]. intro H.
  destruct (string_dec y x) as [->|N];
    destruct k; unfold apply_bound; cbn [b_col b_kw b_val c_int c_bin c_real];
    rewrite ?smem_sadd_same, ?smem_sdel_same;
    rewrite ?(smem_sadd_other y x) by exact N; rewrite ?(smem_sdel_other y x) by exact N;
    try exact H; try reflexivity; rewrite ?orb_true_r; reflexivity.
Qed.
Lemma fold_bound_kinded x bs : forall c, kinded x c -> kinded x (fold_left apply_bound bs c).
Proof.
  induction bs as [|s bs IH]; intros c H; cbn [fold_left]; [exact H|].
  apply IH. apply apply_bound_kinded. exact H.
Qed.
Lemma apply_bound_real_false x c s :
  smem x (c_real c) = false -> smem x (c_real (apply_bound c s)) = false.
Proof.
  destruct s as [k y v]. intro H.
  destruct (string_dec y x) as [->|N];
    destruct k; unfold apply_bound; cbn [b_col b_kw b_val c_real];
    rewrite ?smem_sdel_same; rewrite ?(smem_sdel_other y x) by exact N; auto.
Qed.

(* finish: the fold over the entries of u *)
Definition hit (l : list (string * ext)) (x : string) (nu : string * ext) : bool :=
  (fst nu =? x) && is_one (snd nu) && lower_is_zero_or_absent l (fst nu).

Lemma finish_step_mem l x int bin nu :
  let '(i1, b1) := finish_step l (int, bin) nu in
  smem x i1 = smem x int && negb (hit l x nu) /\
  smem x b1 = smem x bin || (smem x int && hit l x nu).
Proof.
  destruct nu as [n u]. unfold finish_step, hit. cbn [fst snd].
  destruct (string_dec n x) as [->|N].
  - rewrite String.eqb_refl. cbn [andb].
    destruct (is_one u && lower_is_zero_or_absent l x) eqn:H; cbn [andb].
    + destruct (smem x int) eqn:M; cbn [andb orb negb].
      * rewrite smem_sdel_same, smem_sadd_same, orb_true_r. split; reflexivity.
      * rewrite M, orb_false_r. split; reflexivity.
    + rewrite andb_true_r, andb_false_r, orb_false_r. split; reflexivity.
  - assert (E : (n =? x) = false) by (apply String.eqb_neq; exact N). rewrite E. cbn [andb negb].
    rewrite andb_true_r, andb_false_r, orb_false_r.
    destruct (is_one u && lower_is_zero_or_absent l n && smem n int).
    + rewrite (smem_sdel_other n x) by exact N. rewrite (smem_sadd_other n x) by exact N.
      split; reflexivity.
    + split; reflexivity.
Qed.

Lemma finish_fold l x us : forall int bin,
  let '(int', bin') := fold_left (finish_step l) us (int, bin) in
  smem x int' = smem x int && negb (existsb (hit l x) us) /\
  smem x bin' = smem x bin || (smem x int && existsb (hit l x) us).
Proof.
  induction us as [|nu us IH]; intros int bin; cbn [fold_left existsb].
  - rewrite andb_true_r, andb_false_r, orb_false_r. split; reflexivity.
  - pose proof (finish_step_mem l x int bin nu) as S.
    destruct (finish_step l (int, bin) nu) as [i1 b1]. destruct S as [S1 S2].
    specialize (IH i1 b1).
    destruct (fold_left (finish_step l) us (i1, b1)) as [int' bin'].
    destruct IH as [I1 I2]. rewrite I1, I2, S1, S2.
    destruct (smem x int), (smem x bin), (hit l x nu), (existsb (hit l x) us); split; reflexivity.
Qed.

Definition keys_nodup {V} (m : list (string * V)) : Prop := NoDup (map fst m).
Lemma insert_keys_in {V} k (v : V) m y : In y (map fst (insert k v m)) -> y = k \/ In y (map fst m).
Proof.
  induction m as [|[k' v'] m IH]; cbn [insert map fst In].
  - intros [<-|[]]. left; reflexivity.
  - destruct (k =? k') eqn:E; cbn [map fst In].
    + apply String.eqb_eq in E. subst k'. intros [<-|H]; auto.
    + intros [<-|H]; auto. destruct (IH H); auto.
Qed.
Lemma insert_nodup {V} k (v : V) m : keys_nodup m -> keys_nodup (insert k v m).
Proof.
  unfold keys_nodup. induction m as [|[k' v'] m IH]; cbn [insert map fst]; intro H.
  - constructor; [intros []|constructor].
  - inversion H as [|? ? Hn Hd]; subst. destruct (k =? k') eqn:E; cbn [map fst].
    + apply String.eqb_eq in E. subst k'. constructor; assumption.
    + constructor; [|apply IH; exact Hd].
      intro Hi. apply insert_keys_in in Hi. destruct Hi as [->|Hi]; [|contradiction].
      rewrite String.eqb_refl in E. discriminate.
Qed.
Lemma apply_bound_nodup c s : keys_nodup (c_u c) -> keys_nodup (c_u (apply_bound c s)).
Proof.
  destruct s as [k y v]. intro H. destruct k; unfold apply_bound; cbn [b_kw b_col b_val c_u];
    try exact H; apply insert_nodup; exact H.
Qed.
Lemma fold_bound_nodup bs : forall c, keys_nodup (c_u c) -> keys_nodup (c_u (fold_left apply_bound bs c)).
Proof.
  induction bs as [|s bs IH]; intros c H; cbn [fold_left]; [exact H|].
  apply IH. apply apply_bound_nodup. exact H.
Qed.

Lemma existsb_hit_lookup l x us : keys_nodup us ->
  existsb (hit l x) us =
  match lookup x us with
  | Some u => is_one u && lower_is_zero_or_absent l x
  | None => false
  end.
Proof.
  unfold keys_nodup. induction us as [|[n u] us IH]; cbn [existsb lookup map fst]; intro H; [reflexivity|].
  inversion H as [|? ? Hn Hd]; subst. unfold hit at 1. cbn [fst snd].
  rewrite (String.eqb_sym x n). destruct (n =? x) eqn:E; cbn [andb orb].
  - apply String.eqb_eq in E. subst n.
    assert (Z : existsb (hit l x) us = false).
    { apply not_true_is_false. intro T. apply existsb_exists in T. destruct T as ([n' u'] & Hin & Hh).
      unfold hit in Hh. cbn [fst snd] in Hh. apply andb_true_iff in Hh. destruct Hh as [Hh _].
      apply andb_true_iff in Hh. destruct Hh as [Hh _]. apply String.eqb_eq in Hh. subst n'.
      apply Hn. apply in_map_iff. exists (x, u'). auto. }
    rewrite Z, orb_false_r. reflexivity.
  - apply IH. exact Hd.
Qed.

Lemma eeqb_fin_eq u q : eeqb u (Fin q) = true -> u = Fin q.
Proof. destruct u; cbn [eeqb]; try discriminate. intro H. apply qeqb_eq in H. subst. reflexivity. Qed.

(* for every sequence of bound statements, on every declared column: the bound and the kind the
   converted instance gets are the fold of the keyword table of MpsSpec (default [0, +inf); an upper
   bound <= 0 without a lower bound opens the lower bound; integer with [0, 1] is binary) *)
Theorem bounds_fold : forall c bs x is_int,
  c_u c = [] -> c_l c = [] ->
  smem x (c_int c) = is_int -> smem x (c_bin c) = false -> smem x (c_real c) = negb is_int ->
  let c' := finish_cols (fold_left apply_bound bs c) in
  let s := col_fold x bs (cstate0 is_int) in
  get_dvar_bound c' x = eff_bounds s /\ get_dvar_kind c' x = kind_code (final_kind s).
Proof.
  intros c bs x is_int Hu Hl Hi Hb Hr c' s.
  set (c1 := fold_left apply_bound bs c) in *.
  assert (V : col_view x c1 = s).
  { unfold c1, s. rewrite fold_bound_view. unfold col_view, cstate0. rewrite Hu, Hl, Hi, Hb. reflexivity. }
  assert (K : kinded x c1).
  { unfold c1. apply fold_bound_kinded. unfold kinded. rewrite Hi, Hb, Hr. destruct is_int; reflexivity. }
  assert (ND : keys_nodup (c_u c1)).
  { unfold c1. apply fold_bound_nodup. rewrite Hu. constructor. }
  assert (Vlo : lookup x (c_l c1) = cs_lo s) by (rewrite <- V; reflexivity).
  assert (Vup : lookup x (c_u c1) = cs_up s) by (rewrite <- V; reflexivity).
  assert (Vint : smem x (c_int c1) = cs_int s) by (rewrite <- V; reflexivity).
  assert (Vbin : smem x (c_bin c1) = cs_bin s) by (rewrite <- V; reflexivity).
  unfold c', finish_cols.
  pose proof (finish_fold (c_l c1) x (c_u c1) (c_int c1) (c_bin c1)) as F.
  destruct (fold_left (finish_step (c_l c1)) (c_u c1) (c_int c1, c_bin c1)) as [int' bin'].
  destruct F as [F1 F2]. rewrite (existsb_hit_lookup _ _ _ ND) in F1, F2.
  split.
  - unfold get_dvar_bound, eff_bounds. cbn [c_l c_u]. rewrite Vlo, Vup. reflexivity.
  - unfold get_dvar_kind. cbn [c_int c_bin c_real]. rewrite F1, F2, Vint, Vbin, Vup.
    unfold lower_is_zero_or_absent. rewrite Vlo.
    unfold final_kind, eff_bounds, kinded in *. rewrite Vint, Vbin in K.
    destruct (cs_int s) eqn:Ei; cbn [andb orb negb].
    + destruct (cs_up s) as [u|]; destruct (cs_lo s) as [l|]; cbn [negb andb orb].
      * unfold is_one. rewrite (andb_comm (eeqb u (Fin 1))).
        destruct (eeqb l (Fin 0) && eeqb u (Fin 1)); cbn [negb];
          [destruct (cs_bin s)|]; reflexivity.
      * unfold is_one. rewrite andb_true_r. destruct (eeqb u (Fin 1)) eqn:E1; cbn [negb].
        -- apply eeqb_fin_eq in E1. subst u.
           assert (E0 : eleb (Fin 1) (Fin 0) = false) by reflexivity. rewrite E0.
           assert (E2 : eeqb (Fin 0) (Fin 0) && eeqb (Fin 1) (Fin 1) = true) by reflexivity.
           rewrite E2. rewrite orb_true_r. reflexivity.
        -- destruct (eleb u (Fin 0)); cbn [eeqb andb]; rewrite ?E1, ?andb_false_r; reflexivity.
      * assert (E : eeqb PInf (Fin 1) = false) by reflexivity. rewrite E, andb_false_r. reflexivity.
      * assert (E : eeqb PInf (Fin 1) = false) by reflexivity. rewrite E, andb_false_r. reflexivity.
    + rewrite orb_false_r. cbn [orb] in K.
      assert (R : cs_bin s = true \/ (cs_bin s = false /\ smem x (c_real c1) = true)).
      { destruct (cs_bin s); [left; reflexivity|right; split; [reflexivity|exact K]]. }
      destruct R as [R|[R R']]; rewrite R, ?R';
        destruct (cs_up s) as [u|]; destruct (cs_lo s) as [l|];
        try destruct (eleb u (Fin 0)); reflexivity.
Qed.

(* ================================================================== *)
(* 4. the objective                                                     *)

Theorem objective_value : forall m ids ts,
  convert_terms ids (m_c m) = Ok ts ->
  exists f, convert_objective m ids = Ok f /\
    forall rho, denote f rho = valg rho ts - rhs_of (r_b (m_rows m)) (m_obj m).
Proof.
  intros m ids ts H. unfold convert_objective. rewrite H. cbn [rbind].
  eexists. split; [reflexivity|]. intro rho. rewrite denote_mk_function. ring.
Qed.

(* an entry of a column line in the objective row becomes the objective coefficient of the column *)
Theorem objective_entry : forall free col v q m,
  read_f64 v = Some (Fin q) ->
  exists m', add_coef free col (m_obj m, v) m = Ok m' /\
    lookup col (m_c m') = Some q /\ m_rows m' = m_rows m /\ m_obj m' = m_obj m.
Proof.
  intros free col v q m H. unfold add_coef, read_fin. rewrite H. cbn [rbind].
  rewrite String.eqb_refl. eexists. split; [reflexivity|]. cbn [m_c m_rows m_obj].
  rewrite lookup_insert_same. auto.
Qed.

Theorem sense_of_convert : forall m I, convert m = Ok I ->
  in_sense I = if m_max m then 2%N else 1%N.
Proof.
  intros m I. unfold convert. destruct (convert_dvars (m_cols m)) as [dvs ids].
  destruct (convert_objective m ids); cbn [rbind]; [|discriminate].
  destruct (convert_constraints (m_rows m) ids); cbn [rbind]; [|discriminate].
  intro H. inversion H. reflexivity.
Qed.

(* ================================================================== *)
(* 5. errors                                                            *)

Definition in_section (st : pstate) (c : cursor) : Prop :=
  p_cur st = c /\ p_done st = false /\ p_wait st = false.

Theorem err_unknown_row_type : forall st line t name,
  p_cur st = CRows ->
  (t =? "N") = false -> (t =? "E") = false -> (t =? "G") = false -> (t =? "L") = false ->
  read_fields st line [t; name] = Err (EInvalidRowType t).
Proof.
  intros st line t name Hc H1 H2 H3 H4. unfold read_fields. rewrite Hc.
  unfold parse_row. rewrite H1, H2, H3, H4. reflexivity.
Qed.

Theorem err_unknown_bound_type : forall st line f0 rest,
  p_cur st = CBounds -> kw_of f0 = None ->
  read_fields st line (f0 :: rest) = Err (EInvalidBoundType f0).
Proof.
  intros st line f0 rest Hc H. unfold read_fields. rewrite Hc. unfold parse_bound. rewrite H. reflexivity.
Qed.

Theorem err_bad_marker : forall st line f0 f2,
  p_cur st = CColumns -> (f2 =? "'INTORG'") = false -> (f2 =? "'INTEND'") = false ->
  read_fields st line [f0; "'MARKER'"; f2] = Err (EInvalidMarker f2).
Proof.
  intros st line f0 f2 Hc H1 H2. unfold read_fields. rewrite Hc.
  unfold parse_column. cbn [len35 negb]. rewrite String.eqb_refl, H1, H2. reflexivity.
Qed.

Theorem err_bad_sense_word : forall w,
  (w =? "MIN") = false -> (w =? "MAX") = false -> parse_sense w = Err (EInvalidObjSense w).
Proof. intros w H1 H2. unfold parse_sense. rewrite H1, H2. reflexivity. Qed.

(* ... on the OBJSENSE header line itself *)
Theorem err_bad_sense_inline : forall st rest,
  strip_prefix "NAME" ("OBJSENSE" +++ rest) = None ->
  sempty (trim rest) = false ->
  (trim rest =? "MIN") = false -> (trim rest =? "MAX") = false ->
  read_header st ("OBJSENSE" +++ rest) = Err (EInvalidObjSense (trim rest)).
Proof.
  intros st rest Hn He H1 H2. unfold read_header. rewrite Hn.
  assert (S : strip_prefix "OBJSENSE" ("OBJSENSE" +++ rest) = Some rest) by reflexivity.
  rewrite S, He. rewrite (err_bad_sense_word _ H1 H2). reflexivity.
Qed.

(* ... and on the field line that follows a bare OBJSENSE header *)
Theorem err_bad_sense_line : forall st line w fs,
  p_done st = false -> p_wait st = true -> blank line = false ->
  first_is "*"%char line = false -> first_is " "%char line = true ->
  split_ws line = w :: fs -> (w =? "MIN") = false -> (w =? "MAX") = false ->
  step st line = Err (EInvalidObjSense w).
Proof.
  intros st line w fs Hd Hw Hb Hs Hsp Hf H1 H2. unfold step.
  rewrite Hd, Hb, Hs, Hsp, Hw, Hf. cbn [negb]. rewrite (err_bad_sense_word _ H1 H2). reflexivity.
Qed.

(* a column entry that names a row which is neither the objective, nor a free row, nor declared *)
Theorem err_undeclared_row_columns : forall st line col row v q,
  p_cur st = CColumns -> (row =? "'MARKER'") = false ->
  read_f64 v = Some (Fin q) ->
  (row =? m_obj (p_mps st)) = false -> smem row (p_free st) = false ->
  lookup row (r_a (m_rows (p_mps st))) = None ->
  read_fields st line [col; row; v] = Err (EUnknownRowName row).
Proof.
  intros st line col row v q Hc Hm Hv Ho Hf Hl. unfold read_fields. rewrite Hc.
  unfold parse_column. cbn [len35 negb]. rewrite Hm. cbn [rbind text_pairs add_coefs].
  unfold add_coef, read_fin. rewrite Hv. cbn [rbind declare_col m_obj m_rows].
  rewrite Ho, Hf, Hl. reflexivity.
Qed.

Theorem err_undeclared_row_ranges : forall st line set row v q,
  p_cur st = CRanges -> read_f64 v = Some (Fin q) -> q <> 0 ->
  lookup row (r_a (m_rows (p_mps st))) = None ->
  read_fields st line [set; row; v] = Err (EUnknownRowName row).
Proof.
  intros st line set row v q Hc Hv Hq Hl. unfold read_fields. rewrite Hc. cbn [len35 negb tl].
  cbn [add_range_fields]. unfold read_fin. rewrite Hv. cbn [rbind].
  unfold add_range. apply qeqb_neq in Hq. rewrite Hq, Hl. reflexivity.
Qed.

(* an unparsable number is reported wherever a number is expected *)
Theorem err_number_columns : forall st line col row v,
  p_cur st = CColumns -> (row =? "'MARKER'") = false -> read_f64 v = None ->
  read_fields st line [col; row; v] = Err (EParseFloat v).
Proof.
  intros st line col row v Hc Hm Hv. unfold read_fields. rewrite Hc.
  unfold parse_column. cbn [len35 negb]. rewrite Hm. cbn [rbind text_pairs add_coefs].
  unfold add_coef, read_fin. rewrite Hv. reflexivity.
Qed.
Theorem err_number_rhs : forall st line set row v,
  p_cur st = CRhs -> read_f64 v = None ->
  read_fields st line [set; row; v] = Err (EParseFloat v).
Proof.
  intros st line set row v Hc Hv. unfold read_fields. rewrite Hc. cbn [len35 negb tl parse_pairs].
  unfold read_fin. rewrite Hv. reflexivity.
Qed.
Theorem err_number_ranges : forall st line set row v,
  p_cur st = CRanges -> read_f64 v = None ->
  read_fields st line [set; row; v] = Err (EParseFloat v).
Proof.
  intros st line set row v Hc Hv. unfold read_fields. rewrite Hc. cbn [len35 negb tl add_range_fields].
  unfold read_fin. rewrite Hv. reflexivity.
Qed.
Theorem err_number_bounds : forall st line kw k set col v rest,
  p_cur st = CBounds -> kw_of kw = Some k -> kw_needs_value k = true -> read_f64 v = None ->
  read_fields st line (kw :: set :: col :: v :: rest) = Err (EParseFloat v).
Proof.
  intros st line kw k set col v rest Hc Hk Hn Hv. unfold read_fields. rewrite Hc.
  unfold parse_bound. rewrite Hk. destruct k; try discriminate; rewrite ?Hn;
    unfold read_ext; rewrite Hv; reflexivity.
Qed.

(* an unknown section header *)
Theorem err_unknown_header : forall st line,
  strip_prefix "NAME" line = None -> strip_prefix "OBJSENSE" line = None ->
  (forall c, parse_cursor (trim line) <> Ok c) ->
  read_header st line = Err (EInvalidHeader (trim line)).
Proof.
  intros st line H1 H2 H3. unfold read_header. rewrite H1, H2.
  unfold parse_cursor in *.
  destruct (trim line =? "ROWS"); [exfalso; eapply H3; reflexivity|].
  destruct (trim line =? "COLUMNS"); [exfalso; eapply H3; reflexivity|].
  destruct (trim line =? "RHS"); [exfalso; eapply H3; reflexivity|].
  destruct (trim line =? "RANGES"); [exfalso; eapply H3; reflexivity|].
  destruct (trim line =? "BOUNDS"); [exfalso; eapply H3; reflexivity|].
  destruct (trim line =? "ENDATA"); [exfalso; eapply H3; reflexivity|].
  reflexivity.
Qed.

(* ================================================================== *)
(* 6. the writer (C18)                                                  *)

Definition is_linear (f : function) : Prop := as_linear f <> None.

Lemma w_col_entry_linear id vn rn f : is_linear f -> exists l, w_col_entry id vn rn f = WOk l.
Proof.
  unfold is_linear, w_col_entry. destruct (as_linear f); [eexists; reflexivity|congruence].
Qed.
Lemma w_col_constraints_linear id vn cs :
  Forall (fun c => is_linear (cn_fn c)) cs -> exists l, w_col_constraints id vn cs = WOk l.
Proof.
  induction cs as [|c cs IH]; intro H; cbn [w_col_constraints]; [eexists; reflexivity|].
  inversion H as [|? ? Hc Hcs]; subst.
  destruct (w_col_entry_linear id vn (constr_name c) _ Hc) as [l1 E1]. rewrite E1.
  destruct (IH Hcs) as [l2 E2]. rewrite E2. eexists; reflexivity.
Qed.

(* the first constraint that is not linear is the one named *)
Lemma w_col_constraints_first id vn pre c post :
  Forall (fun c => is_linear (cn_fn c)) pre -> as_linear (cn_fn c) = None ->
  w_col_constraints id vn (pre ++ c :: post) = WErr (WConstraint (constr_name c) (fn_degree (cn_fn c))).
Proof.
  induction pre as [|p pre IH]; intros Hp Hc; cbn [app w_col_constraints].
  - unfold w_col_entry. rewrite Hc. reflexivity.
  - inversion Hp as [|? ? H1 H2]; subst.
    destruct (w_col_entry_linear id vn (constr_name p) _ H1) as [l1 E1]. rewrite E1.
    rewrite (IH H2 Hc). reflexivity.
Qed.
Lemma w_rhs_constraints_first pre c post :
  Forall (fun c => is_linear (cn_fn c)) pre -> as_linear (cn_fn c) = None ->
  w_rhs_constraints (pre ++ c :: post) = WErr (WConstraint (constr_name c) (fn_degree (cn_fn c))).
Proof.
  induction pre as [|p pre IH]; intros Hp Hc; cbn [app w_rhs_constraints].
  - rewrite Hc. reflexivity.
  - inversion Hp as [|? ? H1 H2]; subst. unfold is_linear in H1.
    destruct (as_linear (cn_fn p)); [|congruence]. rewrite (IH H2 Hc). reflexivity.
Qed.
Lemma w_rhs_constraints_linear cs :
  Forall (fun c => is_linear (cn_fn c)) cs -> exists l, w_rhs_constraints cs = WOk l.
Proof.
  induction cs as [|c cs IH]; intro H; cbn [w_rhs_constraints]; [eexists; reflexivity|].
  inversion H as [|? ? Hc Hcs]; subst. unfold is_linear in Hc.
  destruct (as_linear (cn_fn c)); [|congruence].
  destruct (IH Hcs) as [ls E]. rewrite E. eexists; reflexivity.
Qed.

Lemma w_columns_loop_linear I vs : forall block counter,
  is_linear (in_obj I) -> Forall (fun c => is_linear (cn_fn c)) (in_cons I) ->
  exists l, w_columns_loop I vs block counter = WOk l.
Proof.
  induction vs as [|v vs IH]; intros block counter Ho Hc; cbn [w_columns_loop]; [eexists; reflexivity|].
  destruct (if ((dv_kind v =? 1) || (dv_kind v =? 2))%N
            then if block then ([], true, counter) else ([marker_line counter true], true, (counter + 1)%N)
            else if block then ([marker_line counter false], false, (counter + 1)%N)
                 else ([], false, counter)) as [[mark block'] counter'].
  destruct (w_col_entry_linear (dv_id v) (dvar_name v) OBJ_NAME _ Ho) as [l0 E0]. rewrite E0.
  destruct (w_col_constraints_linear (dv_id v) (dvar_name v) _ Hc) as [l1 E1]. rewrite E1.
  destruct (IH block' counter' Ho Hc) as [l2 E2]. rewrite E2. eexists; reflexivity.
Qed.

(* a nonlinear objective is refused, naming the objective and its degree *)
Theorem write_refuses_objective : forall I,
  in_dvars I <> [] -> as_linear (in_obj I) = None ->
  write_mps I = WErr (WObjective (fn_degree (in_obj I))).
Proof.
  intros I Hd Ho. unfold write_mps. destruct (in_dvars I) as [|v vs] eqn:E; [congruence|].
  cbn [w_columns_loop].
  destruct (if ((dv_kind v =? 1) || (dv_kind v =? 2))%N
            then ([marker_line 0 true], true, (0 + 1)%N) else ([], false, 0%N)) as [[mark block'] counter'].
  unfold w_col_entry. rewrite Ho. reflexivity.
Qed.

(* with a linear objective, the first nonlinear constraint is refused, naming it and its degree *)
Theorem write_refuses_constraint : forall I pre c post,
  is_linear (in_obj I) -> in_cons I = pre ++ c :: post ->
  Forall (fun c => is_linear (cn_fn c)) pre -> as_linear (cn_fn c) = None ->
  write_mps I = WErr (WConstraint (constr_name c) (fn_degree (cn_fn c))).
Proof.
  intros I pre c post Ho Hc Hp Hn. unfold write_mps.
  destruct (in_dvars I) as [|v vs] eqn:E.
  - cbn [w_columns_loop]. unfold w_rhs. rewrite Hc, (w_rhs_constraints_first pre c post Hp Hn). reflexivity.
  - cbn [w_columns_loop].
    destruct (if ((dv_kind v =? 1) || (dv_kind v =? 2))%N
              then ([marker_line 0 true], true, (0 + 1)%N) else ([], false, 0%N)) as [[mark block'] counter'].
    destruct (w_col_entry_linear (dv_id v) (dvar_name v) OBJ_NAME _ Ho) as [l0 E0]. rewrite E0.
    rewrite Hc, (w_col_constraints_first (dv_id v) (dvar_name v) pre c post Hp Hn). reflexivity.
Qed.

(* a linear instance whose used variables are all defined is written *)
Theorem write_accepts_linear : forall I,
  is_linear (in_obj I) -> Forall (fun c => is_linear (cn_fn c)) (in_cons I) ->
  (forall id, In id (used_ids I) -> var_by_id I id <> None) ->
  exists lines, write_mps I = WOk lines.
Proof.
  intros I Ho Hc Hu. unfold write_mps.
  destruct (w_columns_loop_linear I (in_dvars I) false 0%N Ho Hc) as [cols E]. rewrite E.
  unfold w_rhs. destruct (w_rhs_constraints_linear _ Hc) as [rl Er]. rewrite Er.
  assert (B : exists b, w_bounds_loop I (used_ids I) = WOk b).
  { revert Hu. generalize (used_ids I). intro ids. induction ids as [|id ids IH]; intro Hu;
      cbn [w_bounds_loop]; [eexists; reflexivity|].
    destruct (var_by_id I id) eqn:V; [|exfalso; apply (Hu id); [left; reflexivity|exact V]].
    destruct IH as [b Eb]; [intros j Hj; apply Hu; right; exact Hj|]. rewrite Eb. eexists; reflexivity. }
  destruct B as [b Eb]. rewrite Eb. eexists; reflexivity.
Qed.

(* hence: a refusal for nonlinearity happens only for an instance that has a nonlinear function *)
Theorem write_refusal_sound : forall I,
  (exists d, write_mps I = WErr (WObjective d)) \/ (exists n d, write_mps I = WErr (WConstraint n d)) ->
  ~ (is_linear (in_obj I) /\ Forall (fun c => is_linear (cn_fn c)) (in_cons I)).
Proof.
  intros I H [Ho Hc]. unfold write_mps in H.
  destruct (w_columns_loop_linear I (in_dvars I) false 0%N Ho Hc) as [cols E]. rewrite E in H.
  unfold w_rhs in H. destruct (w_rhs_constraints_linear _ Hc) as [rl Er]. rewrite Er in H.
  assert (B : (exists b, w_bounds_loop I (used_ids I) = WOk b) \/
              (exists id, w_bounds_loop I (used_ids I) = WErr (WInvalidVariableId id))).
  { generalize (used_ids I). intro ids. induction ids as [|id ids IH]; cbn [w_bounds_loop];
      [left; eexists; reflexivity|].
    destruct (var_by_id I id); [|right; eexists; reflexivity].
    destruct IH as [[b Eb]|[j Ej]]; [rewrite Eb; left; eexists; reflexivity|rewrite Ej; right; eexists; reflexivity]. }
  destruct B as [[b Eb]|[j Ej]]; [rewrite Eb in H|rewrite Ej in H];
    destruct H as [[d H]|[n [d H]]]; discriminate.
Qed.

(* ---- domains ---- *)

(* the value domain of a variable: (integrality, lower, upper); an absent bound is unbounded,
   [0,1] for binaries; binary = integer within [0,1] *)
Definition domain (kind : N) (b : option (ext * ext)) : bool * ext * ext :=
  match b with
  | Some (lo, up) =>
      if (kind =? 1)%N then (true, emax lo (Fin 0), emin up (Fin 1))
      else ((kind =? 2)%N, lo, up)
  | None =>
      if (kind =? 1)%N then (true, Fin 0, Fin 1) else ((kind =? 2)%N, NInf, PInf)
  end.

(* the BOUNDS statements of write_bounds for one variable, before they become text *)
Definition written_stmts (v : dvar) : list bstmt :=
  let x := dvar_name v in
  let is_int := ((dv_kind v =? 1) || (dv_kind v =? 2))%N in
  match dv_bound v with
  | Some (lo, up) =>
      [ {| b_kw := if is_int then UI else UP; b_col := x; b_val := up |};
        {| b_kw := if is_int then LI else LO; b_col := x; b_val := lo |} ]
  | None =>
      if (dv_kind v =? 1)%N
      then [ {| b_kw := UI; b_col := x; b_val := Fin 1 |}; {| b_kw := LI; b_col := x; b_val := Fin 0 |} ]
      else [ {| b_kw := FR; b_col := x; b_val := Fin 0 |} ]
  end.
Definition stmt_line (s : bstmt) : string :=
  if kw_needs_value (b_kw s)
  then "  " +++ kw_word (b_kw s) +++ " BND1    " +++ b_col s +++ "  " +++ print_ext (b_val s)
  else "  " +++ kw_word (b_kw s) +++ " BND1    " +++ b_col s.

Lemma print_num_1 : print_num 1 = "1". Proof. reflexivity. Qed.
Lemma print_num_0 : print_num 0 = "0". Proof. reflexivity. Qed.

Theorem bound_lines_are_stmts : forall v, bound_lines v = map stmt_line (written_stmts v).
Proof.
  intro v. unfold bound_lines, written_stmts.
  destruct (dv_bound v) as [[lo up]|].
  - destruct ((dv_kind v =? 1) || (dv_kind v =? 2))%N; reflexivity.
  - destruct (dv_kind v =? 1)%N; reflexivity.
Qed.

(* what the reader makes of these statements (C17_bounds: the fold of the keyword table),
   as a domain; [marker] = the column stands between INTORG / INTEND markers *)
Definition read_domain (marker : bool) (x : string) (bs : list bstmt) : bool * ext * ext :=
  let s := col_fold x bs (cstate0 marker) in
  domain (kind_code (final_kind s)) (Some (eff_bounds s)).

Definition no_nan (b : option (ext * ext)) : Prop :=
  match b with Some (lo, up) => is_nan lo = false /\ is_nan up = false | None => True end.
(* a bound given to a binary variable lies within [0, 1] *)
Definition binary_bound_ok (kind : N) (b : option (ext * ext)) : Prop :=
  kind = 1%N -> match b with Some (lo, up) => eleb (Fin 0) lo = true /\ eleb up (Fin 1) = true | None => True end.

Lemma emax_ge lo : eleb (Fin 0) lo = true -> emax lo (Fin 0) = lo.
Proof.
  destruct lo; cbn [eleb emax]; try discriminate; try reflexivity.
  intro H. unfold eleb. destruct (qleb q 0) eqn:E; [|reflexivity].
  apply qleb_le in E. apply qleb_le in H. f_equal. apply Qcle_antisym; assumption.
Qed.
Lemma emin_le up : eleb up (Fin 1) = true -> emin up (Fin 1) = up.
Proof.
  destruct up; cbn [eleb emin]; try discriminate; try reflexivity.
  intro H. unfold eleb. rewrite H. reflexivity.
Qed.

(* for each kind x bound shape: the statements written for a variable, read with the column's
   marker status, give back the variable's domain *)
Theorem domain_roundtrip : forall v,
  (dv_kind v = 1 \/ dv_kind v = 2 \/ dv_kind v = 3)%N ->
  no_nan (dv_bound v) -> binary_bound_ok (dv_kind v) (dv_bound v) ->
  read_domain ((dv_kind v =? 1) || (dv_kind v =? 2))%N (dvar_name v) (written_stmts v)
  = domain (dv_kind v) (dv_bound v).
Proof.
  intros v Hk Hn Hb. unfold read_domain, written_stmts, col_fold.
  destruct (dv_bound v) as [[lo up]|] eqn:B.
  - cbn [no_nan] in Hn. destruct Hn as [Nl Nu].
    destruct Hk as [K|[K|K]]; rewrite K in *; cbn [N.eqb Pos.eqb orb fold_left b_col b_kw b_val];
      rewrite !String.eqb_refl; cbn [bsem cstate0 cs_lo cs_up cs_int cs_bin];
      unfold final_kind, eff_bounds; cbn [cs_lo cs_up cs_int cs_bin].
    + destruct (Hb eq_refl) as [H0 H1].
      destruct (eeqb lo (Fin 0) && eeqb up (Fin 1)) eqn:E; cbn [kind_code domain N.eqb Pos.eqb].
      * apply andb_true_iff in E. destruct E as [E0 E1].
        apply eeqb_fin_eq in E0. apply eeqb_fin_eq in E1. subst. reflexivity.
      * rewrite (emax_ge lo H0), (emin_le up H1). reflexivity.
    + destruct (eeqb lo (Fin 0) && eeqb up (Fin 1)) eqn:E; cbn [kind_code domain N.eqb Pos.eqb].
      * apply andb_true_iff in E. destruct E as [E0 E1].
        apply eeqb_fin_eq in E0. apply eeqb_fin_eq in E1. subst. reflexivity.
      * reflexivity.
    + reflexivity.
  - destruct Hk as [K|[K|K]]; rewrite K; cbn [N.eqb Pos.eqb orb fold_left b_col b_kw b_val];
      rewrite !String.eqb_refl; reflexivity.
Qed.

(* ================================================================== *)
(* 7. RANGES: the reader's step applies the rule to the tables          *)
Definition in_set (ty : rty) (x : string) (r : mrows) : bool :=
  match ty with RE => smem x (r_eq r) | RG => smem x (r_ge r) | RL => smem x (r_le r) | RN => false end.

Lemma smem_sadd_mono k x l : smem x l = true -> smem x (sadd k l) = true.
Proof.
  intro H. destruct (string_dec k x) as [->|N]; [apply smem_sadd_same|].
  rewrite (smem_sadd_other k x l N). exact H.
Qed.

Lemma row_type_in_set r row : row_type r row <> RN -> in_set (row_type r row) row r = true.
Proof.
  intro H; revert H.
  unfold row_type, in_set.
  destruct (smem row (r_eq r)) eqn:E1; [intros _; reflexivity|].
  destruct (smem row (r_ge r)) eqn:E2; [intros _; reflexivity|].
  destruct (smem row (r_le r)) eqn:E3; [intros _; reflexivity|]. congruence.
Qed.

(* one RANGES entry (row, R), R <> 0, on a declared row of type ty: the generated row gets the
   entries of the row, the type and right-hand side of the rule; the ranged row gets (keeps) the
   type of the rule and, if it was an E row, leaves the equality set *)
Theorem range_step : forall m row rg entries,
  let r := m_rows m in
  lookup row (r_a r) = Some entries -> rg <> 0 -> row_type r row <> RN ->
  exists ty1 ty2 b2 m',
    range_rule (row_type r row) (rhs_of (r_b r) row) rg = Some (ty1, ty2, b2) /\
    add_range m (row, rg) = Ok m' /\
    let new := fresh_row_name (S (S (List.length (r_a r)))) (r_a r) (m_obj m) (row +++ "_") in
    let r' := m_rows m' in
    lookup new (r_a r') = Some entries /\
    rhs_of (r_b r') new = b2 /\
    in_set ty2 new r' = true /\ in_set ty1 row r' = true /\
    (row_type r row = RE -> smem row (r_eq r') = false).
Proof.
  intros m row rg entries r Hl Hr Hty.
  pose proof (row_type_in_set r row Hty) as Hin.
  unfold add_range. fold r. apply qeqb_neq in Hr. rewrite Hr, Hl.
  set (new := fresh_row_name (S (S (List.length (r_a r)))) (r_a r) (m_obj m) (row +++ "_")).
  destruct (row_type r row) eqn:T; [congruence| | |]; cbn [range_rule].
  - destruct (qltb 0 rg).
    + eexists RG, RL, _, _. split; [reflexivity|]. split; [reflexivity|].
      cbn [m_rows set_type r_a r_b r_eq r_ge r_le in_set]. unfold rhs_of.
      rewrite !lookup_insert_same. repeat split.
      * apply smem_sadd_same.
      * apply smem_sadd_same.
      * intros _. apply smem_sdel_same.
    + eexists RL, RG, _, _. split; [reflexivity|]. split; [reflexivity|].
      cbn [m_rows set_type r_a r_b r_eq r_ge r_le in_set]. unfold rhs_of.
      rewrite !lookup_insert_same. repeat split.
      * apply smem_sadd_same.
      * apply smem_sadd_same.
      * intros _. apply smem_sdel_same.
  - eexists RL, RG, _, _. split; [reflexivity|]. split; [reflexivity|].
    cbn [m_rows set_type r_a r_b r_eq r_ge r_le in_set] in *. unfold rhs_of.
    rewrite !lookup_insert_same. repeat split.
    + apply smem_sadd_same.
    + exact Hin.
    + discriminate.
  - eexists RG, RL, _, _. split; [reflexivity|]. split; [reflexivity|].
    cbn [m_rows set_type r_a r_b r_eq r_ge r_le in_set] in *. unfold rhs_of.
    rewrite !lookup_insert_same. repeat split.
    + apply smem_sadd_same.
    + exact Hin.
    + discriminate.
Qed.

(* ================================================================== *)
(* the id tag (convert.rs, parse_id_tag): only the canonical decimal rendering of a u64 after the
   prefix is a tag, so a name determines and IS determined by the number it carries *)
Lemma strip_prefix_sound p : forall s r, strip_prefix p s = Some r -> s = p +++ r.
Proof.
  induction p as [|a p IH]; intros s r H; cbn [strip_prefix] in H; [inversion H; reflexivity|].
  destruct s as [|b s]; [discriminate|]. destruct (Ascii.eqb a b) eqn:E; [|discriminate].
  apply Ascii.eqb_eq in E. subst b. change (String a p +++ r) with (String a (p +++ r)).
  f_equal. apply IH. exact H.
Qed.
Theorem parse_id_tag_canonical prefix x i : parse_id_tag prefix x = Some i -> x = prefix +++ print_N i.
Proof.
  unfold parse_id_tag. destruct (strip_prefix prefix x) as [r|] eqn:E; [|discriminate].
  apply strip_prefix_sound in E. destruct (read_u64 r) as [n|]; [|discriminate].
  destruct (String.eqb (print_N n) r) eqn:B; [|discriminate].
  intro H. inversion H; subst n. apply String.eqb_eq in B. subst r. exact E.
Qed.
Theorem parse_id_tag_inj prefix x y i :
  parse_id_tag prefix x = Some i -> parse_id_tag prefix y = Some i -> x = y.
Proof. intros Hx Hy. apply parse_id_tag_canonical in Hx, Hy. congruence. Qed.
