(* Arith.v — every Add / Sub / Mul / Neg / scalar impl of linear.rs, quadratic.rs,
   polynomial.rs, v1_ext/function.rs and the macro-generated mixed-operand impls,
   each modelled as what the Rust code does (which map it accumulates in, where it drops
   tiny coefficients, which conversions it goes through). *)
Require Import Ommx.Num Ommx.Poly Ommx.Msg.

Definition pair_eqb (a b : N * N) : bool := (fst a =? fst b)%N && (snd a =? snd b)%N.
Lemma pair_eqb_spec a b : pair_eqb a b = true <-> a = b.
Proof.
  destruct a as [a1 a2], b as [b1 b2]. unfold pair_eqb; cbn [fst snd].
  rewrite andb_true_iff, !N.eqb_eq. split; [intros [-> ->]; reflexivity|].
  intro E; inversion E; auto.
Qed.
Lemma Neqb_spec (a b : N) : (a =? b)%N = true <-> a = b.
Proof. apply N.eqb_eq. Qed.

(* value of a (row, column) key *)
Definition pkv (rho : valuation) (rc : N * N) : num := rho (fst rc) * rho (snd rc).

Definition norm_pair (rc : N * N) : N * N :=
  if (fst rc <? snd rc)%N then rc else (snd rc, fst rc).
Lemma pkv_norm rho rc : pkv rho (norm_pair rc) = pkv rho rc.
Proof.
  unfold norm_pair, pkv. destruct (fst rc <? snd rc)%N; cbn [fst snd]; ring.
Qed.

Section Ops.
  Variable tiny : num -> bool.

  (* ---------------- Linear ---------------- *)
  Definition lin_new (ts : list (N * num)) (c : num) : linear :=
    {| l_terms := merge N.eqb tiny ts; l_const := c |}.
  Definition lin_zero : linear := {| l_terms := []; l_const := 0 |}.
  Definition lin_of_c (c : num) : linear := {| l_terms := []; l_const := c |}.
  Definition lin_single (i : N) (c : num) : linear := {| l_terms := [(i, c)]; l_const := 0 |}.
  Definition lin_is_zero (l : linear) : bool :=
    match l_terms l with [] => qeqb (l_const l) 0 | _ => false end.
  (* impl Add for Linear *)
  Definition lin_add (a b : linear) : linear :=
    {| l_terms := merge N.eqb tiny (l_terms a ++ l_terms b); l_const := l_const a + l_const b |}.
  (* impl Add<f64> for Linear *)
  Definition lin_add_c (a : linear) (c : num) : linear :=
    {| l_terms := l_terms a; l_const := l_const a + c |}.
  (* impl Mul<f64> for Linear *)
  Definition lin_scale (a : linear) (k : num) : linear :=
    if qeqb k 0 then lin_zero
    else {| l_terms := map (fun ic => (fst ic, snd ic * k)) (l_terms a); l_const := l_const a * k |}.
  Definition lin_neg (a : linear) : linear := lin_scale a (- (1)).
  Definition lin_sub (a b : linear) : linear := lin_add a (lin_neg b).
  Definition lin_sub_c (a : linear) (c : num) : linear := lin_add_c a (- c).

  (* FromIterator<((u64,u64),f64)> for Quadratic: keys normalised to (min,max), accumulated
     without dropping, linear part None *)
  Definition quad_from_iter (l : tlist (N * N)) : quadratic :=
    let m := merge pair_eqb never (map (fun kc => (norm_pair (fst kc), snd kc)) l) in
    {| q_rows := map (fun kc => fst (fst kc)) m; q_cols := map (fun kc => snd (fst kc)) m;
       q_vals := map snd m; q_lin := None |}.

  (* impl Mul for Linear -> Quadratic *)
  Definition lin_mul (a b : linear) : quadratic :=
    let prods : tlist (N * N) :=
      flat_map (fun x => map (fun y => (norm_pair (fst x, fst y), snd x * snd y)) (l_terms b))
               (l_terms a) in
    let q := quad_from_iter (merge pair_eqb never prods) in
    let c := l_const a in
    let r := l_const b in
    {| q_rows := q_rows q; q_cols := q_cols q; q_vals := q_vals q;
       q_lin := Some (lin_sub_c (lin_add (lin_scale a r) (lin_scale b c)) (r * c)) |}.

  (* iterator of &Linear: terms then the constant, zero coefficients filtered out *)
  Definition lin_iter (l : linear) : terms :=
    filter (fun mc => negb (qeqb (snd mc) 0)) (lin_terms l).

  (* ---------------- Quadratic ---------------- *)
  Definition q_entries (q : quadratic) : tlist (N * N) := zip3 (q_rows q) (q_cols q) (q_vals q).
  (* quad_iter yields ((column, row), value) *)
  Definition q_entries_cr (q : quadratic) : tlist (N * N) := zip3 (q_cols q) (q_rows q) (q_vals q).
  Definition q_lengths_ok (q : quadratic) : bool :=
    (List.length (q_rows q) =? List.length (q_cols q))%nat &&
    (List.length (q_rows q) =? List.length (q_vals q))%nat.

  Definition quad_zero : quadratic :=
    {| q_rows := []; q_cols := []; q_vals := []; q_lin := Some lin_zero |}.
  Definition quad_of_c (c : num) : quadratic :=
    {| q_rows := []; q_cols := []; q_vals := []; q_lin := Some (lin_of_c c) |}.
  Definition quad_of_lin (l : linear) : quadratic :=
    {| q_rows := []; q_cols := []; q_vals := []; q_lin := Some l |}.
  Definition set_lin (q : quadratic) (o : option linear) : quadratic :=
    {| q_rows := q_rows q; q_cols := q_cols q; q_vals := q_vals q; q_lin := o |}.

  (* BTreeMap::from_iter on pairs: a later duplicate key overwrites *)
  Definition collect_overwrite (l : tlist (N * N)) : tlist (N * N) :=
    fold_left (fun m kc => upd pair_eqb (fst kc) (snd kc) m) l [].

  (* impl Add for Quadratic *)
  Definition quad_add (a b : quadratic) : quadratic :=
    let m := merge_from pair_eqb tiny (collect_overwrite (q_entries_cr a)) (q_entries_cr b) in
    let out := quad_from_iter m in
    set_lin out
      (match q_lin a, q_lin b with
       | Some l, Some r => let o := lin_add l r in if lin_is_zero o then None else Some o
       | Some l, None | None, Some l => Some l
       | None, None => None
       end).
  Definition quad_add_lin (q : quadratic) (l : linear) : quadratic :=
    set_lin q (match q_lin q with Some x => Some (lin_add x l) | None => Some l end).
  Definition quad_add_c (q : quadratic) (c : num) : quadratic :=
    set_lin q (match q_lin q with Some x => Some (lin_add_c x c) | None => Some (lin_of_c c) end).
  Definition quad_scale (q : quadratic) (k : num) : quadratic :=
    if qeqb k 0 then quad_zero
    else {| q_rows := q_rows q; q_cols := q_cols q; q_vals := map (fun v => v * k) (q_vals q);
            q_lin := match q_lin q with Some l => Some (lin_scale l k) | None => None end |}.
  Definition quad_neg (q : quadratic) := quad_scale q (- (1)).
  Definition quad_sub (a b : quadratic) := quad_add a (quad_neg b).
  Definition quad_sub_lin (a : quadratic) (l : linear) := quad_add_lin a (lin_neg l).
  Definition quad_sub_c (a : quadratic) (c : num) := quad_add_c a (- c).

  (* IntoIterator for &Quadratic: (SortedIds[col,row], value) then the linear iterator *)
  Definition quad_iter (q : quadratic) : terms :=
    map (fun kc => (sort_ids [snd (fst kc); fst (fst kc)], snd kc)) (q_entries q)
    ++ match q_lin q with Some l => lin_iter l | None => [] end.

  (* FromIterator<(SortedIds,f64)> for Polynomial: accumulate, drop tiny *)
  Definition poly_from_iter (t : terms) : polynomial := merge ids_eqb tiny t.

  (* all pairwise products keyed by the sorted concatenation, accumulated without dropping,
     then collected through Polynomial::from_iter *)
  Definition mul_iters (a b : terms) : polynomial :=
    poly_from_iter
      (merge ids_eqb never
         (flat_map (fun x => map (fun y => (sort_ids (fst y ++ fst x), snd x * snd y)) b) a)).
  Definition quad_mul (a b : quadratic) : polynomial := mul_iters (quad_iter a) (quad_iter b).

  (* ---------------- Polynomial ---------------- *)
  Definition poly_of_c (c : num) : polynomial := if qeqb c 0 then [] else [([], c)].
  Definition poly_of_lin (l : linear) : polynomial := poly_from_iter (lin_iter l).
  Definition poly_of_quad (q : quadratic) : polynomial := poly_from_iter (quad_iter q).
  (* impl Add for Polynomial: keyed by the ids vector as stored (not sorted) *)
  Definition poly_add (a b : polynomial) : polynomial := merge ids_eqb tiny (a ++ b).
  Definition poly_scale (p : polynomial) (k : num) : polynomial :=
    if qeqb k 0 then [] else map (fun mc => (fst mc, snd mc * k)) p.
  Definition poly_neg p := poly_scale p (- (1)).
  Definition poly_sub a b := poly_add a (poly_neg b).
  (* IntoIterator for &Polynomial sorts each ids vector *)
  Definition poly_iter (p : polynomial) : terms := sort_keys p.
  Definition poly_mul (a b : polynomial) : polynomial := mul_iters (poly_iter a) (poly_iter b).

  (* ---------------- Function (oneof dispatch; an unset oneof panics: None) ---------------- *)
  Definition fn_add (f g : function) : option function :=
    match f, g with
    | FUnset, _ | _, FUnset => None
    | FConst a, FConst b => Some (FConst (a + b))
    | FLin l, FConst c | FConst c, FLin l => Some (FLin (lin_add_c l c))
    | FLin a, FLin b => Some (FLin (lin_add a b))
    | FQuad q, FConst c | FConst c, FQuad q => Some (FQuad (quad_add_c q c))
    | FQuad q, FLin l | FLin l, FQuad q => Some (FQuad (quad_add_lin q l))
    | FQuad a, FQuad b => Some (FQuad (quad_add a b))
    | FPoly p, FConst c | FConst c, FPoly p => Some (FPoly (poly_add p (poly_of_c c)))
    | FPoly p, FLin l | FLin l, FPoly p => Some (FPoly (poly_add p (poly_of_lin l)))
    | FPoly p, FQuad q | FQuad q, FPoly p => Some (FPoly (poly_add p (poly_of_quad q)))
    | FPoly a, FPoly b => Some (FPoly (poly_add a b))
    end.
  Definition fn_mul (f g : function) : option function :=
    match f, g with
    | FUnset, _ | _, FUnset => None
    | FConst a, FConst b => Some (FConst (a * b))
    | FLin l, FConst c | FConst c, FLin l => Some (FLin (lin_scale l c))
    | FLin a, FLin b => Some (FQuad (lin_mul a b))
    | FQuad q, FConst c | FConst c, FQuad q => Some (FQuad (quad_scale q c))
    | FQuad q, FLin l | FLin l, FQuad q => Some (FPoly (quad_mul q (quad_of_lin l)))
    | FQuad a, FQuad b => Some (FPoly (quad_mul a b))
    | FPoly p, FConst c | FConst c, FPoly p => Some (FPoly (poly_scale p c))
    | FPoly p, FLin l | FLin l, FPoly p => Some (FPoly (poly_mul p (poly_of_lin l)))
    | FPoly p, FQuad q | FQuad q, FPoly p => Some (FPoly (poly_mul p (poly_of_quad q)))
    | FPoly a, FPoly b => Some (FPoly (poly_mul a b))
    end.
  Definition fn_neg (f : function) : option function := fn_mul f (FConst (- (1))).
  Definition fn_sub (f g : function) : option function :=
    match fn_neg g with Some g' => fn_add f g' | None => None end.

  (* ---------------- operands of the public operator table ---------------- *)
  Inductive operand :=
  | ONum (c : num) | OVar (i : N) | OParam (i : N)
  | OLin (l : linear) | OQuad (q : quadratic) | OPoly (p : polynomial) | OFn (f : function).

  (* &DecisionVariable and &Parameter act as Linear::from(id) *)
  Definition lift (x : operand) : operand :=
    match x with
    | OVar i | OParam i => OLin (lin_single i 1)
    | _ => x
    end.
  Definition is_ref (x : operand) : bool :=
    match x with OVar _ | OParam _ => true | _ => false end.
  Definition wrap (o : option function) : option operand :=
    match o with Some f => Some (OFn f) | None => None end.

  Definition op_add0 (x y : operand) : option operand :=
    match x, y with
    | ONum a, ONum b => Some (ONum (a + b))
    | OLin l, ONum c | ONum c, OLin l => Some (OLin (lin_add_c l c))
    | OLin a, OLin b => Some (OLin (lin_add a b))
    | OQuad q, ONum c | ONum c, OQuad q => Some (OQuad (quad_add_c q c))
    | OQuad q, OLin l | OLin l, OQuad q => Some (OQuad (quad_add_lin q l))
    | OQuad a, OQuad b => Some (OQuad (quad_add a b))
    | OPoly p, ONum c | ONum c, OPoly p => Some (OPoly (poly_add p (poly_of_c c)))
    | OPoly p, OLin l | OLin l, OPoly p => Some (OPoly (poly_add p (poly_of_lin l)))
    | OPoly p, OQuad q | OQuad q, OPoly p => Some (OPoly (poly_add p (poly_of_quad q)))
    | OPoly a, OPoly b => Some (OPoly (poly_add a b))
    | OFn f, OFn g => wrap (fn_add f g)
    | OFn f, ONum c | ONum c, OFn f => wrap (fn_add f (FConst c))
    | OFn f, OLin l | OLin l, OFn f => wrap (fn_add f (FLin l))
    | OFn f, OQuad q | OQuad q, OFn f => wrap (fn_add f (FQuad q))
    | OFn f, OPoly p | OPoly p, OFn f => wrap (fn_add f (FPoly p))
    | _, _ => None
    end.
  Definition op_add (x y : operand) : option operand := op_add0 (lift x) (lift y).

  Definition op_mul0 (x y : operand) : option operand :=
    match x, y with
    | ONum a, ONum b => Some (ONum (a * b))
    | OLin l, ONum c | ONum c, OLin l => Some (OLin (lin_scale l c))
    | OLin a, OLin b => Some (OQuad (lin_mul a b))
    | OQuad q, ONum c | ONum c, OQuad q => Some (OQuad (quad_scale q c))
    | OQuad q, OLin l | OLin l, OQuad q => Some (OPoly (quad_mul q (quad_of_lin l)))
    | OQuad a, OQuad b => Some (OPoly (quad_mul a b))
    | OPoly p, ONum c | ONum c, OPoly p => Some (OPoly (poly_scale p c))
    | OPoly p, OLin l | OLin l, OPoly p => Some (OPoly (poly_mul p (poly_of_lin l)))
    | OPoly p, OQuad q | OQuad q, OPoly p => Some (OPoly (poly_mul p (poly_of_quad q)))
    | OPoly a, OPoly b => Some (OPoly (poly_mul a b))
    | OFn f, OFn g => wrap (fn_mul f g)
    | OFn f, ONum c | ONum c, OFn f => wrap (fn_mul f (FConst c))
    | OFn f, OLin l | OLin l, OFn f => wrap (fn_mul f (FLin l))
    | OFn f, OQuad q | OQuad q, OFn f => wrap (fn_mul f (FQuad q))
    | OFn f, OPoly p | OPoly p, OFn f => wrap (fn_mul f (FPoly p))
    | _, _ => None
    end.
  Definition op_mul (x y : operand) : option operand := op_mul0 (lift x) (lift y).

  Definition op_neg (x : operand) : option operand :=
    match lift x with
    | ONum c => Some (ONum (- c))
    | OLin l => Some (OLin (lin_neg l))
    | OQuad q => Some (OQuad (quad_neg q))
    | OPoly p => Some (OPoly (poly_neg p))
    | OFn f => wrap (fn_neg f)
    | _ => None
    end.

  (* Sub exists only where impl_sub_by_neg_add! is instantiated:
     Linear-{f64,Linear}; Quadratic-{f64,Linear,Quadratic}; Polynomial-Polynomial;
     Function-{f64,Linear,Quadratic,Polynomial,Function}; f64-f64 natively *)
  Definition sub_defined (x y : operand) : bool :=
    match x, y with
    | ONum _, ONum _ => true
    | OLin _, (ONum _ | OLin _) => true
    | OQuad _, (ONum _ | OLin _ | OQuad _) => true
    | OPoly _, OPoly _ => true
    | OFn _, (ONum _ | OLin _ | OQuad _ | OPoly _ | OFn _) => true
    | _, _ => false
    end.
  Definition op_sub (x y : operand) : option operand :=
    if sub_defined x y then
      match op_neg y with Some y' => op_add0 x y' | None => None end
    else None.

  Definition op_terms (x : operand) : terms :=
    match x with
    | ONum c => [([], c)]
    | OVar i | OParam i => [([i], 1)]
    | OLin l => lin_terms l
    | OQuad q => quad_terms q
    | OPoly p => p
    | OFn f => fn_terms f
    end.
  Definition odenote (x : operand) (rho : valuation) : num := val rho (op_terms x).

End Ops.
