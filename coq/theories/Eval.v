(* Eval.v — Evaluate::evaluate and Evaluate::partial_evaluate for the four function
   representations (rust/ommx/src/evaluate.rs:25-255), loop by loop. *)
Require Import Ommx.Num Ommx.Poly Ommx.Msg.

(* ------------------------------------------------------------------ *)
(* evaluate.  Result: None = Err (a variable id is not in the state);
   Some (value, used ids).  used ids are accumulated as a list (BTreeSet in the code;
   the comparator looks at it as a set). *)

(* Linear: sum starts at the constant; `used_ids.insert(id)` happens before the lookup *)
Fixpoint lin_eval_loop (ts : list (N * num)) (s : state) (sum : num) (used : list N)
  : option (num * list N) :=
  match ts with
  | [] => Some (sum, used)
  | (i, c) :: ts' =>
      match sget s i with
      | None => None
      | Some x => lin_eval_loop ts' s (sum + c * x) (i :: used)
      end
  end.
Definition lin_eval (l : linear) (s : state) := lin_eval_loop (l_terms l) s (l_const l) [].

Fixpoint quad_eval_loop (z : list (N * N * num)) (s : state) (sum : num) (used : list N)
  : option (num * list N) :=
  match z with
  | [] => Some (sum, used)
  | (i, j, x) :: z' =>
      match sget s i, sget s j with
      | Some u, Some v => quad_eval_loop z' s (sum + x * u * v) (j :: i :: used)
      | _, _ => None
      end
  end.
Definition quad_eval (q : quadratic) (s : state) : option (num * list N) :=
  match (match q_lin q with Some l => lin_eval l s | None => Some (0, []) end) with
  | None => None
  | Some (sum, used) => quad_eval_loop (zip3 (q_rows q) (q_cols q) (q_vals q)) s sum used
  end.

(* one monomial: v = coefficient; for id in ids { used.insert(id); v *= state[id] } *)
Fixpoint mono_eval_loop (ids : list N) (s : state) (v : num) (used : list N)
  : option (num * list N) :=
  match ids with
  | [] => Some (v, used)
  | i :: ids' =>
      match sget s i with
      | None => None
      | Some x => mono_eval_loop ids' s (v * x) (i :: used)
      end
  end.
Fixpoint poly_eval_loop (p : polynomial) (s : state) (sum : num) (used : list N)
  : option (num * list N) :=
  match p with
  | [] => Some (sum, used)
  | (ids, c) :: p' =>
      match mono_eval_loop ids s c used with
      | None => None
      | Some (v, used') => poly_eval_loop p' s (sum + v) used'
      end
  end.
Definition poly_eval (p : polynomial) (s : state) := poly_eval_loop p s 0 [].

Definition fn_eval (f : function) (s : state) : option (num * list N) :=
  match f with
  | FUnset => Some (0, [])
  | FConst c => Some (c, [])
  | FLin l => lin_eval l s
  | FQuad q => quad_eval q s
  | FPoly p => poly_eval p s
  end.

(* ---- soundness of evaluate ---- *)
Lemma lin_eval_loop_sound rho s : agrees rho s -> forall ts sum used v ids,
  lin_eval_loop ts s sum used = Some (v, ids) ->
  v = sum + valg rho ts /\ (forall i, In i ids <-> In i used \/ In i (map fst ts)).
Proof.
  intros Ag. induction ts as [|[i c] ts IH]; intros sum used v ids H; cbn [lin_eval_loop] in H.
  - inversion H; subst. cbn [valg map In]. split; [ring|intuition].
  - destruct (sget s i) as [x|] eqn:G; [|discriminate].
    apply IH in H. destruct H as [-> Hids]. cbn [valg map fst In]. rewrite (Ag _ _ G).
    split; [ring|]. intro k. rewrite Hids. cbn [In]. intuition.
Qed.

Lemma quad_eval_loop_sound rho s : agrees rho s -> forall z sum used v ids,
  quad_eval_loop z s sum used = Some (v, ids) ->
  v = sum + val rho (quad2 z) /\
  (forall i, In i ids <-> In i used \/ occurs_terms (quad2 z) i).
Proof.
  intros Ag. induction z as [|[[i j] x] z IH]; intros sum used v ids H; cbn [quad_eval_loop] in H.
  - inversion H; subst. split; [cbn [quad2 map]; rewrite val_nil; ring|].
    intro k. split; [auto|]. intros [Hk|Hk]; [exact Hk|]. exfalso. eapply occurs_terms_nil; eauto.
  - destruct (sget s i) as [u|] eqn:Gi; [|discriminate].
    destruct (sget s j) as [w|] eqn:Gj; [|discriminate].
    apply IH in H. destruct H as [-> Hids].
    rewrite val_quad2_cons, (Ag _ _ Gi), (Ag _ _ Gj). split; [ring|].
    intro k. rewrite Hids. cbn [In].
    change (quad2 ((i, j, x) :: z)) with ([([i; j], x)] ++ quad2 z).
    rewrite occurs_terms_app.
    assert (E : occurs_terms [([i; j], x)] k <-> k = i \/ k = j).
    { split.
      - intros (m & c & [E|[]] & Hm). inversion E; subst. cbn [In] in Hm. intuition.
      - intros Hk. exists [i; j], x. split; [left; reflexivity|]. cbn [In]. intuition. }
    rewrite E. intuition.
Qed.

Lemma mono_eval_loop_sound rho s : agrees rho s -> forall ids v used w out,
  mono_eval_loop ids s v used = Some (w, out) ->
  w = v * mono_val rho ids /\ (forall i, In i out <-> In i used \/ In i ids).
Proof.
  intros Ag. induction ids as [|i ids IH]; intros v used w out H; cbn [mono_eval_loop] in H.
  - inversion H; subst. cbn [mono_val In]. split; [ring|intuition].
  - destruct (sget s i) as [x|] eqn:G; [|discriminate].
    apply IH in H. destruct H as [-> Hout]. cbn [mono_val]. rewrite (Ag _ _ G).
    split; [ring|]. intro k. rewrite Hout. cbn [In]. intuition.
Qed.

Lemma poly_eval_loop_sound rho s : agrees rho s -> forall p sum used v ids,
  poly_eval_loop p s sum used = Some (v, ids) ->
  v = sum + val rho p /\ (forall i, In i ids <-> In i used \/ occurs_terms p i).
Proof.
  intros Ag. induction p as [|[m c] p IH]; intros sum used v ids H; cbn [poly_eval_loop] in H.
  - inversion H; subst. rewrite val_nil. split; [ring|].
    intro k. split; [auto|]. intros [Hk|Hk]; [exact Hk|]. exfalso. eapply occurs_terms_nil; eauto.
  - destruct (mono_eval_loop m s c used) as [[w used']|] eqn:M; [|discriminate].
    apply (mono_eval_loop_sound rho s Ag) in M. destruct M as [-> Hu].
    apply IH in H. destruct H as [-> Hids]. rewrite val_cons. split; [ring|].
    intro k. rewrite Hids, Hu.
    change ((m, c) :: p) with ([(m, c)] ++ p). rewrite occurs_terms_app.
    assert (E : occurs_terms [(m, c)] k <-> In k m).
    { split.
      - intros (m' & c' & [E|[]] & Hm). inversion E; subst. exact Hm.
      - intro Hk. exists m, c. split; [left; reflexivity|exact Hk]. }
    rewrite E. intuition.
Qed.

Theorem fn_eval_sound f s v ids : fn_eval f s = Some (v, ids) ->
  (forall rho, agrees rho s -> v = denote f rho) /\ (forall i, In i ids <-> occurs f i).
Proof.
  unfold denote, occurs. destruct f as [|c|l|q|p]; cbn [fn_eval fn_terms]; intro H.
  - inversion H; subst. split; [intros; rewrite val_nil; reflexivity|].
    intro i. split; [intros []|intro Hk; exfalso; eapply occurs_terms_nil; eauto].
  - inversion H; subst. split; [intros; rewrite val_cons, val_nil; cbn [mono_val]; ring|].
    intro i. split; [intros []|intro Hk; exfalso; eapply occurs_terms_const; eauto].
  - split.
    + intros rho Ag. apply (lin_eval_loop_sound rho s Ag) in H. destruct H as [-> _].
      fold (lin_denote l rho). rewrite lin_denote_eq. ring.
    + intro i. apply (lin_eval_loop_sound (total s) s (total_agrees s)) in H.
      destruct H as [_ Hi]. rewrite Hi, occurs_lin_terms. cbn [In]. intuition.
  - unfold quad_eval in H.
    destruct (match q_lin q with Some l => lin_eval l s | None => Some (0, []) end)
      as [[sum used]|] eqn:L; [|discriminate].
    assert (HL : (forall rho, agrees rho s -> sum = val rho (optlin_terms (q_lin q))) /\
                 (forall i, In i used <-> occurs_terms (optlin_terms (q_lin q)) i)).
    { destruct (q_lin q) as [l|]; cbn [optlin_terms].
      - split.
        + intros rho Ag. apply (lin_eval_loop_sound rho s Ag) in L. destruct L as [-> _].
          fold (lin_denote l rho). rewrite lin_denote_eq. ring.
        + intro i. apply (lin_eval_loop_sound (total s) s (total_agrees s)) in L.
          destruct L as [_ Hi]. rewrite Hi, occurs_lin_terms. cbn [In]. intuition.
      - inversion L; subst. split; [intros; rewrite val_nil; reflexivity|].
        intro i. split; [intros []|intro Hk; exfalso; eapply occurs_terms_nil; eauto]. }
    destruct HL as [HLv HLi]. unfold quad_terms. split.
    + intros rho Ag. apply (quad_eval_loop_sound rho s Ag) in H. destruct H as [-> _].
      rewrite val_app, (HLv rho Ag). ring.
    + intro i. apply (quad_eval_loop_sound (total s) s (total_agrees s)) in H.
      destruct H as [_ Hi]. rewrite Hi, occurs_terms_app, HLi. intuition.
  - split.
    + intros rho Ag. apply (poly_eval_loop_sound rho s Ag) in H. destruct H as [-> _]. ring.
    + intro i. apply (poly_eval_loop_sound (total s) s (total_agrees s)) in H.
      destruct H as [_ Hi]. rewrite Hi. cbn [In]. intuition.
Qed.

(* ---- failure exactly when a variable that occurs has no value ---- *)
Definition covers (s : state) (f : function) : Prop := forall i, occurs f i -> sget s i <> None.

Lemma lin_eval_loop_total s : forall ts sum used,
  (forall i, In i (map fst ts) -> sget s i <> None) ->
  exists v ids, lin_eval_loop ts s sum used = Some (v, ids).
Proof.
  induction ts as [|[i c] ts IH]; intros sum used H; cbn [lin_eval_loop]; [eauto|].
  destruct (sget s i) as [x|] eqn:G.
  - apply IH. intros k Hk. apply H. right. exact Hk.
  - exfalso. apply (H i); [left; reflexivity|exact G].
Qed.
Lemma lin_eval_loop_missing s : forall ts sum used i,
  In i (map fst ts) -> sget s i = None -> lin_eval_loop ts s sum used = None.
Proof.
  induction ts as [|[j c] ts IH]; intros sum used i Hin G; cbn [lin_eval_loop]; [destruct Hin|].
  destruct (sget s j) as [x|] eqn:Gj; [|reflexivity].
  destruct Hin as [E|Hin]; [cbn [fst] in E; subst j; congruence|]. eapply IH; eauto.
Qed.

Lemma quad_eval_loop_total s : forall z sum used,
  (forall i, occurs_terms (quad2 z) i -> sget s i <> None) ->
  exists v ids, quad_eval_loop z s sum used = Some (v, ids).
Proof.
  induction z as [|[[i j] x] z IH]; intros sum used H; cbn [quad_eval_loop]; [eauto|].
  assert (Hi : sget s i <> None).
  { apply H. exists [i; j], x. split; [left; reflexivity|left; reflexivity]. }
  assert (Hj : sget s j <> None).
  { apply H. exists [i; j], x. split; [left; reflexivity|right; left; reflexivity]. }
  destruct (sget s i); [|congruence]. destruct (sget s j); [|congruence].
  apply IH. intros k (m & c & Hin & Hm). apply H. exists m, c. split; [right; exact Hin|exact Hm].
Qed.
Lemma quad_eval_loop_missing s : forall z sum used i,
  occurs_terms (quad2 z) i -> sget s i = None -> quad_eval_loop z s sum used = None.
Proof.
  induction z as [|[[a b] x] z IH]; intros sum used i Ho G; cbn [quad_eval_loop].
  - exfalso. eapply occurs_terms_nil; eauto.
  - destruct (sget s a) as [u|] eqn:Ga; [|reflexivity].
    destruct (sget s b) as [w|] eqn:Gb; [|reflexivity].
    destruct Ho as (m & c & [E|Hin] & Hm).
    + inversion E; subst. cbn [In] in Hm. destruct Hm as [<-|[<-|[]]]; congruence.
    + eapply IH; [|exact G]. exists m, c. split; assumption.
Qed.

Lemma mono_eval_loop_total s : forall ids v used,
  (forall i, In i ids -> sget s i <> None) -> exists w out, mono_eval_loop ids s v used = Some (w, out).
Proof.
  induction ids as [|i ids IH]; intros v used H; cbn [mono_eval_loop]; [eauto|].
  destruct (sget s i) as [x|] eqn:G.
  - apply IH. intros k Hk. apply H. right. exact Hk.
  - exfalso. apply (H i); [left; reflexivity|exact G].
Qed.
Lemma mono_eval_loop_missing s : forall ids v used i,
  In i ids -> sget s i = None -> mono_eval_loop ids s v used = None.
Proof.
  induction ids as [|j ids IH]; intros v used i Hin G; cbn [mono_eval_loop]; [destruct Hin|].
  destruct (sget s j) as [x|] eqn:Gj; [|reflexivity].
  destruct Hin as [E|Hin]; [subst j; congruence|]. eapply IH; eauto.
Qed.

Lemma poly_eval_loop_total s : forall p sum used,
  (forall i, occurs_terms p i -> sget s i <> None) ->
  exists v ids, poly_eval_loop p s sum used = Some (v, ids).
Proof.
  induction p as [|[m c] p IH]; intros sum used H; cbn [poly_eval_loop]; [eauto|].
  destruct (mono_eval_loop_total s m c used) as (w & out & E).
  { intros i Hi. apply H. exists m, c. split; [left; reflexivity|exact Hi]. }
  rewrite E. apply IH. intros k (m' & c' & Hin & Hm). apply H. exists m', c'. split; [right; exact Hin|exact Hm].
Qed.
Lemma poly_eval_loop_missing s : forall p sum used i,
  occurs_terms p i -> sget s i = None -> poly_eval_loop p s sum used = None.
Proof.
  induction p as [|[m c] p IH]; intros sum used i Ho G; cbn [poly_eval_loop].
  - exfalso. eapply occurs_terms_nil; eauto.
  - destruct Ho as (m' & c' & [E|Hin] & Hm).
    + inversion E; subst. rewrite (mono_eval_loop_missing s m' c' used i Hm G). reflexivity.
    + destruct (mono_eval_loop m s c used) as [[w out]|]; [|reflexivity].
      eapply IH; [|exact G]. exists m', c'. split; assumption.
Qed.

Theorem fn_eval_total f s : covers s f -> exists v ids, fn_eval f s = Some (v, ids).
Proof.
  unfold covers, occurs. destruct f as [|c|l|q|p]; cbn [fn_eval fn_terms]; intro H; eauto.
  - apply lin_eval_loop_total. intros i Hi. apply H. apply occurs_lin_terms. exact Hi.
  - unfold quad_eval, quad_terms in *.
    assert (L : exists sum used,
      (match q_lin q with Some l => lin_eval l s | None => Some (0, []) end) = Some (sum, used)).
    { destruct (q_lin q) as [l|] eqn:E; [|eauto].
      apply lin_eval_loop_total. intros i Hi. apply H. apply occurs_terms_app. right.
      cbn [optlin_terms]. apply occurs_lin_terms. exact Hi. }
    destruct L as (sum & used & ->). apply quad_eval_loop_total.
    intros i Hi. apply H. apply occurs_terms_app. left. exact Hi.
  - apply poly_eval_loop_total. exact H.
Qed.

Theorem fn_eval_missing f s i : occurs f i -> sget s i = None -> fn_eval f s = None.
Proof.
  unfold occurs. destruct f as [|c|l|q|p]; cbn [fn_eval fn_terms]; intros Ho G.
  - exfalso. eapply occurs_terms_nil; eauto.
  - exfalso. eapply occurs_terms_const; eauto.
  - apply occurs_lin_terms in Ho. eapply lin_eval_loop_missing; eauto.
  - unfold quad_eval. unfold quad_terms in Ho. apply occurs_terms_app in Ho.
    destruct Ho as [Ho|Ho].
    + destruct (match q_lin q with Some l => lin_eval l s | None => Some (0, []) end)
        as [[sum used]|]; [|reflexivity].
      eapply quad_eval_loop_missing; eauto.
    + destruct (q_lin q) as [l|]; cbn [optlin_terms] in Ho.
      * apply occurs_lin_terms in Ho. unfold lin_eval.
        rewrite (lin_eval_loop_missing s _ _ _ i Ho G). reflexivity.
      * exfalso. eapply occurs_terms_nil; eauto.
  - eapply poly_eval_loop_missing; eauto.
Qed.

(* all wire-legal renderings of one polynomial evaluate alike *)
Theorem fn_eval_representation f g s v w ids ids' :
  poly_eqb (fn_terms f) (fn_terms g) = true ->
  fn_eval f s = Some (v, ids) -> fn_eval g s = Some (w, ids') -> v = w.
Proof.
  intros E Hf Hg.
  apply fn_eval_sound in Hf. apply fn_eval_sound in Hg.
  destruct Hf as [Hf _]. destruct Hg as [Hg _].
  rewrite (Hf (total s) (total_agrees s)), (Hg (total s) (total_agrees s)).
  unfold denote. apply poly_eqb_sound. exact E.
Qed.
