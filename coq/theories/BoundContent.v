Require Import Ommx.Num Ommx.Poly Ommx.Msg Ommx.Bound.
From Coq Require Import Qreduction Znumtheory.
Local Open Scope Qc_scope.  (* Znumtheory opens Z_scope *)

(* BoundContent.v — the content factor [content_of] (lcm of the denominators over the gcd
   of the numerators) is positive, makes every coefficient integral, is 1 on the zero
   function, and divides (hence is below) every positive multiplier that makes all
   coefficients integral.  All statements are for arbitrary coefficient lists. *)

Definition is_int (q : num) : Prop := exists z : Z, q = qz z.

(* ---- qz : Z -> Qc is an ordered ring embedding ---- *)
Lemma qz_mul (a b : Z) : qz (a * b)%Z = qz a * qz b.
Proof. qc2q. rewrite !this_qz. rewrite inject_Z_mult. reflexivity. Qed.

Lemma qz_inj (a b : Z) : qz a = qz b -> a = b.
Proof.
  intro H. qc2q. rewrite !this_qz in Hq.
  unfold Qeq, inject_Z in Hq; cbn [Qnum Qden] in Hq. lia.
Qed.

Lemma qz_lt (a b : Z) : (a < b)%Z -> qz a < qz b.
Proof. intro H. unfold Qclt. rewrite !this_qz. rewrite <- Zlt_Qlt. exact H. Qed.

Lemma qz_le (a b : Z) : (a <= b)%Z -> qz a <= qz b.
Proof. intro H. unfold Qcle. rewrite !this_qz. rewrite <- Zle_Qle. exact H. Qed.

Lemma qz_0 : qz 0 = 0. Proof. apply Qc_is_canon; reflexivity. Qed.
Lemma qz_1 : qz 1 = 1. Proof. apply Qc_is_canon; reflexivity. Qed.

Lemma qz_neq0 (a : Z) : a <> 0%Z -> qz a <> 0.
Proof. intros H E. rewrite <- qz_0 in E. apply qz_inj in E. contradiction. Qed.

(* ---- every Qc is its numerator over its (positive) denominator, in lowest terms ---- *)
Lemma cden_pos c : (0 < cden c)%Z.
Proof. unfold cden. lia. Qed.

Lemma c_frac c : c * qz (cden c) = qz (cnum c).
Proof.
  qc2q. rewrite !this_qz. unfold cnum, cden.
  destruct (this c) as [n d]. unfold Qeq, Qmult, inject_Z; cbn [Qnum Qden]. lia.
Qed.

Lemma c_coprime c : Z.gcd (cnum c) (cden c) = 1%Z.
Proof. unfold cnum, cden. apply Qred_identity2. apply canon. Qed.

Lemma cnum_0_iff c : cnum c = 0%Z <-> c = 0.
Proof.
  split.
  - intro H. apply Qc_is_canon. unfold cnum in H.
    unfold Qeq. rewrite H. reflexivity.
  - intros ->. reflexivity.
Qed.

Lemma cnum_pos c : 0 < c -> (0 < cnum c)%Z.
Proof.
  unfold Qclt, Qlt, cnum. change (this 0) with 0%Q. cbn [Qnum Qden]. lia.
Qed.

(* ---- the two folds ---- *)
Lemma gcd_fold_nonneg cs : forall g, (0 <= g)%Z ->
  (0 <= fold_left (fun g c => Z.gcd g (cnum c)) cs g)%Z.
Proof.
  induction cs as [|a cs IH]; intros g Hg; cbn [fold_left]; [exact Hg|].
  apply IH. apply Z.gcd_nonneg.
Qed.

Lemma gcd_fold_divide cs : forall g,
  (fold_left (fun g c => Z.gcd g (cnum c)) cs g | g)%Z /\
  (forall c, In c cs -> (fold_left (fun g c => Z.gcd g (cnum c)) cs g | cnum c)%Z).
Proof.
  induction cs as [|a cs IH]; intros g; cbn [fold_left].
  - split; [apply Z.divide_refl|]. intros c [].
  - destruct (IH (Z.gcd g (cnum a))) as [H1 H2]. split.
    + eapply Z.divide_trans; [exact H1|apply Z.gcd_divide_l].
    + intros c [<-|Hc].
      * eapply Z.divide_trans; [exact H1|apply Z.gcd_divide_r].
      * apply H2. exact Hc.
Qed.

Lemma gcd_fold_greatest cs : forall g m, (m | g)%Z ->
  (forall c, In c cs -> (m | cnum c)%Z) ->
  (m | fold_left (fun g c => Z.gcd g (cnum c)) cs g)%Z.
Proof.
  induction cs as [|a cs IH]; intros g m Hg H; cbn [fold_left]; [exact Hg|].
  apply IH.
  - apply Z.gcd_greatest; [exact Hg|]. apply H. left; reflexivity.
  - intros c Hc. apply H. right; exact Hc.
Qed.

Lemma lcm_fold_pos cs : forall g, (0 < g)%Z ->
  (0 < fold_left (fun d c => Z.lcm d (cden c)) cs g)%Z.
Proof.
  induction cs as [|a cs IH]; intros g Hg; cbn [fold_left]; [exact Hg|].
  apply IH.
  pose proof (Z.lcm_nonneg g (cden a)) as Hn.
  pose proof (Z.lcm_eq_0 g (cden a)) as [Hz _].
  pose proof (cden_pos a).
  assert (Z.lcm g (cden a) <> 0)%Z by (intro E; apply Hz in E; lia).
  lia.
Qed.

Lemma lcm_fold_divide cs : forall g,
  (g | fold_left (fun d c => Z.lcm d (cden c)) cs g)%Z /\
  (forall c, In c cs -> (cden c | fold_left (fun d c => Z.lcm d (cden c)) cs g)%Z).
Proof.
  induction cs as [|a cs IH]; intros g; cbn [fold_left].
  - split; [apply Z.divide_refl|]. intros c [].
  - destruct (IH (Z.lcm g (cden a))) as [H1 H2]. split.
    + eapply Z.divide_trans; [apply Z.divide_lcm_l|exact H1].
    + intros c [<-|Hc].
      * eapply Z.divide_trans; [apply Z.divide_lcm_r|exact H1].
      * apply H2. exact Hc.
Qed.

Lemma lcm_fold_least cs : forall g m, (g | m)%Z ->
  (forall c, In c cs -> (cden c | m)%Z) ->
  (fold_left (fun d c => Z.lcm d (cden c)) cs g | m)%Z.
Proof.
  induction cs as [|a cs IH]; intros g m Hg H; cbn [fold_left]; [exact Hg|].
  apply IH.
  - apply Z.lcm_least; [exact Hg|]. apply H. left; reflexivity.
  - intros c Hc. apply H. right; exact Hc.
Qed.

(* packaged facts about G = numer_gcd and D = denom_lcm *)
Lemma numer_gcd_nonneg cs : (0 <= numer_gcd cs)%Z.
Proof. apply gcd_fold_nonneg. lia. Qed.

Lemma numer_gcd_divide cs c : In c cs -> (numer_gcd cs | cnum c)%Z.
Proof. apply (gcd_fold_divide cs 0%Z). Qed.

Lemma numer_gcd_greatest cs m :
  (forall c, In c cs -> (m | cnum c)%Z) -> (m | numer_gcd cs)%Z.
Proof. intro H. apply gcd_fold_greatest; [apply Z.divide_0_r|exact H]. Qed.

Lemma numer_gcd_zero cs : (forall c, In c cs -> c = 0) -> numer_gcd cs = 0%Z.
Proof.
  intro H. apply Z.divide_0_l. apply numer_gcd_greatest.
  intros c Hc. rewrite (H c Hc). apply Z.divide_refl.
Qed.

Lemma numer_gcd_pos cs : (exists c, In c cs /\ c <> 0) -> (0 < numer_gcd cs)%Z.
Proof.
  intros [c [Hc Hne]].
  pose proof (numer_gcd_nonneg cs) as Hn.
  assert (numer_gcd cs <> 0)%Z; [|lia].
  intro E. pose proof (numer_gcd_divide cs c Hc) as Hd. rewrite E in Hd.
  apply Z.divide_0_l in Hd. apply cnum_0_iff in Hd. contradiction.
Qed.

Lemma denom_lcm_pos cs : (0 < denom_lcm cs)%Z.
Proof. apply lcm_fold_pos. lia. Qed.

Lemma denom_lcm_divide cs c : In c cs -> (cden c | denom_lcm cs)%Z.
Proof. apply (lcm_fold_divide cs 1%Z). Qed.

Lemma denom_lcm_least cs m :
  (forall c, In c cs -> (cden c | m)%Z) -> (denom_lcm cs | m)%Z.
Proof. intro H. apply lcm_fold_least; [apply Z.divide_1_l|exact H]. Qed.

(* ---- the theorems ---- *)
Lemma div_pos_qz D G : (0 < D)%Z -> (0 < G)%Z -> 0 < qz D / qz G.
Proof.
  intros HD HG.
  assert (E : qz D / qz G * qz G = qz D).
  { field. apply qz_neq0. lia. }
  apply qz_lt in HD, HG. rewrite qz_0 in HD, HG.
  revert E HD HG. generalize (qz D / qz G), (qz D), (qz G). intros k d g E HD HG.
  qc2q. nra.
Qed.

Theorem content_of_pos : forall cs, 0 < content_of cs.
Proof.
  intro cs. unfold content_of.
  destruct (numer_gcd cs =? 0)%Z eqn:E.
  - reflexivity.
  - apply Z.eqb_neq in E. pose proof (numer_gcd_nonneg cs).
    apply div_pos_qz; [apply denom_lcm_pos|lia].
Qed.

Theorem content_of_integral : forall cs c, In c cs -> is_int (content_of cs * c).
Proof.
  intros cs c Hc. unfold content_of.
  destruct (numer_gcd cs =? 0)%Z eqn:E.
  - apply Z.eqb_eq in E.
    pose proof (numer_gcd_divide cs c Hc) as Hd. rewrite E in Hd.
    apply Z.divide_0_l in Hd. apply cnum_0_iff in Hd. subst c.
    exists 0%Z. rewrite qz_0. ring.
  - apply Z.eqb_neq in E.
    destruct (numer_gcd_divide cs c Hc) as [v Hv].
    destruct (denom_lcm_divide cs c Hc) as [u Hu].
    pose proof (cden_pos c) as Hd.
    pose proof (c_frac c) as Hf.
    exists (u * v)%Z.
    rewrite Hu. rewrite Hv in Hf.
    assert (Hg : qz (numer_gcd cs) <> 0) by (apply qz_neq0; exact E).
    assert (Hd' : qz (cden c) <> 0) by (apply qz_neq0; lia).
    rewrite !qz_mul in *.
    revert Hf Hg Hd'.
    generalize (qz (numer_gcd cs)), (qz (cden c)), (qz u), (qz v).
    intros g d qu qv Hf Hg Hd'.
    (* c = qv * g / d *)
    assert (Ec : c = qv * g / d).
    { rewrite <- Hf. field. exact Hd'. }
    rewrite Ec. field. split; assumption.
Qed.

Theorem content_of_zero : forall cs, (forall c, In c cs -> c = 0) -> content_of cs = 1.
Proof.
  intros cs H. unfold content_of. rewrite (numer_gcd_zero cs H). reflexivity.
Qed.

(* a' * c integral, both in lowest terms: den c | num a' and den a' | num c *)
Lemma int_mul_divides a' c :
  is_int (a' * c) -> (cden c | cnum a')%Z /\ (cden a' | cnum c)%Z.
Proof.
  intros [z Hz].
  assert (E : (cnum a' * cnum c = z * cden a' * cden c)%Z).
  { apply qz_inj. rewrite !qz_mul. rewrite <- (c_frac a'), <- (c_frac c), <- Hz. ring. }
  split.
  - apply (Z.gauss _ (cnum c)).
    + exists (z * cden a')%Z. lia.
    + rewrite Z.gcd_comm. apply c_coprime.
  - apply (Z.gauss _ (cnum a')).
    + exists (z * cden c)%Z. lia.
    + rewrite Z.gcd_comm. apply c_coprime.
Qed.

(* minimality: the content factor divides every positive rational multiplier that makes
   all coefficients integral *)
Theorem content_of_minimal : forall cs a',
  (exists c, In c cs /\ c <> 0) -> 0 < a' -> (forall c, In c cs -> is_int (a' * c)) ->
  exists k : Z, (0 < k)%Z /\ a' = qz k * content_of cs.
Proof.
  intros cs a' Hex Hpos Hint.
  pose proof (numer_gcd_pos cs Hex) as HG.
  pose proof (denom_lcm_pos cs) as HD.
  pose proof (cnum_pos a' Hpos) as Hp.
  pose proof (cden_pos a') as Hq.
  assert (H1 : (denom_lcm cs | cnum a')%Z).
  { apply denom_lcm_least. intros c Hc. apply (int_mul_divides a' c (Hint c Hc)). }
  assert (H2 : (cden a' | numer_gcd cs)%Z).
  { apply numer_gcd_greatest. intros c Hc. apply (int_mul_divides a' c (Hint c Hc)). }
  destruct H1 as [s Hs]. destruct H2 as [t Ht].
  assert (Hs0 : (0 < s)%Z) by (apply (Z.mul_pos_cancel_r _ _ HD); rewrite <- Hs; exact Hp).
  assert (Ht0 : (0 < t)%Z) by (apply (Z.mul_pos_cancel_r _ _ Hq); rewrite <- Ht; exact HG).
  exists (s * t)%Z. split; [apply Z.mul_pos_pos; assumption|].
  unfold content_of.
  replace (numer_gcd cs =? 0)%Z with false by (symmetry; apply Z.eqb_neq; lia).
  pose proof (c_frac a') as Hf. rewrite Hs in Hf. rewrite Ht.
  assert (Hq' : qz (cden a') <> 0) by (apply qz_neq0; lia).
  assert (Ht' : qz t <> 0) by (apply qz_neq0; lia).
  rewrite !qz_mul in *.
  revert Hf Hq' Ht'.
  generalize (qz (cden a')), (qz (denom_lcm cs)), (qz s), (qz t).
  intros q d qs qt Hf Hq' Ht'.
  assert (Ea : a' = qs * d / q).
  { rewrite <- Hf. field. exact Hq'. }
  rewrite Ea. field. split; assumption.
Qed.

Corollary content_of_least : forall cs a',
  (exists c, In c cs /\ c <> 0) -> 0 < a' -> (forall c, In c cs -> is_int (a' * c)) ->
  content_of cs <= a'.
Proof.
  intros cs a' Hex Hpos Hint.
  destruct (content_of_minimal cs a' Hex Hpos Hint) as [k [Hk ->]].
  pose proof (content_of_pos cs) as HK.
  assert (H1 : 1 <= qz k) by (rewrite <- qz_1; apply qz_le; lia).
  revert HK H1. generalize (content_of cs), (qz k). intros K qk HK H1.
  qc2q. nra.
Qed.

Print Assumptions content_of_minimal.
