(* C03 — partial evaluation commutes with evaluation.  Property theorems only.
   [tiny] is the SDK's coefficient-dropping test; exactness is stated for tests that drop only
   exact zeros (see C02 for the residual form of the underlying merge). *)
Require Import Ommx.Num Ommx.Poly Ommx.Msg Ommx.Eval Ommx.Arith Ommx.PEval Ommx.PEvalProofs
        Ommx.Inst Ommx.PEvalInst Ommx.PEvalInstProofs Ommx.Subst Ommx.SubstProofs Ommx.PEvalInstState Ommx.ResidualOps Ommx.PEvalIds.

(* the partially evaluated function denotes the original at every valuation that agrees with
   the fixed part: parts that do not involve fixed variables keep their meaning *)
Theorem C03_fn : forall tiny, tiny_exact tiny -> forall rho s, agrees rho s ->
  forall f f' u, fn_pe tiny f s = Some (f', u) -> denote f' rho = denote f rho.
Proof. exact fn_pe_sound. Qed.
Print Assumptions C03_fn.

(* with the SDK's own dropping test (and any other): what the partially evaluated function lacks
   is an explicit residual of at most |f| terms whose coefficients all passed the test; on the unit
   box the difference is at most |f| * eps *)
Theorem C03_fn_residual : forall (tiny : num -> bool) (f f' : function) (s : state) (u : list N),
  fn_pe tiny f s = Some (f', u) ->
  let d := fn_pe_resid tiny f s in
  all_pass tiny d /\ (List.length d <= nterms f)%nat /\
  forall rho, agrees rho s -> denote f' rho + val rho d = denote f rho.
Proof. exact fn_pe_residual. Qed.
Print Assumptions C03_fn_residual.
Theorem C03_fn_eps_bound : forall (f f' : function) (s : state) (u : list N) rho,
  fn_pe tiny_eps f s = Some (f', u) -> agrees rho s -> unit_box rho ->
  qabs (denote f' rho - denote f rho) <= qn (nterms f) * eps.
Proof. exact fn_pe_eps_bound_unit. Qed.
Print Assumptions C03_fn_eps_bound.

(* fixing s1 and then evaluating the remainder at s2 = evaluating the original at s1 u s2 *)
Theorem C03_then_eval : forall tiny, tiny_exact tiny -> forall f s1 s2 f' u v ids w ids',
  sdisjoint s1 s2 ->
  fn_pe tiny f s1 = Some (f', u) -> fn_eval f' s2 = Some (v, ids) ->
  fn_eval f (s1 ++ s2) = Some (w, ids') -> v = w.
Proof. exact pe_then_eval. Qed.
Print Assumptions C03_then_eval.

(* fixing in two steps is equivalent to fixing at once *)
Theorem C03_two_steps : forall tiny, tiny_exact tiny -> forall f s1 s2 f1 u1 f2 u2 f12 u12,
  fn_pe tiny f s1 = Some (f1, u1) -> fn_pe tiny f1 s2 = Some (f2, u2) ->
  fn_pe tiny f (s1 ++ s2) = Some (f12, u12) ->
  forall rho, agrees rho s1 -> agrees rho s2 -> denote f2 rho = denote f12 rho.
Proof. exact pe_two_steps. Qed.
Print Assumptions C03_two_steps.

(* "no fixed variable remains; the returned ids are fixed variables that occurred", for every
   variant and an arbitrary dropping test: ids of the result occur in the original and are not
   fixed; returned ids occur and are fixed; the returned set is EXACTLY the fixed ids that occur in
   a term that is read (all terms for Linear / Quadratic; for Polynomial the Rust code skips a term
   whose coefficient is tiny before looking at its ids: [occurs_live]) *)
Theorem C03_fn_ids : forall tiny s f f' u, fn_pe tiny f s = Some (f', u) ->
  (forall i, occurs f' i -> occurs f i /\ ~ PEval.fixed s i) /\
  (forall i, In i u -> occurs f i /\ PEval.fixed s i) /\
  (forall i, In i u <-> occurs_live tiny f i /\ PEval.fixed s i) /\
  (forall i, occurs f' i -> occurs_live tiny f i).
Proof. exact fn_pe_ids. Qed.
Print Assumptions C03_fn_ids.
Theorem C03_fn_no_fixed : forall tiny s f f' u i,
  fn_pe tiny f s = Some (f', u) -> PEval.fixed s i -> ~ occurs f' i.
Proof. exact fn_pe_no_fixed. Qed.
Print Assumptions C03_fn_no_fixed.


(* instance level: fixing s1 in an instance (objective, active and removed constraints, dependency
   functions) and evaluating the result at s2 gives the same objective, the same per-constraint
   records (id, equality kind, value, metadata, removal reason; in the same order) and the same two
   feasibility flags as evaluating the original instance at s1 u s2 (the values recorded for the
   decision variables: C03_instance_state below) *)
Theorem C03_instance : forall tiny, tiny_exact tiny -> forall s1 s2, sdisjoint s1 s2 ->
  forall I J u m1 m2, inst_pe tiny I s1 = Some (J, u) ->
  inst_eval J s2 = Some m1 -> inst_eval I (s1 ++ s2) = Some m2 ->
  so_objective m1 = so_objective m2 /\
  Forall2 same_evaluated (so_evaluated m1) (so_evaluated m2) /\
  so_feasible_relaxed m1 = so_feasible_relaxed m2 /\ so_feasible m1 = so_feasible m2.
Proof. exact inst_pe_commutes. Qed.
Print Assumptions C03_instance.

(* ... and the same value for every variable id: the fixed variables through their substituted
   values, the dependent variables through the partially evaluated dependency functions (whatever
   order either dependency pass takes), the remaining ones from s2 or by the nearest-to-zero rule.
   Hypotheses: the fixed ids are defined variables without an earlier substituted value; dependent
   variables are distinct and have no value in the state. *)
Theorem C03_instance_state : forall tiny, tiny_exact tiny -> forall s1 s2 I,
  (forall i x, sget s1 i = Some x ->
     (exists v, In v (i_dvs I) /\ dv_id v = i) /\ (forall v, In v (i_dvs I) -> dv_id v = i -> dv_subst v = None)) ->
  forall J u m1 m2, NoDup (dkeys (i_deps I)) ->
  (forall d, In d (dkeys (i_deps I)) -> sget (insert_subst (i_dvs I) (s1 ++ s2)) d = None) ->
  inst_pe tiny I s1 = Some (J, u) ->
  inst_eval J s2 = Some m1 -> inst_eval I (s1 ++ s2) = Some m2 ->
  forall i, sget (so_state m1) i = sget (so_state m2) i.
Proof. exact inst_pe_state. Qed.
Print Assumptions C03_instance_state.


(* non-vacuity of the instance-level statements: x3 := x1 + x2 is a dependent variable,
   objective x1*x2 + x2, constraint x1 + x2 - 4 <= 0; fixing x1 = 2 and evaluating at x2 = 3 *)
Definition ex_dv (i : N) : dvar :=
  {| dv_id := i; dv_kind := KIND_CONTINUOUS; dv_bound := None; dv_subst := None; dv_meta := [] |}.
Definition ex_inst : instance :=
  {| i_sense := SENSE_MIN;
     i_obj := Some (FPoly [([1; 2]%N, 1); ([2]%N, 1)]);
     i_dvs := [ex_dv 1; ex_dv 2; ex_dv 3];
     i_cs := [{| c_id := 7; c_eq := LE_ZERO;
                 c_fn := Some (FLin {| l_terms := [(1%N, 1); (2%N, 1)]; l_const := qz (-4) |}); c_meta := [] |}];
     i_rs := []; i_deps := [(3%N, FLin {| l_terms := [(1%N, 1); (2%N, 1)]; l_const := 0 |})];
     i_params := None; i_hints := Tree.L []; i_desc := Tree.L [] |}.
Example C03_instance_nonvacuous :
  exists J u m1 m2, inst_pe tiny_0 ex_inst [(1%N, qz 2)] = Some (J, u) /\
    inst_eval J [(2%N, qz 3)] = Some m1 /\ inst_eval ex_inst ([(1%N, qz 2)] ++ [(2%N, qz 3)]) = Some m2 /\
    so_objective m1 = qz 9 /\ so_objective m2 = qz 9 /\ sget (so_state m1) 3 = Some (qz 5) /\
    sget (so_state m1) 1 = Some (qz 2) /\ so_feasible m1 = false /\
    NoDup (dkeys (i_deps ex_inst)) /\
    (forall d, In d (dkeys (i_deps ex_inst)) -> sget (insert_subst (i_dvs ex_inst) ([(1%N, qz 2)] ++ [(2%N, qz 3)])) d = None).
Proof.
  eexists; eexists; eexists; eexists.
  split; [vm_compute; reflexivity|]. split; [vm_compute; reflexivity|]. split; [vm_compute; reflexivity|].
  split; [vm_compute; reflexivity|]. split; [vm_compute; reflexivity|]. split; [vm_compute; reflexivity|].
  split; [vm_compute; reflexivity|]. split; [vm_compute; reflexivity|].
  split; [repeat constructor; intros []|].
  intros d [<-|[]]. vm_compute. reflexivity.
Qed.

Example C03_nonvacuous :
  let q := FQuad {| q_rows := [1; 2]%N; q_cols := [2; 2]%N; q_vals := [qz 3; 1]; q_lin := None |} in
  let rho := fun i : N => if (i =? 2)%N then qz 2 else qz 5 in
  exists f' u, fn_pe tiny_eps q [(2%N, qz 2)] = Some (f', u) /\ List.length u = 3%nat /\
               denote f' rho = qz 34 /\ denote q rho = qz 34.
Proof. eexists; eexists. vm_compute. repeat split. Qed.
