(* C03 — partial evaluation commutes with evaluation.  Property theorems only.
   [tiny] is the SDK's coefficient-dropping test; exactness is stated for tests that drop only
   exact zeros (see C02 for the residual form of the underlying merge). *)
Require Import Ommx.Num Ommx.Poly Ommx.Msg Ommx.Eval Ommx.Arith Ommx.PEval Ommx.PEvalProofs.

(* the partially evaluated function denotes the original at every valuation that agrees with
   the fixed part: parts that do not involve fixed variables keep their meaning *)
Theorem C03_fn : forall tiny, tiny_exact tiny -> forall rho s, agrees rho s ->
  forall f f' u, fn_pe tiny f s = Some (f', u) -> denote f' rho = denote f rho.
Proof. exact fn_pe_sound. Qed.
Print Assumptions C03_fn.

(* fixing s1 and then evaluating the remainder at s2 = evaluating the original at s1 u s2 *)
Theorem C03_then_eval : forall tiny, tiny_exact tiny -> forall f s1 s2 f' u v ids w ids',
  sdisjoint s1 s2 ->
  fn_pe tiny f s1 = Some (f', u) -> fn_eval f' s2 = Some (v, ids) ->
  fn_eval f (s1 ++ s2) = Some (w, ids') -> v = w.
Proof. exact pe_then_eval. Qed.
Print Assumptions C03_then_eval.

(* fixing in two steps is equivalent to fixing at once *)
Theorem C03_two_steps : forall tiny, tiny_exact tiny -> forall f s1 s2 f1 u1 f2 u2 f12 u12,
  fn_pe tiny f s1 = Some (f1, u1) -> fn_pe tiny f1 s2 = Some (f2, u2) ->
  fn_pe tiny f (s1 ++ s2) = Some (f12, u12) ->
  forall rho, agrees rho s1 -> agrees rho s2 -> denote f2 rho = denote f12 rho.
Proof. exact pe_two_steps. Qed.
Print Assumptions C03_two_steps.

(* linear case of "no fixed variable remains; returned ids are fixed variables that occurred" *)
Theorem C03_lin_ids_partial : forall s l l' u, lin_pe l s = (l', u) ->
  (forall i, In i (map fst (l_terms l')) -> In i (map fst (l_terms l)) /\ ~ fixed s i) /\
  (forall i, In i u -> In i (map fst (l_terms l)) /\ fixed s i).
Proof. exact (lin_pe_ids tiny_eps). Qed.
Print Assumptions C03_lin_ids_partial.

Example C03_nonvacuous :
  let q := FQuad {| q_rows := [1; 2]%N; q_cols := [2; 2]%N; q_vals := [qz 3; 1]; q_lin := None |} in
  let rho := fun i : N => if (i =? 2)%N then qz 2 else qz 5 in
  exists f' u, fn_pe tiny_eps q [(2%N, qz 2)] = Some (f', u) /\ List.length u = 3%nat /\
               denote f' rho = qz 34 /\ denote q rho = qz 34.
Proof. eexists; eexists. vm_compute. repeat split. Qed.
