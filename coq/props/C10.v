(* C10 — instantiating parameters equals evaluating them. *)
Require Import Ommx.Num Ommx.Poly Ommx.Msg Ommx.Eval Ommx.Tree Ommx.Arith Ommx.PEval Ommx.Inst
        Ommx.InstProofs Ommx.PEvalProofs Ommx.Transform Ommx.TransformProofs Ommx.SubstInst Ommx.ParamInst.
From Coq Require Import String.
Close Scope string_scope. Open Scope list_scope. Open Scope Qc_scope.

Theorem C10_sem_and_frame : forall tiny, tiny_exact tiny -> forall P theta I,
  with_parameters tiny P theta = Some I ->
  i_dvs I = p_dvs P /\ i_sense I = p_sense P /\ i_rs I = p_rs P /\ i_hints I = p_hints P /\
  i_deps I = p_deps P /\ i_params I = Some theta /\
  forall rho, agrees rho theta ->
    denote (fn_or_zero (i_obj I)) rho = denote (fn_or_zero (p_obj P)) rho /\
    Forall2 (same_constr_at rho) (p_cs P) (i_cs I).
Proof. exact with_parameters_spec. Qed.
Print Assumptions C10_sem_and_frame.

Theorem C10_missing : forall tiny P theta p,
  In p (p_params P) -> sget theta (pa_id p) = None -> with_parameters tiny P theta = None.
Proof. exact with_parameters_missing. Qed.
Print Assumptions C10_missing.

Theorem C10_complete : forall tiny P theta,
  (forall p, In p (p_params P) -> sget theta (pa_id p) <> None) ->
  with_parameters tiny P theta = None ->
  opt_fn_pe tiny (p_obj P) theta = None \/ constrs_pe tiny (p_cs P) theta = None.
Proof. exact with_parameters_complete. Qed.
Print Assumptions C10_complete.

Theorem C10_roundtrip : forall tiny, tiny_exact tiny -> forall I I',
  with_parameters tiny (of_instance I) [] = Some I' ->
  i_dvs I' = i_dvs I /\ i_sense I' = i_sense I /\ i_rs I' = i_rs I /\ i_deps I' = i_deps I /\
  i_params I' = Some [] /\
  forall rho, denote (fn_or_zero (i_obj I')) rho = denote (fn_or_zero (i_obj I)) rho /\
              Forall2 (same_constr_at rho) (i_cs I) (i_cs I').
Proof. exact roundtrip_spec. Qed.
Print Assumptions C10_roundtrip.

Example C10_nonvacuous :
  let P := {| p_sense := 1; p_obj := Some (FQuad {| q_rows := [1]%N; q_cols := [9]%N; q_vals := [qz 2]; q_lin := None |});
              p_dvs := []; p_params := [{| pa_id := 9; pa_meta := [] |}]; p_cs := []; p_rs := [];
              p_deps := []; p_hints := L []; p_desc := L [] |} in
  (exists I, with_parameters tiny_eps P [(9%N, qz 3)] = Some I /\
             denote (fn_or_zero (i_obj I)) (fun _ => qz 5) = qz 30) /\
  with_parameters tiny_eps P [] = None.
Proof. split; [eexists; split; vm_compute; reflexivity|vm_compute; reflexivity]. Qed.


(* ---------------------------------------------------------------------------------------------
   INSTANCE LEVEL (ParamInst.v): EVALUATING the instantiated instance at x gives the parametric
   objective and active constraints at (x, theta) -- for every valuation that agrees with x and with
   theta -- every active record with its id / equality / metadata in order, removed constraints exactly
   as stored (they are NOT instantiated), both flags "all hold", and the frame. *)
Theorem C10_instance : forall tiny, tiny_exact tiny -> forall P theta I2 x sol,
  with_parameters tiny P theta = Some I2 ->
  inst_eval I2 x = Some sol ->
  (forall rho, agrees rho x -> agrees rho theta ->
     so_objective sol = denote (fn_or_zero (p_obj P)) rho) /\
  (exists ea er, so_evaluated sol = ea ++ er /\
     Forall2 (fun c e => reports_param c x theta e) (p_cs P) ea /\
     Forall2 (fun r e => reports_removed r x e) (p_rs P) er /\
     (so_feasible_relaxed sol = true <-> Forall holds ea) /\
     (so_feasible sol = true <-> Forall holds (ea ++ er))) /\
  i_dvs I2 = p_dvs P /\ i_sense I2 = p_sense P /\ i_rs I2 = p_rs P /\ i_hints I2 = p_hints P /\
  i_deps I2 = p_deps P /\ i_desc I2 = p_desc P /\ i_params I2 = Some theta /\
  so_dvs sol = p_dvs P.
Proof. exact with_parameters_eval. Qed.
Print Assumptions C10_instance.

(* with parameter ids that are not state ids the canonical valuation of (theta ++ x) witnesses it *)
Theorem C10_instance_union : forall tiny, tiny_exact tiny -> forall P theta I2 x sol,
  sdisjoint theta x ->
  with_parameters tiny P theta = Some I2 -> inst_eval I2 x = Some sol ->
  so_objective sol = denote (fn_or_zero (p_obj P)) (total (theta ++ x)).
Proof. intros tiny TE P theta I2 x sol D W E. exact (proj1 (proj2 (with_parameters_eval_union tiny TE P theta I2 x sol D W E))). Qed.
Print Assumptions C10_instance_union.

(* removed constraints are not instantiated: one that mentions an id without value in x (e.g. a
   parameter) makes the evaluation fail *)
Theorem C10_removed_not_instantiated : forall tiny, tiny_exact tiny -> forall P theta I2 x r c i,
  with_parameters tiny P theta = Some I2 ->
  In r (p_rs P) -> r_c r = Some c -> occurs (fn_or_zero (c_fn c)) i -> sget x i = None ->
  inst_eval I2 x = None.
Proof. exact with_parameters_removed_not_instantiated. Qed.
Print Assumptions C10_removed_not_instantiated.
Check with_parameters_eval_nonvacuous.
Print Assumptions with_parameters_eval_nonvacuous.
