(* C10 — instantiating parameters equals evaluating them. *)
Require Import Ommx.Num Ommx.Poly Ommx.Msg Ommx.Eval Ommx.Tree Ommx.Arith Ommx.PEval Ommx.Inst
        Ommx.Transform Ommx.TransformProofs.
From Coq Require Import String.
Close Scope string_scope. Open Scope list_scope. Open Scope Qc_scope.

Theorem C10_sem_and_frame : forall tiny, tiny_exact tiny -> forall P theta I,
  with_parameters tiny P theta = Some I ->
  i_dvs I = p_dvs P /\ i_sense I = p_sense P /\ i_rs I = p_rs P /\ i_hints I = p_hints P /\
  i_deps I = p_deps P /\ i_params I = Some theta /\
  forall rho, agrees rho theta ->
    denote (fn_or_zero (i_obj I)) rho = denote (fn_or_zero (p_obj P)) rho /\
    Forall2 (same_constr_at rho) (p_cs P) (i_cs I).
Proof. exact with_parameters_spec. Qed.
Print Assumptions C10_sem_and_frame.

Theorem C10_missing : forall tiny P theta p,
  In p (p_params P) -> sget theta (pa_id p) = None -> with_parameters tiny P theta = None.
Proof. exact with_parameters_missing. Qed.
Print Assumptions C10_missing.

Theorem C10_complete : forall tiny P theta,
  (forall p, In p (p_params P) -> sget theta (pa_id p) <> None) ->
  with_parameters tiny P theta = None ->
  opt_fn_pe tiny (p_obj P) theta = None \/ constrs_pe tiny (p_cs P) theta = None.
Proof. exact with_parameters_complete. Qed.
Print Assumptions C10_complete.

Theorem C10_roundtrip : forall tiny, tiny_exact tiny -> forall I I',
  with_parameters tiny (of_instance I) [] = Some I' ->
  i_dvs I' = i_dvs I /\ i_sense I' = i_sense I /\ i_rs I' = i_rs I /\ i_deps I' = i_deps I /\
  i_params I' = Some [] /\
  forall rho, denote (fn_or_zero (i_obj I')) rho = denote (fn_or_zero (i_obj I)) rho /\
              Forall2 (same_constr_at rho) (i_cs I) (i_cs I').
Proof. exact roundtrip_spec. Qed.
Print Assumptions C10_roundtrip.

Example C10_nonvacuous :
  let P := {| p_sense := 1; p_obj := Some (FQuad {| q_rows := [1]%N; q_cols := [9]%N; q_vals := [qz 2]; q_lin := None |});
              p_dvs := []; p_params := [{| pa_id := 9; pa_meta := [] |}]; p_cs := []; p_rs := [];
              p_deps := []; p_hints := L []; p_desc := L [] |} in
  (exists I, with_parameters tiny_eps P [(9%N, qz 3)] = Some I /\
             denote (fn_or_zero (i_obj I)) (fun _ => qz 5) = qz 30) /\
  with_parameters tiny_eps P [] = None.
Proof. split; [eexists; split; vm_compute; reflexivity|vm_compute; reflexivity]. Qed.
