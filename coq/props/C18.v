(* C18 — writing an instance as MPS and reading it back returns the same problem.
   Property theorems only; each is closed by [exact] of a lemma of the development
   (writer / reader model: theories/Mps.v, proofs: theories/MpsProofs.v). *)
Require Import Ommx.Num Ommx.Poly Ommx.Msg Ommx.Tree Ommx.Mps Ommx.MpsSpec Ommx.MpsProofs Ommx.RunC17 Ommx.RunC18 Ommx.MpsWriteRoundTrip.
From Coq Require Import String Ascii.
Open Scope string_scope.
Open Scope list_scope.

(* A nonlinear objective is refused, and the error names the objective and its degree
   (an instance that uses a variable has at least one decision variable). *)
Theorem C18_refuses_objective : forall I,
  in_dvars I <> [] -> as_linear (in_obj I) = None ->
  write_mps I = WErr (WObjective (fn_degree (in_obj I))).
Proof. exact write_refuses_objective. Qed.
Print Assumptions C18_refuses_objective.

(* With a linear objective, the first nonlinear constraint is refused, and the error names it
   (OMMX_CONSTR_<id>) and its degree. *)
Theorem C18_refuses_constraint : forall I pre c post,
  is_linear (in_obj I) -> in_cons I = pre ++ c :: post ->
  Forall (fun c => is_linear (cn_fn c)) pre -> as_linear (cn_fn c) = None ->
  write_mps I = WErr (WConstraint (constr_name c) (fn_degree (cn_fn c))).
Proof. exact write_refuses_constraint. Qed.
Print Assumptions C18_refuses_constraint.

(* Exactly the nonlinear instances: a linear instance whose used variables are defined is written, *)
Theorem C18_accepts_linear : forall I,
  is_linear (in_obj I) -> Forall (fun c => is_linear (cn_fn c)) (in_cons I) ->
  (forall id, In id (used_ids I) -> var_by_id I id <> None) ->
  exists lines, write_mps I = WOk lines.
Proof. exact write_accepts_linear. Qed.
Print Assumptions C18_accepts_linear.

(* and a nonlinearity error is only ever raised for an instance with a nonlinear function. *)
Theorem C18_refusal_sound : forall I,
  (exists d, write_mps I = WErr (WObjective d)) \/ (exists n d, write_mps I = WErr (WConstraint n d)) ->
  ~ (is_linear (in_obj I) /\ Forall (fun c => is_linear (cn_fn c)) (in_cons I)).
Proof. exact write_refusal_sound. Qed.
Print Assumptions C18_refusal_sound.

(* The BOUNDS lines of a variable are the rendering of its bound statements ... *)
Theorem C18_bound_lines : forall v, bound_lines v = map stmt_line (written_stmts v).
Proof. exact bound_lines_are_stmts. Qed.
Print Assumptions C18_bound_lines.

(* ... and, for each kind x bound shape (absent, any finite or infinite endpoints, negative,
   [0,1], fixed), those statements read back — by the keyword fold that C17_bounds proves the
   reader to implement, with the column's marker status — to the variable's value domain:
   absent = unbounded, [0,1] for binaries, binary = integer within [0,1]. *)
Theorem C18_domain : forall v,
  (dv_kind v = 1 \/ dv_kind v = 2 \/ dv_kind v = 3)%N ->
  no_nan (dv_bound v) -> binary_bound_ok (dv_kind v) (dv_bound v) ->
  read_domain ((dv_kind v =? 1) || (dv_kind v =? 2))%N (dvar_name v) (written_stmts v)
  = domain (dv_kind v) (dv_bound v).
Proof. exact domain_roundtrip. Qed.
Print Assumptions C18_domain.

(* the comparator's test for "same function" is sound: both sides are linear and denote the same
   function of the variables *)
Theorem C18_comparator_fn_sound : forall f g, lin_eqb f g = true ->
  exists l1 l2, as_linear f = Some l1 /\ as_linear g = Some l2 /\
    forall rho, lin_denote l1 rho = lin_denote l2 rho.
Proof. exact lin_eqb_sound. Qed.
Print Assumptions C18_comparator_fn_sound.

(* ---- non-vacuity: an instance with a continuous unbounded, an integer [0,1] and a binary
   variable without bound, a constant-only constraint and non-contiguous ids is written by the
   writer model and read back by the reader model as the same problem ---- *)
Definition ex_inst : inst :=
  {| in_sense := 2%N;
     in_obj := FLin {| l_terms := [(7%N, qz 3); (40%N, Q2Qc (-5 # 2))]; l_const := qz 4 |};
     in_dvars := [ {| dv_id := 40%N; dv_kind := 3%N; dv_bound := None; dv_name := None |};
                   {| dv_id := 7%N; dv_kind := 2%N; dv_bound := Some (Fin 0, Fin 1); dv_name := None |};
                   {| dv_id := 9%N; dv_kind := 1%N; dv_bound := None; dv_name := None |} ];
     in_cons := [ {| cn_id := 12%N; cn_eq := 2%N;
                     cn_fn := FLin {| l_terms := [(9%N, qz 1); (40%N, qz (-1))]; l_const := Q2Qc (1 # 4) |};
                     cn_name := None |};
                  {| cn_id := 3%N; cn_eq := 1%N; cn_fn := FConst (qz (-2)); cn_name := None |} ];
     in_name := Some "demo" |}.

Example C18_nonvacuous :
  match write_mps ex_inst with
  | WOk lines =>
      match load_lines lines with
      | Ok J => same_problem ex_inst J = None /\ map dv_kind (in_dvars J) = [3; 1; 1]%N
      | Err _ => False
      end
  | WErr _ => False
  end.
Proof. vm_compute. split; reflexivity. Qed.

(* the round trip as a theorem (Tier B): for EVERY well-formed linear instance -- linear objective
   and constraints, used ids defined, distinct ids below 2^64, sense and equality kinds specified,
   used variables with a proper domain, every printed number a terminating decimal of fewer than 64
   fractional digits -- the writer succeeds, the reader reads the written lines back, and the result
   is the same problem in the sense of the comparator the correspondence uses (sense, objective,
   per-id constraint functions and kinds, value domain of every used variable).  No assumption on
   the number printer / parser remains. *)
Theorem C18_load_write : forall I0, wfb_dec I0 = true ->
  exists lines, write_mps I0 = WOk lines /\ load_lines lines = Ok (readback I0) /\
                same_problem I0 (readback I0) = None.
Proof. exact C18_roundtrip_decimal. Qed.
Print Assumptions C18_load_write.

(* the writer accepts exactly the linear instances whose used ids are defined *)
Theorem C18_writer_accepts_iff : forall I0,
  (exists lines, write_mps I0 = WOk lines) /\ linb (in_obj I0) = true <-> wf_lin I0 && wf_used I0 = true.
Proof. exact wfb_write_iff. Qed.
Print Assumptions C18_writer_accepts_iff.

Example C18_load_write_nonvacuous : wfb_dec MpsWriteRoundTrip.ex_inst = true.
Proof. exact ex_inst_wf_dec. Qed.


Example C18_refusal_nonvacuous :
  write_mps {| in_sense := 1%N; in_obj := FConst 0;
               in_dvars := [ {| dv_id := 1%N; dv_kind := 3%N; dv_bound := None; dv_name := None |} ];
               in_cons := [ {| cn_id := 5%N; cn_eq := 1%N;
                               cn_fn := FPoly [([1%N; 1%N], qz 2)]; cn_name := None |} ];
               in_name := None |}
  = WErr (WConstraint "OMMX_CONSTR_5" 2%N).
Proof. vm_compute. reflexivity. Qed.

(* the comparator is not vacuous: dropping the FR line (the defect fixed in /repo) is detected *)
Example C18_comparator_detects :
  match write_mps ex_inst with
  | WOk lines =>
      match load_lines (filter (fun l => negb (starts_with "  FR" l)) lines) with
      | Ok J => same_problem ex_inst J = Some "value domain of a used variable"
      | Err _ => False
      end
  | WErr _ => False
  end.
Proof. vm_compute. reflexivity. Qed.
