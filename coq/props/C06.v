(* C06 — sample-set evaluation agrees with evaluating each sample alone.
   Proved here: the composite statement (objective, constraints, flags, variable definitions;
   variable values) and the component facts about the compressed representation. *)
Require Import Ommx.Num Ommx.Poly Ommx.Msg Ommx.Eval Ommx.Tree Ommx.Inst Ommx.Samples Ommx.SamplesProofs Ommx.SamplesCompose Ommx.SamplesState.
From Coq Require Import String.
Close Scope string_scope. Open Scope list_scope. Open Scope Qc_scope.

(* what Samples::map stores for sample id k is the function applied to the state stored for k,
   for any partition of the ids into entries *)
Theorem C06_map_get_partial : forall f S sv k, samples_map f S = Some sv ->
  sv_get sv k = match samples_state S k with Some st => f st | None => None end.
Proof. exact sv_get_samples_map. Qed.
Print Assumptions C06_map_get_partial.

(* nothing depends on how equal values were grouped: a grouped table returns for every id the
   value it was given *)
Theorem C06_grouping_partial : forall l, NoDup (map fst l) -> forall k, sv_get (group l) k = alookup k l.
Proof. exact sv_get_group. Qed.
Print Assumptions C06_grouping_partial.


(* for every sample id k of a sample collection with distinct ids (any partition into entries),
   reading k out of the evaluated sample set yields the objective, the per-constraint records (id,
   equality kind, value, metadata, removal reason; active then removed, in order), both feasibility
   flags and the variable definitions of evaluating the state stored for k alone (the variable
   values: C06_get_state below) *)
Theorem C06_get_evaluate_samples : forall S k st, NoDup (samples_ids S) -> samples_state S k = Some st ->
  forall I ss m1 m2, inst_eval_samples I S = Some ss -> ss_get ss k = Some m1 -> inst_eval I st = Some m2 ->
  so_objective m1 = so_objective m2 /\ Forall2 same_ev (so_evaluated m1) (so_evaluated m2) /\
  so_feasible_relaxed m1 = so_feasible_relaxed m2 /\ so_feasible m1 = so_feasible m2 /\
  so_dvs m1 = so_dvs m2.
Proof. exact get_evaluate_samples. Qed.
Print Assumptions C06_get_evaluate_samples.

(* ... and the returned state gives every defined variable the value the single evaluation
   reports for it (dependent variables evaluated, vacant ones filled with the point of the bound
   nearest to zero) and holds nothing else.  Hypothesis: no defined variable carries a substituted
   value (evaluate inserts those before the dependency pass, evaluate_samples does not). *)
Theorem C06_get_state : forall I S k st ss m1 m2,
  NoDup (samples_ids S) -> samples_state S k = Some st ->
  (forall d, In d (i_dvs I) -> dv_subst d = None) ->
  inst_eval_samples I S = Some ss -> ss_get ss k = Some m1 -> inst_eval I st = Some m2 ->
  forall i, sget (so_state m1) i = if mem i (map dv_id (i_dvs I)) then sget (so_state m2) i else None.
Proof. exact get_evaluate_samples_state. Qed.
Print Assumptions C06_get_state.

(* non-vacuity: two samples sharing a state and a third one, one constraint, a vacant variable *)
Definition ex_dv (i : N) : dvar :=
  {| dv_id := i; dv_kind := KIND_CONTINUOUS; dv_bound := Some (Fin (qz 1), Fin (qz 4)); dv_subst := None; dv_meta := [] |}.
Definition ex_inst : instance :=
  {| i_sense := SENSE_MIN; i_obj := Some (FLin {| l_terms := [(1%N, qz 2)]; l_const := 1 |});
     i_dvs := [ex_dv 1; ex_dv 2];
     i_cs := [{| c_id := 7; c_eq := LE_ZERO; c_fn := Some (FLin {| l_terms := [(1%N, 1)]; l_const := qz (-2) |}); c_meta := [] |}];
     i_rs := []; i_deps := []; i_params := None; i_hints := Tree.L []; i_desc := Tree.L [] |}.
Definition ex_samples : samples := [([(1%N, qz 1)], [10; 12]%N); ([(1%N, qz 3)], [11]%N)].
Example C06_composite_nonvacuous :
  exists ss m1 m2, inst_eval_samples ex_inst ex_samples = Some ss /\ ss_get ss 11 = Some m1 /\
    inst_eval ex_inst [(1%N, qz 3)] = Some m2 /\ NoDup (samples_ids ex_samples) /\
    samples_state ex_samples 11 = Some [(1%N, qz 3)] /\
    so_objective m1 = qz 7 /\ so_feasible m1 = false /\ sget (so_state m1) 2 = Some (qz 1).
Proof.
  eexists; eexists; eexists. split; [vm_compute; reflexivity|]. split; [vm_compute; reflexivity|].
  split; [vm_compute; reflexivity|]. split; [|repeat split; vm_compute; reflexivity].
  repeat constructor; cbn; intuition discriminate.
Qed.

Example C06_nonvacuous :
  sv_get (group [(7%N, qz 2); (3%N, qz 5); (9%N, qz 2)]) 9 = Some (qz 2) /\
  group [(7%N, qz 2); (3%N, qz 5); (9%N, qz 2)] = [(qz 2, [7; 9]%N); (qz 5, [3]%N)].
Proof. vm_compute. split; reflexivity. Qed.


(* ---------------------------------------------------------------------------------------------
   WITH FIXED VALUES (SamplesSubst.v).  C06_get_state assumed that no variable carries a fixed value
   (substituted_value, as Instance::partial_evaluate leaves it).  The variable values reported by
   get k after evaluate_samples equal those of the single evaluation also for instances with fixed
   values, provided (H1) no dependency function mentions a fixed variable (what partial_evaluate
   leaves behind), (H2) no dependency key is fixed, (H3) the ids are distinct -- each of the three is
   necessary (h1_refuted, h2_refuted, h3_refuted: evaluate inserts the fixed values before the
   dependency pass, evaluate_samples does not).  And WHEN evaluate_samples succeeds: under (H1), with
   supported equalities and in-bound samples, exactly when every single evaluation does
   (evaluate_samples itself never checks bounds: success_needs_bound_check). *)
Require Import Ommx.InstTotal Ommx.SamplesSubst.
Theorem C06_get_state_fixed : forall I S k st ss m1 m2,
  NoDup (samples_ids S) -> samples_state S k = Some st ->
  fixed_unread I -> keys_unfixed I -> NoDup (map dv_id (i_dvs I)) ->
  inst_eval_samples I S = Some ss -> ss_get ss k = Some m1 -> inst_eval I st = Some m2 ->
  forall i, sget (so_state m1) i = if mem i (map dv_id (i_dvs I)) then sget (so_state m2) i else None.
Proof. exact get_evaluate_samples_state_H123. Qed.
Print Assumptions C06_get_state_fixed.

Theorem C06_samples_succeed_iff : forall I S,
  fixed_unread I ->
  (forall c, In c (i_cs I) -> supported c) ->
  (forall r, In r (i_rs I) -> exists c, r_c r = Some c /\ supported c) ->
  (forall st ids, In (st, ids) S -> check_bound (i_dvs I) st tol7 = true) ->
  ((exists ss, inst_eval_samples I S = Some ss) <->
   (forall st ids, In (st, ids) S -> exists sol, inst_eval I st = Some sol)).
Proof. exact inst_eval_samples_succeeds_iff. Qed.
Print Assumptions C06_samples_succeed_iff.
Check h1_refuted.
Check h2_refuted.
Check h3_refuted.
Check nv_theorem_applies.
Print Assumptions nv_theorem_applies.
