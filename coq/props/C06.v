(* C06 — sample-set evaluation agrees with evaluating each sample alone.
   Proved here: the component facts about the compressed representation.  The composite statement
   (get k of the evaluated sample set = single evaluation) is checked by the runner on every case
   against the model (clause "MODEL:") and is listed as planned. *)
Require Import Ommx.Num Ommx.Poly Ommx.Msg Ommx.Eval Ommx.Tree Ommx.Inst Ommx.Samples Ommx.SamplesProofs.
From Coq Require Import String.
Close Scope string_scope. Open Scope list_scope. Open Scope Qc_scope.

(* what Samples::map stores for sample id k is the function applied to the state stored for k,
   for any partition of the ids into entries *)
Theorem C06_map_get_partial : forall f S sv k, samples_map f S = Some sv ->
  sv_get sv k = match samples_state S k with Some st => f st | None => None end.
Proof. exact sv_get_samples_map. Qed.
Print Assumptions C06_map_get_partial.

(* nothing depends on how equal values were grouped: a grouped table returns for every id the
   value it was given *)
Theorem C06_grouping_partial : forall l, NoDup (map fst l) -> forall k, sv_get (group l) k = alookup k l.
Proof. exact sv_get_group. Qed.
Print Assumptions C06_grouping_partial.

Example C06_nonvacuous :
  sv_get (group [(7%N, qz 2); (3%N, qz 5); (9%N, qz 2)]) 9 = Some (qz 2) /\
  group [(7%N, qz 2); (3%N, qz 5); (9%N, qz 2)] = [(qz 2, [7; 9]%N); (qz 5, [3]%N)].
Proof. vm_compute. split; reflexivity. Qed.
