(* C11 — QUBO/PUBO export reproduces the objective on every binary assignment.
   [enter] is the SDK's test |c| > eps for taking a term, [leave] its test |v| < eps for deleting an
   accumulated entry; exactness is stated for every pair of tests that only discard exact zeros. *)
Require Import Ommx.Num Ommx.Poly Ommx.Msg Ommx.Eval Ommx.Tree Ommx.Arith Ommx.Inst
        Ommx.InstProofs Ommx.Transform Ommx.PuboProofs Ommx.ResidualOps Ommx.PuboInst.
From Coq Require Import String.
Close Scope string_scope. Open Scope list_scope. Open Scope Qc_scope.

Theorem C11_pubo : forall enter leave,
  (forall c, enter c = false -> c = 0) -> (forall v, leave v = true -> v = 0) ->
  forall I D, as_pubo enter leave I = inr D ->
  forall rho, binary rho -> val rho D = denote (fn_or_zero (i_obj I)) rho.
Proof. exact pubo_sound. Qed.
Print Assumptions C11_pubo.

Theorem C11_qubo : forall enter leave,
  (forall c, enter c = false -> c = 0) -> (forall v, leave v = true -> v = 0) ->
  forall I D c0, as_qubo enter leave I = inr (D, c0) ->
  forall rho, binary rho -> val rho D + c0 = denote (fn_or_zero (i_obj I)) rho.
Proof. exact qubo_sound. Qed.
Print Assumptions C11_qubo.

(* keys are canonical: distinct, duplicate-free strictly increasing sets (PUBO), pairs i <= j (QUBO) *)
Theorem C11_pubo_keys : forall enter leave I D, as_pubo enter leave I = inr D ->
  NoDup (keys D) /\ forall k c, In (k, c) D -> sorted_lt k = true.
Proof. exact pubo_keys. Qed.
Print Assumptions C11_pubo_keys.
Theorem C11_qubo_keys : forall enter leave I D c0, as_qubo enter leave I = inr (D, c0) ->
  forall k, In k (keys D) -> pair_key k.
Proof. exact qubo_keys. Qed.
Print Assumptions C11_qubo_keys.

(* no stored coefficient is zero *)
Theorem C11_pubo_nonzero : forall enter leave I D, leave 0 = true -> as_pubo enter leave I = inr D ->
  forall k c, In (k, c) D -> c <> 0.
Proof. exact pubo_nonzero. Qed.
Print Assumptions C11_pubo_nonzero.

(* refusal exactly when: active constraints remain, maximisation, a used variable is not binary,
   (QUBO) an entering term has more than two distinct variables *)
Theorem C11_pubo_refuse_iff : forall enter leave I,
  (exists e, as_pubo enter leave I = inl e) <->
  i_cs I <> [] \/ i_sense I = SENSE_MAX \/
  subset (fn_used (fn_or_zero (i_obj I))) (binary_ids (i_dvs I)) = false.
Proof. exact pubo_refuse_iff. Qed.
Print Assumptions C11_pubo_refuse_iff.
Theorem C11_qubo_refuse_iff : forall enter leave I,
  (exists e, as_qubo enter leave I = inl e) <->
  i_sense I = SENSE_MAX \/ i_cs I <> [] \/
  subset (fn_used (fn_or_zero (i_obj I))) (binary_ids (i_dvs I)) = false \/
  exists ids c, In (ids, c) (fn_iter (fn_or_zero (i_obj I))) /\ enter c = true /\
                (2 < List.length (bin_key ids))%nat.
Proof. exact qubo_refuse_iff. Qed.
Print Assumptions C11_qubo_refuse_iff.

Theorem C11_idealised_tests_exact :
  (forall c, enter_0 c = false -> c = 0) /\ (forall v, leave_0 v = true -> v = 0).
Proof. split; [exact enter_0_exact|exact leave_0_exact]. Qed.
Print Assumptions C11_idealised_tests_exact.

(* non-vacuity: 2 x1 x2 x2 + 3 x1 x1 - x1 over binaries exports {1,2}: 2, {1}: 2 *)
(* with the SDK's own tests (take a term iff |c| > eps, delete an accumulated entry iff |v| < eps):
   on every binary assignment the exported dictionary differs from the objective by at most
   (number of terms of the objective) * eps *)
Theorem C11_pubo_eps : forall (I : instance) (D : terms), as_pubo enter_eps leave_eps I = inr D ->
  forall rho, binary rho ->
    qabs (val rho D - denote (fn_or_zero (i_obj I)) rho) <= qn (nterms (fn_or_zero (i_obj I))) * eps.
Proof. exact pubo_eps_bound. Qed.
Print Assumptions C11_pubo_eps.
Theorem C11_qubo_eps : forall I D c0, as_qubo enter_eps leave_eps I = inr (D, c0) ->
  forall rho, binary rho ->
    qabs (val rho D + c0 - denote (fn_or_zero (i_obj I)) rho) <= qn (nterms (fn_or_zero (i_obj I))) * eps.
Proof. exact qubo_eps_bound. Qed.
Print Assumptions C11_qubo_eps.

Example C11_nonvacuous :
  let b k := {| dv_id := k; dv_kind := 1; dv_bound := None; dv_subst := None; dv_meta := [] |} in
  let I := {| i_sense := 1; i_obj := Some (FPoly [([1; 2; 2]%N, qz 2); ([1; 1]%N, qz 3); ([1]%N, - (1))]);
              i_dvs := [b 1%N; b 2%N]; i_cs := []; i_rs := []; i_deps := []; i_params := None;
              i_hints := L []; i_desc := L [] |} in
  as_pubo enter_eps leave_eps I = inr [([1; 2]%N, qz 2); ([1]%N, qz 2)].
Proof. vm_compute. reflexivity. Qed.


(* ---------------------------------------------------------------------------------------------
   INSTANCE LEVEL (PuboInst.v): the exported dictionary reproduces the objective REPORTED BY
   Instance::evaluate at every state that is 0/1 on the binary variables; with the SDK's own eps
   tests within (#terms)*eps; a successful export means no active constraint, so the relaxed
   feasibility flag of every evaluation is true; the export is defined exactly when there is no
   active constraint, the sense is not maximisation and every used variable is binary (QUBO: and no
   kept term has more than two distinct ids). *)
Theorem C11_pubo_evaluation : forall enter leave,
  (forall c, enter c = false -> c = 0) -> (forall v, leave v = true -> v = 0) ->
  forall I D, as_pubo enter leave I = inr D ->
  forall x sol, binary_on I x -> inst_eval I x = Some sol ->
    so_objective sol = pubo_value D x.
Proof. exact pubo_matches_evaluation. Qed.
Print Assumptions C11_pubo_evaluation.

Theorem C11_qubo_evaluation : forall enter leave,
  (forall c, enter c = false -> c = 0) -> (forall v, leave v = true -> v = 0) ->
  forall I D c0, as_qubo enter leave I = inr (D, c0) ->
  forall x sol, binary_on I x -> inst_eval I x = Some sol ->
    so_objective sol = qubo_value D c0 x.
Proof. exact qubo_matches_evaluation. Qed.
Print Assumptions C11_qubo_evaluation.

Theorem C11_pubo_evaluation_eps : forall I D, as_pubo enter_eps leave_eps I = inr D ->
  forall x sol, binary_on I x -> inst_eval I x = Some sol ->
    qabs (pubo_value D x - so_objective sol) <= qn (nterms (fn_or_zero (i_obj I))) * eps.
Proof. exact pubo_matches_evaluation_eps. Qed.
Print Assumptions C11_pubo_evaluation_eps.

Theorem C11_qubo_evaluation_eps : forall I D c0, as_qubo enter_eps leave_eps I = inr (D, c0) ->
  forall x sol, binary_on I x -> inst_eval I x = Some sol ->
    qabs (qubo_value D c0 x - so_objective sol) <= qn (nterms (fn_or_zero (i_obj I))) * eps.
Proof. exact qubo_matches_evaluation_eps. Qed.
Print Assumptions C11_qubo_evaluation_eps.

Theorem C11_export_feasible_relaxed : forall enter leave I D, as_pubo enter leave I = inr D ->
  forall x sol, inst_eval I x = Some sol -> so_feasible_relaxed sol = true.
Proof. exact pubo_export_feasible_relaxed. Qed.
Print Assumptions C11_export_feasible_relaxed.

Theorem C11_pubo_defined_iff : forall enter leave I,
  (exists D, as_pubo enter leave I = inr D) <->
  i_cs I = [] /\ i_sense I <> SENSE_MAX /\
  forall i, In i (fn_used (fn_or_zero (i_obj I))) -> exists d, In d (i_dvs I) /\ dv_id d = i /\ dv_kind d = KIND_BINARY.
Proof. exact pubo_export_defined_iff. Qed.
Print Assumptions C11_pubo_defined_iff.
Check qubo_export_defined_iff.
Check pubo_inst_nonvacuous.
Check qubo_inst_nonvacuous.
Print Assumptions pubo_inst_theorem_applies.
