(* C04 — substitution is function composition and dependent variables are recovered. *)
Require Import Ommx.Num Ommx.Poly Ommx.Msg Ommx.Eval Ommx.Tree Ommx.Arith Ommx.ArithProofs Ommx.Inst
        Ommx.InstProofs Ommx.Transform Ommx.TransformProofs Ommx.Subst Ommx.SubstProofs Ommx.DepsOrder
        Ommx.SubstInst Ommx.PenaltyPath Ommx.PenaltyPathEval.
From Coq Require Import Permutation.
From Coq Require Import String.
Close Scope string_scope. Open Scope list_scope. Open Scope Qc_scope.

(* simultaneous substitution: the result's value at every assignment is the original evaluated
   with each replaced variable set to the value of its replacement at that assignment;
   replacements may mention replaced variables *)
Theorem C04_fn : forall tiny, tiny_exact tiny -> forall R,
  (forall i r, lookup i R = Some r -> fwf r) ->
  forall f g, fn_substitute tiny f R = Some g ->
  forall rho, denote g rho = denote f (sigma R rho).
Proof. exact fn_substitute_sound. Qed.
Print Assumptions C04_fn.

(* dependent variables: on success the reported state extends the given one and every dependent
   variable holds the value of its function in that state (through chains of dependencies) *)
Theorem C04_deps_sound : forall deps s s',
  NoDup (dkeys deps) -> (forall d, In d (dkeys deps) -> sget s d = None) ->
  eval_deps deps s = Some s' -> sext s s' /\ solved deps s'.
Proof. exact eval_deps_sound. Qed.
Print Assumptions C04_deps_sound.

(* evaluation of a function is monotone in the state: values computed early stay valid *)
Theorem C04_eval_monotone : forall f s s' r, sext s s' -> fn_eval f s = Some r -> fn_eval f s' = Some r.
Proof. exact fn_eval_mono. Qed.
Print Assumptions C04_eval_monotone.

(* no hang: the loop is structurally recursive on an explicit budget, and that budget is never
   what stops it — any two budgets of at least the number of dependencies give the same answer,
   so failure is always the clean stall error and never a partial state (the result is an option) *)
Theorem C04_deps_terminates : forall n m bucket s,
  (List.length bucket <= n)%nat -> (List.length bucket <= m)%nat ->
  eval_deps_fuel (S n) bucket (List.length bucket) s = eval_deps_fuel (S m) bucket (List.length bucket) s.
Proof. exact eval_deps_fuel_irrelevant. Qed.
Print Assumptions C04_deps_terminates.


(* regardless of internal map iteration order: any reordering of the dependency map succeeds as
   well and reports the same value for every id *)
Theorem C04_deps_order_free : forall deps deps' s s1,
  NoDup (dkeys deps) -> (forall d, In d (dkeys deps) -> sget s d = None) ->
  Permutation deps deps' -> eval_deps deps s = Some s1 ->
  exists s2, eval_deps deps' s = Some s2 /\ forall i, sget s2 i = sget s1 i.
Proof. exact eval_deps_order_free. Qed.
Print Assumptions C04_deps_order_free.

(* completeness: the pass fails exactly when NO order exists in which the dependencies can be
   evaluated one after the other (seq_ok: each function evaluates in the state extended by the
   values before it) -- i.e. exactly for cycles and references to variables without a value *)
Theorem C04_deps_fails_iff : forall deps s,
  NoDup (dkeys deps) -> (forall d, In d (dkeys deps) -> sget s d = None) ->
  (eval_deps deps s = None <-> ~ exists o s1, Permutation o deps /\ seq_ok s o s1).
Proof. exact eval_deps_fails_iff. Qed.
Print Assumptions C04_deps_fails_iff.

(* non-vacuity: x2 := x1 + 1 substituted into x1*x2, and a chain d12 = d11 + 1, d11 = 2*x1 given in
   the "wrong" order; a cycle fails as a whole *)
Example C04_nonvacuous_subst :
  exists g, fn_substitute tiny_eps (FPoly [([1; 2]%N, 1)]) [(2%N, FLin {| l_terms := [(1%N, 1)]; l_const := 1 |})] = Some g
            /\ denote g (fun _ => qz 3) = qz 12.
Proof. eexists. split; vm_compute; reflexivity. Qed.
Example C04_nonvacuous_deps :
  let d11 := (11%N, FLin {| l_terms := [(1%N, qz 2)]; l_const := 0 |}) in
  let d12 := (12%N, FLin {| l_terms := [(11%N, 1)]; l_const := 1 |}) in
  (exists s', eval_deps [d11; d12] [(1%N, qz 5)] = Some s' /\ sget s' 12 = Some (qz 11)) /\
  eval_deps [(11%N, FLin (lin_single 12 1)); (12%N, FLin (lin_single 11 1))] [(1%N, qz 5)] = None.
Proof. split; [eexists; split; vm_compute; reflexivity|vm_compute; reflexivity]. Qed.


(* ---------------------------------------------------------------------------------------------
   INSTANCE LEVEL (SubstInst.v): after Instance::substitute, evaluating a state over the remaining
   variables reports for every replaced variable the value of its replacement (a), every earlier
   dependent variable keeps the value of its defining function (d), and the objective (b) and every
   evaluated constraint, active and removed, in order, with id / equality / metadata / removal
   reason unchanged (c) have the value of the ORIGINAL function at the reported state; both
   feasibility flags are "all hold".  Hypotheses: the replacement functions are well-formed
   messages, R and the dependency map are maps (no repeated key), the state (after the recorded
   fixed values are inserted) gives no value to a replaced or dependent variable and is not
   contradicted by a recorded fixed value. *)
Theorem C04_instance : forall tiny, tiny_exact tiny -> forall Ins R J s sol,
  (forall i r, lookup i R = Some r -> fwf r) ->
  NoDup (dkeys R) -> NoDup (dkeys (i_deps Ins)) ->
  (forall d, In d (dkeys R) \/ In d (dkeys (i_deps Ins)) -> sget (insert_subst (i_dvs Ins) s) d = None) ->
  sext s (insert_subst (i_dvs Ins) s) ->
  inst_substitute tiny Ins R = Some J ->
  inst_eval J s = Some sol ->
  sext s (so_state sol) /\
  (forall a f, lookup a R = Some f ->
     exists v ids, sget (so_state sol) a = Some v /\ fn_eval f (so_state sol) = Some (v, ids) /\
                   (forall rho, agrees rho (so_state sol) -> v = denote f rho) /\
                   (forall w ids', fn_eval f s = Some (w, ids') -> w = v)) /\
  (forall d h, In (d, h) (i_deps Ins) -> ~ In d (dkeys R) ->
     exists v, sget (so_state sol) d = Some v /\
               forall rho, agrees rho (so_state sol) -> v = denote h rho) /\
  (forall rho, agrees rho (so_state sol) -> so_objective sol = denote (fn_or_zero (i_obj Ins)) rho) /\
  (exists ea er, so_evaluated sol = ea ++ er /\
     Forall2 (fun c e => reports_at c None (so_state sol) e) (i_cs Ins) ea /\
     Forall2 (fun r e => reports_removed_at r (so_state sol) e) (i_rs Ins) er /\
     (so_feasible_relaxed sol = true <-> Forall holds ea) /\
     (so_feasible sol = true <-> Forall holds (ea ++ er))) /\
  so_dvs sol = i_dvs Ins.
Proof. exact inst_substitute_eval. Qed.
Print Assumptions C04_instance.

(* the reported value of a replaced variable is the value of its replacement at the GIVEN state when
   that state covers the replacement *)
Theorem C04_instance_value : forall tiny, tiny_exact tiny -> forall Ins R J s sol,
  (forall i r, lookup i R = Some r -> fwf r) ->
  NoDup (dkeys R) -> NoDup (dkeys (i_deps Ins)) ->
  (forall d, In d (dkeys R) \/ In d (dkeys (i_deps Ins)) -> sget (insert_subst (i_dvs Ins) s) d = None) ->
  sext s (insert_subst (i_dvs Ins) s) ->
  inst_substitute tiny Ins R = Some J ->
  inst_eval J s = Some sol ->
  forall a f, lookup a R = Some f -> covers s f ->
    exists w ids, fn_eval f s = Some (w, ids) /\ sget (so_state sol) a = Some w.
Proof. exact inst_substitute_eval_value. Qed.
Print Assumptions C04_instance_value.

(* chains arising from successive substitutions: R1, then R2 on remaining variables (which may occur
   in R1's functions); everything is related to the instance two steps back *)
Theorem C04_instance_chain : forall tiny, tiny_exact tiny -> forall Ins R1 R2 J1 J2 s sol,
  (forall i r, lookup i R1 = Some r -> fwf r) ->
  (forall i r, lookup i R2 = Some r -> fwf r) ->
  NoDup (dkeys R1) -> NoDup (dkeys R2) -> NoDup (dkeys (i_deps Ins)) ->
  (forall d, In d (dkeys R1) -> ~ In d (dkeys R2)) ->
  (forall d, In d (dkeys R1) \/ In d (dkeys R2) \/ In d (dkeys (i_deps Ins)) ->
             sget (insert_subst (i_dvs Ins) s) d = None) ->
  sext s (insert_subst (i_dvs Ins) s) ->
  inst_substitute tiny Ins R1 = Some J1 ->
  inst_substitute tiny J1 R2 = Some J2 ->
  inst_eval J2 s = Some sol ->
  sext s (so_state sol) /\
  (forall a f, lookup a R1 = Some f ->
     exists v, sget (so_state sol) a = Some v /\
               (forall rho, agrees rho (so_state sol) -> v = denote f rho) /\
               (forall w ids, fn_eval f (so_state sol) = Some (w, ids) -> w = v)) /\
  (forall b g, lookup b R2 = Some g ->
     exists v ids, sget (so_state sol) b = Some v /\ fn_eval g (so_state sol) = Some (v, ids) /\
                   (forall rho, agrees rho (so_state sol) -> v = denote g rho) /\
                   (forall w ids', fn_eval g s = Some (w, ids') -> w = v)) /\
  (forall d h, In (d, h) (i_deps Ins) -> ~ In d (dkeys R1) -> ~ In d (dkeys R2) ->
     exists v, sget (so_state sol) d = Some v /\ forall rho, agrees rho (so_state sol) -> v = denote h rho) /\
  (forall rho, agrees rho (so_state sol) -> so_objective sol = denote (fn_or_zero (i_obj Ins)) rho) /\
  (exists ea er, so_evaluated sol = ea ++ er /\
     Forall2 (fun c e => reports_at c None (so_state sol) e) (i_cs Ins) ea /\
     Forall2 (fun r e => reports_removed_at r (so_state sol) e) (i_rs Ins) er /\
     (so_feasible_relaxed sol = true <-> Forall holds ea) /\
     (so_feasible sol = true <-> Forall holds (ea ++ er))) /\
  so_dvs sol = i_dvs Ins.
Proof. exact inst_substitute_chain. Qed.
Print Assumptions C04_instance_chain.

(* the QUBO-driver path: after the substitution, a penalty conversion (either one) and the
   instantiation of the weights, evaluating the resulting instance STILL reports every replaced
   variable with the value of its replacement and every earlier dependent variable with the value of
   its defining function (the evaluation of the intermediate instance J is not assumed to succeed) *)
Theorem C04_penalty_path : forall tiny, tiny_exact tiny -> forall Ins R J P theta I2 s sol2,
  (forall i r, lookup i R = Some r -> fwf r) ->
  NoDup (dkeys R) -> NoDup (dkeys (i_deps Ins)) ->
  (forall d, In d (dkeys R) \/ In d (dkeys (i_deps Ins)) -> sget (insert_subst (i_dvs Ins) s) d = None) ->
  sext s (insert_subst (i_dvs Ins) s) ->
  inst_substitute tiny Ins R = Some J ->
  (penalty tiny J = Some P \/ uniform_penalty tiny J = Some P) ->
  with_parameters tiny P theta = Some I2 ->
  inst_eval I2 s = Some sol2 ->
  sext s (so_state sol2) /\
  (forall a f, lookup a R = Some f ->
     exists v ids, sget (so_state sol2) a = Some v /\ fn_eval f (so_state sol2) = Some (v, ids) /\
                   (forall rho, agrees rho (so_state sol2) -> v = denote f rho) /\
                   (forall w ids', fn_eval f s = Some (w, ids') -> w = v)) /\
  (forall d h, In (d, h) (i_deps Ins) -> ~ In d (dkeys R) ->
     exists v, sget (so_state sol2) d = Some v /\
               forall rho, agrees rho (so_state sol2) -> v = denote h rho) /\
  so_dvs sol2 = i_dvs Ins.
Proof. exact penalty_path_reports. Qed.
Print Assumptions C04_penalty_path.

(* any instance: what evaluation reports about its dependency map *)
Theorem C04_eval_reports_deps : forall K s sol,
  NoDup (dkeys (i_deps K)) ->
  (forall d, In d (dkeys (i_deps K)) -> sget (insert_subst (i_dvs K) s) d = None) ->
  sext s (insert_subst (i_dvs K) s) ->
  inst_eval K s = Some sol ->
  sext s (so_state sol) /\ solved (i_deps K) (so_state sol) /\ so_dvs sol = i_dvs K.
Proof. exact inst_eval_reports_deps. Qed.
Print Assumptions C04_eval_reports_deps.

(* non-vacuity of the instance-level theorems: concrete instances, maps and states satisfy every
   hypothesis and every evaluation returns Some (see the Examples in SubstInst.v / PenaltyPathEval.v) *)
Check inst_substitute_eval_nonvacuous.
Check inst_substitute_chain_nonvacuous.
Check penalty_path_nonvacuous.
Print Assumptions inst_substitute_eval_nonvacuous.
Print Assumptions penalty_path_nonvacuous.
