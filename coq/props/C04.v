(* C04 — substitution is function composition and dependent variables are recovered. *)
Require Import Ommx.Num Ommx.Poly Ommx.Msg Ommx.Eval Ommx.Tree Ommx.Arith Ommx.ArithProofs Ommx.Inst
        Ommx.Transform Ommx.TransformProofs Ommx.Subst Ommx.SubstProofs Ommx.DepsOrder.
From Coq Require Import Permutation.
From Coq Require Import String.
Close Scope string_scope. Open Scope list_scope. Open Scope Qc_scope.

(* simultaneous substitution: the result's value at every assignment is the original evaluated
   with each replaced variable set to the value of its replacement at that assignment;
   replacements may mention replaced variables *)
Theorem C04_fn : forall tiny, tiny_exact tiny -> forall R,
  (forall i r, lookup i R = Some r -> fwf r) ->
  forall f g, fn_substitute tiny f R = Some g ->
  forall rho, denote g rho = denote f (sigma R rho).
Proof. exact fn_substitute_sound. Qed.
Print Assumptions C04_fn.

(* dependent variables: on success the reported state extends the given one and every dependent
   variable holds the value of its function in that state (through chains of dependencies) *)
Theorem C04_deps_sound : forall deps s s',
  NoDup (dkeys deps) -> (forall d, In d (dkeys deps) -> sget s d = None) ->
  eval_deps deps s = Some s' -> sext s s' /\ solved deps s'.
Proof. exact eval_deps_sound. Qed.
Print Assumptions C04_deps_sound.

(* evaluation of a function is monotone in the state: values computed early stay valid *)
Theorem C04_eval_monotone : forall f s s' r, sext s s' -> fn_eval f s = Some r -> fn_eval f s' = Some r.
Proof. exact fn_eval_mono. Qed.
Print Assumptions C04_eval_monotone.

(* no hang: the loop is structurally recursive on an explicit budget, and that budget is never
   what stops it — any two budgets of at least the number of dependencies give the same answer,
   so failure is always the clean stall error and never a partial state (the result is an option) *)
Theorem C04_deps_terminates : forall n m bucket s,
  (List.length bucket <= n)%nat -> (List.length bucket <= m)%nat ->
  eval_deps_fuel (S n) bucket (List.length bucket) s = eval_deps_fuel (S m) bucket (List.length bucket) s.
Proof. exact eval_deps_fuel_irrelevant. Qed.
Print Assumptions C04_deps_terminates.


(* regardless of internal map iteration order: any reordering of the dependency map succeeds as
   well and reports the same value for every id *)
Theorem C04_deps_order_free : forall deps deps' s s1,
  NoDup (dkeys deps) -> (forall d, In d (dkeys deps) -> sget s d = None) ->
  Permutation deps deps' -> eval_deps deps s = Some s1 ->
  exists s2, eval_deps deps' s = Some s2 /\ forall i, sget s2 i = sget s1 i.
Proof. exact eval_deps_order_free. Qed.
Print Assumptions C04_deps_order_free.

(* completeness: the pass fails exactly when NO order exists in which the dependencies can be
   evaluated one after the other (seq_ok: each function evaluates in the state extended by the
   values before it) -- i.e. exactly for cycles and references to variables without a value *)
Theorem C04_deps_fails_iff : forall deps s,
  NoDup (dkeys deps) -> (forall d, In d (dkeys deps) -> sget s d = None) ->
  (eval_deps deps s = None <-> ~ exists o s1, Permutation o deps /\ seq_ok s o s1).
Proof. exact eval_deps_fails_iff. Qed.
Print Assumptions C04_deps_fails_iff.

(* non-vacuity: x2 := x1 + 1 substituted into x1*x2, and a chain d12 = d11 + 1, d11 = 2*x1 given in
   the "wrong" order; a cycle fails as a whole *)
Example C04_nonvacuous_subst :
  exists g, fn_substitute tiny_eps (FPoly [([1; 2]%N, 1)]) [(2%N, FLin {| l_terms := [(1%N, 1)]; l_const := 1 |})] = Some g
            /\ denote g (fun _ => qz 3) = qz 12.
Proof. eexists. split; vm_compute; reflexivity. Qed.
Example C04_nonvacuous_deps :
  let d11 := (11%N, FLin {| l_terms := [(1%N, qz 2)]; l_const := 0 |}) in
  let d12 := (12%N, FLin {| l_terms := [(11%N, 1)]; l_const := 1 |}) in
  (exists s', eval_deps [d11; d12] [(1%N, qz 5)] = Some s' /\ sget s' 12 = Some (qz 11)) /\
  eval_deps [(11%N, FLin (lin_single 12 1)); (12%N, FLin (lin_single 11 1))] [(1%N, qz 5)] = None.
Proof. split; [eexists; split; vm_compute; reflexivity|vm_compute; reflexivity]. Qed.
