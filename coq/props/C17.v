(* C17 — MPS files are read as the problem they describe.
   Property theorems only; each is closed by [exact] of a lemma of the development
   (model: theories/Mps.v, specification: theories/MpsSpec.v, proofs: theories/MpsProofs.v). *)
Require Import Ommx.Num Ommx.Poly Ommx.Msg Ommx.Tree Ommx.Mps Ommx.MpsSpec Ommx.MpsProofs Ommx.RunC17 Ommx.MpsRoundTrip.
From Coq Require Import String Ascii.
Open Scope string_scope.
Open Scope list_scope.

(* The row table, for all coefficients, right-hand sides and valuations: a row  a.x (=|<=|>=) b
   becomes a function g and an equality kind with  g(x) (=|<=) 0  <->  a.x (=|<=|>=) b. *)
Theorem C17_row : forall (rho : N -> num) ts b ty,
  let '(ts', c, eq) := convert_inequality ts b ty in
  let g := denote (mk_function ts' c) rho in
  let ax := valg rho ts in
  match ty with
  | RE => eq = 1%N /\ (g = 0 <-> ax = b)
  | RL => eq = 2%N /\ (g <= 0 <-> ax <= b)
  | RG => eq = 2%N /\ (g <= 0 <-> b <= ax)
  | RN => True
  end.
Proof. exact row_table. Qed.
Print Assumptions C17_row.

(* The RANGES table, for every row type, every b and every R <> 0: the type the ranged row keeps,
   the type and right-hand side of the generated row (the rule [range_rule] the reader applies)
   hold together exactly on  h <= a.x <= u  with [h, u] = [range_interval] of MpsSpec, whose width
   is |R|. *)
Theorem C17_ranges : forall ty b r ax, r <> 0 -> ty <> RN ->
  exists ty1 ty2 b2, range_rule ty b r = Some (ty1, ty2, b2) /\
    let '(h, u) := range_interval ty b r in
    ((sat ty1 b ax /\ sat ty2 b2 ax) <-> (h <= ax /\ ax <= u)) /\ u - h = qabs r /\ h < u.
Proof. exact ranges_table. Qed.
Print Assumptions C17_ranges.

(* [range_interval] is the textbook table (G: [b, b+|R|], L: [b-|R|, b], E: [b, b+R] or [b+R, b]) *)
Theorem C17_ranges_values : forall ty b r,
  range_interval ty b r =
  match ty with
  | RG => (b, b + qabs r)
  | RL => (b - qabs r, b)
  | RE => if qltb 0 r then (b, b + r) else (b + r, b)
  | RN => (b, b)
  end.
Proof. exact ranges_table_values. Qed.
Print Assumptions C17_ranges_values.

(* the two constraints of the specification for a ranged row mean  h <= a.x <= u *)
Theorem C17_ranges_meaning : forall (kv : string -> num) a h u,
  (valg kv (negv a) + h <= 0 /\ valg kv a + - u <= 0) <-> (h <= valg kv a /\ valg kv a <= u).
Proof. exact ranges_meaning. Qed.
Print Assumptions C17_ranges_meaning.

(* one RANGES entry (row, R), R <> 0, on a declared E / L / G row, as executed by the reader: the
   generated row copies the row's entries and gets the type and right-hand side of the rule of
   C17_ranges (computed from the row's current right-hand side, 0 if absent); the ranged row keeps /
   gets the type of the rule and leaves the equality set if it was an E row *)
Theorem C17_ranges_step : forall m row rg entries,
  let r := m_rows m in
  lookup row (r_a r) = Some entries -> rg <> 0 -> row_type r row <> RN ->
  exists ty1 ty2 b2 m',
    range_rule (row_type r row) (rhs_of (r_b r) row) rg = Some (ty1, ty2, b2) /\
    add_range m (row, rg) = Ok m' /\
    let new := fresh_row_name (S (S (List.length (r_a r)))) (r_a r) (m_obj m) (row +++ "_") in
    let r' := m_rows m' in
    lookup new (r_a r') = Some entries /\
    rhs_of (r_b r') new = b2 /\
    in_set ty2 new r' = true /\ in_set ty1 row r' = true /\
    (row_type r row = RE -> smem row (r_eq r') = false).
Proof. exact range_step. Qed.
Print Assumptions C17_ranges_step.

(* the comparator's test for equal linear forms (by names) is sound: equal value everywhere *)
Theorem C17_comparator_terms_sound : forall a b, nterms_eqb a b = true ->
  forall kv : string -> num, valg kv a = valg kv b.
Proof. exact nterms_eqb_sound. Qed.
Print Assumptions C17_comparator_terms_sound.

(* BOUNDS: for every sequence of bound statements (any keywords, any columns, any values, any
   interleaving) applied after COLUMNS, the bound and the kind the converted instance gives a
   declared column are the fold of the keyword table of MpsSpec over the statements naming that
   column: default [0, +inf), an upper bound <= 0 without a lower bound opens the lower bound,
   an integer column with range [0, 1] is binary. *)
Theorem C17_bounds : forall c bs x is_int,
  c_u c = [] -> c_l c = [] ->
  smem x (c_int c) = is_int -> smem x (c_bin c) = false -> smem x (c_real c) = negb is_int ->
  let c' := finish_cols (fold_left apply_bound bs c) in
  let s := col_fold x bs (cstate0 is_int) in
  get_dvar_bound c' x = eff_bounds s /\ get_dvar_kind c' x = kind_code (final_kind s).
Proof. exact bounds_fold. Qed.
Print Assumptions C17_bounds.

(* Objective: its value is the sum of the objective-row coefficients minus the RHS of the
   objective row (constant = - RHS); entries of the objective row become its coefficients;
   OBJSENSE gives the sense. *)
Theorem C17_objective : forall m ids ts,
  convert_terms ids (m_c m) = Ok ts ->
  exists f, convert_objective m ids = Ok f /\
    forall rho, denote f rho = valg rho ts - rhs_of (r_b (m_rows m)) (m_obj m).
Proof. exact objective_value. Qed.
Print Assumptions C17_objective.

Theorem C17_objective_entry : forall free col v q m,
  read_f64 v = Some (Fin q) ->
  exists m', add_coef free col (m_obj m, v) m = Ok m' /\
    lookup col (m_c m') = Some q /\ m_rows m' = m_rows m /\ m_obj m' = m_obj m.
Proof. exact objective_entry. Qed.
Print Assumptions C17_objective_entry.

Theorem C17_sense : forall m I, convert m = Ok I -> in_sense I = if m_max m then 2%N else 1%N.
Proof. exact sense_of_convert. Qed.
Print Assumptions C17_sense.

(* Errors: each class is reported with the offending word *)
Theorem C17_err_row_type : forall st line t name,
  p_cur st = CRows ->
  (t =? "N") = false -> (t =? "E") = false -> (t =? "G") = false -> (t =? "L") = false ->
  read_fields st line [t; name] = Err (EInvalidRowType t).
Proof. exact err_unknown_row_type. Qed.
Print Assumptions C17_err_row_type.

Theorem C17_err_bound_type : forall st line f0 rest,
  p_cur st = CBounds -> kw_of f0 = None ->
  read_fields st line (f0 :: rest) = Err (EInvalidBoundType f0).
Proof. exact err_unknown_bound_type. Qed.
Print Assumptions C17_err_bound_type.

Theorem C17_err_marker : forall st line f0 f2,
  p_cur st = CColumns -> (f2 =? "'INTORG'") = false -> (f2 =? "'INTEND'") = false ->
  read_fields st line [f0; "'MARKER'"; f2] = Err (EInvalidMarker f2).
Proof. exact err_bad_marker. Qed.
Print Assumptions C17_err_marker.

Theorem C17_err_sense_inline : forall st rest,
  strip_prefix "NAME" ("OBJSENSE" +++ rest) = None ->
  sempty (trim rest) = false ->
  (trim rest =? "MIN") = false -> (trim rest =? "MAX") = false ->
  read_header st ("OBJSENSE" +++ rest) = Err (EInvalidObjSense (trim rest)).
Proof. exact err_bad_sense_inline. Qed.
Print Assumptions C17_err_sense_inline.

Theorem C17_err_sense_line : forall st line w fs,
  p_done st = false -> p_wait st = true -> blank line = false ->
  first_is "*"%char line = false -> first_is " "%char line = true ->
  split_ws line = w :: fs -> (w =? "MIN") = false -> (w =? "MAX") = false ->
  step st line = Err (EInvalidObjSense w).
Proof. exact err_bad_sense_line. Qed.
Print Assumptions C17_err_sense_line.

Theorem C17_err_undeclared_row_columns : forall st line col row v q,
  p_cur st = CColumns -> (row =? "'MARKER'") = false ->
  read_f64 v = Some (Fin q) ->
  (row =? m_obj (p_mps st)) = false -> smem row (p_free st) = false ->
  lookup row (r_a (m_rows (p_mps st))) = None ->
  read_fields st line [col; row; v] = Err (EUnknownRowName row).
Proof. exact err_undeclared_row_columns. Qed.
Print Assumptions C17_err_undeclared_row_columns.

Theorem C17_err_undeclared_row_ranges : forall st line set row v q,
  p_cur st = CRanges -> read_f64 v = Some (Fin q) -> q <> 0 ->
  lookup row (r_a (m_rows (p_mps st))) = None ->
  read_fields st line [set; row; v] = Err (EUnknownRowName row).
Proof. exact err_undeclared_row_ranges. Qed.
Print Assumptions C17_err_undeclared_row_ranges.

Theorem C17_err_number_columns : forall st line col row v,
  p_cur st = CColumns -> (row =? "'MARKER'") = false -> read_f64 v = None ->
  read_fields st line [col; row; v] = Err (EParseFloat v).
Proof. exact err_number_columns. Qed.
Print Assumptions C17_err_number_columns.

Theorem C17_err_number_rhs : forall st line set row v,
  p_cur st = CRhs -> read_f64 v = None ->
  read_fields st line [set; row; v] = Err (EParseFloat v).
Proof. exact err_number_rhs. Qed.
Print Assumptions C17_err_number_rhs.

Theorem C17_err_number_ranges : forall st line set row v,
  p_cur st = CRanges -> read_f64 v = None ->
  read_fields st line [set; row; v] = Err (EParseFloat v).
Proof. exact err_number_ranges. Qed.
Print Assumptions C17_err_number_ranges.

Theorem C17_err_number_bounds : forall st line kw k set col v rest,
  p_cur st = CBounds -> kw_of kw = Some k -> kw_needs_value k = true -> read_f64 v = None ->
  read_fields st line (kw :: set :: col :: v :: rest) = Err (EParseFloat v).
Proof. exact err_number_bounds. Qed.
Print Assumptions C17_err_number_bounds.

Theorem C17_err_header : forall st line,
  strip_prefix "NAME" line = None -> strip_prefix "OBJSENSE" line = None ->
  (forall c, parse_cursor (trim line) <> Ok c) ->
  read_header st line = Err (EInvalidHeader (trim line)).
Proof. exact err_unknown_header. Qed.
Print Assumptions C17_err_header.

(* ---- non-vacuity: a model with every row type, both RANGES signs on E, a negative UP, FR, BV,
   a free row with an entry, a 5-field layout with comments / blank lines / OBJSENSE on its own
   line, rendered by [render] and read back by the reader model, is [meaning M] ---- *)
Definition ex_model : lp_model :=
  {| lp_name := "demo"; lp_sense := Some true; lp_objrow := "COST"; lp_objconst := qz 3;
     lp_rows := [ {| sr_name := "e1"; sr_ty := RE; sr_rhs := Some (qz 4); sr_range := Some (qz (-2)) |};
                  {| sr_name := "e2"; sr_ty := RE; sr_rhs := Some (qz 1); sr_range := Some (qz 2) |};
                  {| sr_name := "g1"; sr_ty := RG; sr_rhs := Some (qz 1); sr_range := None |};
                  {| sr_name := "l1"; sr_ty := RL; sr_rhs := None; sr_range := Some (qz 5) |};
                  {| sr_name := "free"; sr_ty := RN; sr_rhs := None; sr_range := None |} ];
     lp_cols := [ {| sc_name := "x"; sc_int := false;
                     sc_coefs := [("COST", qz 1); ("e1", qz 2); ("g1", qz (-1)); ("free", qz 9)] |};
                  {| sc_name := "y"; sc_int := true;
                     sc_coefs := [("e1", qz 1); ("e2", qz 1); ("l1", qz 3)] |};
                  {| sc_name := "z"; sc_int := false; sc_coefs := [("COST", qz (-2)); ("l1", qz 1)] |} ];
     lp_bounds := [ {| b_kw := UP; b_col := "x"; b_val := Fin (qz (-4)) |};
                    {| b_kw := UP; b_col := "y"; b_val := Fin (qz 1) |};
                    {| b_kw := FR; b_col := "z"; b_val := Fin 0 |} ] |}.
Definition ex_layout : layout :=
  {| ly_five := true; ly_comments := true; ly_blanks := true; ly_inline := false; ly_tabs := false |}.

Example C17_nonvacuous :
  match load_lines (render ex_layout ex_model) with
  | Ok J =>
      match_spec J (meaning ex_model) = None /\
      List.length (in_cons J) = 7%nat /\
      map dv_kind (in_dvars J) = [3; 1; 3]%N /\
      map dv_bound (in_dvars J) =
        [Some (NInf, Fin (qz (-4))); Some (Fin 0, Fin 1); Some (NInf, PInf)]
  | Err _ => False
  end.
Proof. vm_compute. repeat split; reflexivity. Qed.

(* reading as a theorem (Tier B): for EVERY well-formed abstract MPS model (token names, distinct row
   and column names, declared rows, non-empty columns without repeated rows, RANGES on E/L/G rows
   with R <> 0, canonical OMMX id tags, no NaN bound, every number a terminating decimal of fewer
   than 64 fractional digits) rendered under EVERY layout (3- or 5-field lines, tabs, comments,
   blank lines, OBJSENSE inline or on its own line), the reader model loads the text and the loaded
   instance is the problem [meaning M] by names: sense, variables (names, kinds, bounds, distinct
   ids), objective terms and constant, constraints (row table incl. the RANGES rows), problem name
   -- in the propositional form [represents] and in the form of the comparator the correspondence
   uses ([match_spec ... = None]).  No assumption on the number printer / parser remains. *)
Theorem C17_load_render : forall ly M, wf_model_dec M = true ->
  exists I, load_lines (render ly M) = Ok I /\ represents I (meaning M).
Proof. exact load_render_represents_decimal. Qed.
Print Assumptions C17_load_render.

Theorem C17_load_render_comparator : forall ly M, wf_model_dec M = true ->
  exists I, load_lines (render ly M) = Ok I /\ match_spec I (meaning M) = None.
Proof. exact load_render_match_spec_decimal. Qed.
Print Assumptions C17_load_render_comparator.

Example C17_load_render_nonvacuous : wf_model_dec MpsRoundTrip.ex_model = true /\ wf_model_dec ex_model_tagged = true.
Proof. split; [exact ex_model_wf_dec|exact ex_model_tagged_wf_dec]. Qed.

(* the comparator is not vacuous either: a wrong sign on the G row is detected *)
Example C17_comparator_detects :
  let M' := {| lp_name := lp_name ex_model; lp_sense := lp_sense ex_model;
               lp_objrow := lp_objrow ex_model; lp_objconst := lp_objconst ex_model;
               lp_rows := map (fun r => if sr_name r =? "g1"
                                        then {| sr_name := "g1"; sr_ty := RL; sr_rhs := sr_rhs r;
                                                sr_range := None |} else r) (lp_rows ex_model);
               lp_cols := lp_cols ex_model; lp_bounds := lp_bounds ex_model |} in
  match load_lines (render ex_layout ex_model) with
  | Ok J => match_spec J (meaning M') <> None
  | Err _ => False
  end.
Proof. vm_compute. discriminate. Qed.

Example C17_error_nonvacuous :
  load_lines ["NAME t"; "ROWS"; " N obj"; " L r1"; "COLUMNS"; " x obj 1 nosuch 2"; "ENDATA"]
  = Err (EUnknownRowName "nosuch").
Proof. vm_compute. reflexivity. Qed.


(* ---------------------------------------------------------------------------------------------
   EVERY instance the reader returns is VALID in the sense of C08 (LoadWf.v): distinct variable ids,
   distinct constraint ids, every used id defined.  On the pinned tree this was FALSE: parse_id_tag
   accepted `OMMX_VAR_01` / `OMMX_CONSTR_+7`, so two distinct names could recover the same id (the
   texts of mps_dup_vars_regression / mps_dup_cons_regression loaded with ids [1;1] / [7;7] and failed
   Instance::validate); repaired in /repo by "fix: MPS id tags must be the canonical decimal rendering". *)
Require Import Ommx.LoadWf.
Theorem C17_loaded_instance_valid : forall lines R, load_lines lines = Ok R ->
  MpsWf.inst_wf R /\ Validate.validate (MpsWf.to_instance R) = true.
Proof. intros lines R H. split; [exact (MpsWf.mps_load_wf_all lines R H)|exact (MpsWf.mps_load_valid_all lines R H)]. Qed.
Print Assumptions C17_loaded_instance_valid.
Check MpsWf.mps_dup_vars_regression.
Check MpsWf.mps_dup_cons_regression.
Check MpsWf.mps_tag_examples.
Print Assumptions MpsWf.mps_dup_vars_regression.
