(* C16 — interval bounds enclose every attainable value.
   Property theorems only; each is closed by [exact] of a lemma of the development
   (coq/theories/Bound{Proofs,Mul,Pow,Eval,Content}.v about the model coq/theories/Bound.v).

   Reading guide: [valid X] is the invariant of the Rust type (`Bound::new` accepts the
   endpoints: no NaN, lower <> +inf, upper <> -inf, lower <= upper); [bmem x X = true] says the
   rational point x lies in X; every operation returns an [option] where [None] models the
   `unwrap()` panic on an invalid interval — so "exists Z, op .. = Some Z /\ valid Z" is "no
   panic, no invalid interval".  All shapes (finite, half-infinite, whole line, degenerate,
   sign-crossing) are covered: X and Y range over all valid bounds.

   Not modelled (DESIGN 3.4): rounding of f64 endpoint arithmetic (endpoints are exact
   rationals; the code does not round outward), `as u8` truncation of exponents above 255,
   Rational64::approximate_float and the i64 overflow error in content_factor. *)
Require Import Ommx.Num Ommx.Poly Ommx.Msg Ommx.Tree Ommx.Eval Ommx.Inst Ommx.InstProofs Ommx.InstTotal Ommx.Slack.
Require Import Ommx.Bound Ommx.BoundProofs Ommx.BoundMul
  Ommx.BoundPow Ommx.BoundContent Ommx.BoundEval Ommx.RunC16 Ommx.BoundInst.
From Coq Require Import String.

(* Bound::new accepts exactly the valid shapes, and what it returns satisfies the invariant *)
Theorem C16_new : forall l u Z, bnew l u = Some Z ->
  Z = {| lower := l; upper := u |} /\ valid Z.
Proof. exact bnew_spec. Qed.
Print Assumptions C16_new.

(* interval sum *)
Theorem C16_add : forall X Y x y,
  valid X -> valid Y -> bmem x X = true -> bmem y Y = true ->
  exists Z, badd X Y = Some Z /\ valid Z /\ bmem (x + y) Z = true.
Proof. exact badd_sound. Qed.
Print Assumptions C16_add.

Theorem C16_add_scalar : forall X c x,
  valid X -> bmem x X = true ->
  exists Z, badd_scalar X (Fin c) = Some Z /\ valid Z /\ bmem (x + c) Z = true.
Proof. exact badd_scalar_sound. Qed.
Print Assumptions C16_add_scalar.

(* interval product: zero shortcut, 0 * inf = NaN products, NaN-ignoring min/max *)
Theorem C16_mul : forall X Y x y,
  valid X -> valid Y -> bmem x X = true -> bmem y Y = true ->
  exists Z, bmul X Y = Some Z /\ valid Z /\ bmem (x * y) Z = true.
Proof. exact bmul_sound. Qed.
Print Assumptions C16_mul.

(* integer power, every exponent n : nat *)
Theorem C16_pow : forall X n x,
  valid X -> bmem x X = true ->
  exists Z, bpow X n = Some Z /\ valid Z /\ bmem (x ^ n) Z = true.
Proof. exact bpow_sound. Qed.
Print Assumptions C16_pow.

(* scaling by a non-zero number *)
Theorem C16_scale : forall X k x,
  valid X -> k <> 0 -> bmem x X = true ->
  exists Z, bscale X (Fin k) = Some Z /\ valid Z /\ bmem (k * x) Z = true.
Proof. exact bscale_sound. Qed.
Print Assumptions C16_scale.

(* evaluate_bound: for every box of valid bounds (a missing variable is the whole line) and
   every valuation inside the box, the call does not panic on a well-shaped message, returns
   a valid interval, and that interval contains the value of the function *)
Theorem C16_function : forall f bs rho,
  valid_box bs -> in_box rho bs -> iter_ok f ->
  exists B, evaluate_bound f bs = Some B /\ valid B /\ bmem (denote f rho) B = true.
Proof. exact evaluate_bound_sound. Qed.
Print Assumptions C16_function.

(* ... and whatever evaluate_bound returns is an enclosure *)
Theorem C16_function_encloses : forall f bs rho B,
  valid_box bs -> in_box rho bs -> evaluate_bound f bs = Some B ->
  valid B /\ bmem (denote f rho) B = true.
Proof. exact evaluate_bound_encloses. Qed.
Print Assumptions C16_function_encloses.

(* rounding an interval that contains an integer to integer endpoints keeps every integer *)
Theorem C16_integer : forall X z,
  valid X -> bmem (qz z) X = true ->
  exists R, as_integer_bound X = Some R /\ valid R /\
    forall w : Z, bmem (qz w) X = true -> bmem (qz w) R = true.
Proof. exact as_integer_bound_sound. Qed.
Print Assumptions C16_integer.

(* content factor: positive, makes every coefficient of the message integral, is 1 for the
   zero function, and divides (hence is not above) every positive rational multiplier that
   makes all coefficients integral *)
Theorem C16_content : forall f a, content_factor f = Some a ->
  0 < a /\
  (forall c, coeff_of f c -> is_int (a * c)) /\
  ((forall c, coeff_of f c -> c = 0) -> a = 1) /\
  (forall a', (exists c, coeff_of f c /\ c <> 0) -> 0 < a' ->
     (forall c, coeff_of f c -> is_int (a' * c)) ->
     (exists k : Z, (0 < k)%Z /\ a' = qz k * a) /\ a <= a').
Proof. exact content_factor_sound. Qed.
Print Assumptions C16_content.

Theorem C16_content_total : forall f, iter_ok f -> exists a, content_factor f = Some a.
Proof. exact content_factor_total. Qed.
Print Assumptions C16_content_total.

(* contains with an absolute tolerance: members are accepted for every atol >= 0, atol = 0 is
   exact membership, and on finite data it means lower - atol <= v <= upper + atol *)
Theorem C16_contains : forall X v a,
  (bmem v X = true -> 0 <= a -> bcontains X (Fin v) (Fin a) = true) /\
  bcontains X (Fin v) (Fin 0) = bmem v X.
Proof. exact bcontains_spec. Qed.
Print Assumptions C16_contains.

Theorem C16_contains_finite : forall l u v a,
  bcontains {| lower := Fin l; upper := Fin u |} (Fin v) (Fin a) = true <->
  l - a <= v /\ v <= u + a.
Proof. exact bcontains_finite. Qed.
Print Assumptions C16_contains_finite.

(* nearest_to_zero is a point of the interval of least absolute value *)
Theorem C16_nearest_to_zero : forall X, valid X ->
  exists v, nearest_to_zero X = Fin v /\ bmem v X = true /\
    forall x, bmem x X = true -> qabs v <= qabs x.
Proof. exact nearest_to_zero_sound. Qed.
Print Assumptions C16_nearest_to_zero.

(* intersection: contains exactly the common points (None = empty) *)
Theorem C16_intersection : forall X Y x,
  valid X -> valid Y -> bmem x X = true -> bmem x Y = true ->
  exists Z, bintersection X Y = Some Z /\ valid Z /\ bmem x Z = true.
Proof. exact bintersection_sound. Qed.
Print Assumptions C16_intersection.

Theorem C16_intersection_inside : forall X Y Z x,
  valid X -> valid Y -> bintersection X Y = Some Z -> bmem x Z = true ->
  bmem x X = true /\ bmem x Y = true.
Proof. exact bintersection_inside. Qed.
Print Assumptions C16_intersection_inside.

(* the comparator of the correspondence check is sound on the exact stream *)
Theorem C16_comparator_sound : forall op Z pts p tags,
  judge_bound op true (Some Z) pts (L [A "ok"%string; p]) = agree tags ->
  exists l u, d_endpoints p = Some (l, u) /\
    validb {| lower := l; upper := u |} = true /\
    ext_same l (lower Z) = true /\ ext_same u (upper Z) = true /\
    forallb (fun v => bmem v {| lower := l; upper := u |}) pts = true.
Proof. exact judge_bound_exact_sound. Qed.
Print Assumptions C16_comparator_sound.

(* ---- non-vacuity ---- *)
Definition mk (l u : ext) : bound := {| lower := l; upper := u |}.

(* [0, 3] x (-inf, +inf): products 0*(-inf) and 0*(+inf) are NaN and ignored by min/max *)
Example C16_mul_nonvacuous :
  valid (mk (Fin 0) (Fin (qz 3))) /\ valid bwhole /\
  bmul (mk (Fin 0) (Fin (qz 3))) bwhole = Some bwhole /\
  bmul bzero bwhole = Some bzero /\
  bmul (mk (Fin (qz (-2))) (Fin (qz 3))) (mk NInf (Fin (qz (-1)))) = Some bwhole /\
  bmul (mk (Fin (qz 2)) (Fin (qz 3))) (mk NInf (Fin (qz (-1)))) = Some (mk NInf (Fin (qz (-2)))).
Proof. vm_compute. repeat split; reflexivity. Qed.

(* sign-crossing base: even power starts at 0, odd power keeps the sign; x^0 on it is [0,1] *)
Example C16_pow_nonvacuous :
  bpow (mk (Fin (qz (-2))) (Fin (qz 3))) 2 = Some (mk (Fin 0) (Fin (qz 9))) /\
  bpow (mk (Fin (qz (-2))) (Fin (qz 3))) 3 = Some (mk (Fin (qz (-8))) (Fin (qz 27))) /\
  bpow (mk NInf (Fin (qz (-2)))) 4 = Some (mk (Fin (qz 16)) PInf) /\
  bpow (mk (Fin (qz (-2))) (Fin (qz 3))) 0 = Some (mk (Fin 0) (Fin 1)).
Proof. vm_compute. repeat split; reflexivity. Qed.

(* the hypothesis k <> 0 of C16_scale is needed: 0 * [0, +inf) has a NaN endpoint (the code
   panics); and as_integer_bound panics when the interval holds no integer *)
Example C16_hypotheses_needed :
  bscale (mk (Fin 0) PInf) (Fin 0) = None /\
  as_integer_bound (mk (Fin (Q2Qc (1 # 4))) (Fin (Q2Qc (3 # 4)))) = None.
Proof. vm_compute. split; reflexivity. Qed.

(* 2*x1*x1*x2 - x3 + 1/2 on x1 in [-1,2], x2 in [0,3], x3 missing (whole line) is the whole
   line; with x3 in [1,1] it is [-1/2, 47/2] *)
Example C16_function_nonvacuous :
  let f := FPoly [([1; 2; 1]%N, qz 2); ([3]%N, qz (-1)); ([], Q2Qc (1 # 2)); ([2]%N, 0)] in
  let b12 := [(1%N, mk (Fin (qz (-1))) (Fin (qz 2))); (2%N, mk (Fin 0) (Fin (qz 3)))] in
  evaluate_bound f b12 = Some bwhole /\
  evaluate_bound f ((3%N, mk (Fin 1) (Fin 1)) :: b12)
    = Some (mk (Fin (Q2Qc (-1 # 2))) (Fin (Q2Qc (47 # 2)))).
Proof. vm_compute. split; reflexivity. Qed.

(* coefficients 3/4, -5/6, 0: lcm(4,6)/gcd(3,5) = 12; as_integer_bound of [0.3, 2.7] = [1, 2] *)
Example C16_content_integer_nonvacuous :
  content_factor (FLin {| l_terms := [(1%N, Q2Qc (3 # 4)); (2%N, Q2Qc (-5 # 6))]; l_const := 0 |})
    = Some (qz 12) /\
  content_factor (FConst 0) = Some 1 /\
  as_integer_bound (mk (Fin (Q2Qc (3 # 10))) (Fin (Q2Qc (27 # 10)))) = Some (mk (Fin (qz 1)) (Fin (qz 2))).
Proof. vm_compute. repeat split; reflexivity. Qed.


(* ---------------------------------------------------------------------------------------------
   INSTANCE LEVEL (BoundInst.v): the intervals against Instance::evaluate.  bs is the box the SDK
   derives from the decision variables (absent bound = whole line, [0,1] for binaries, the last
   declaration of an id wins).  For every accepted state, every active and removed constraint record
   reports the function's value at the state, and that value lies in evaluate_bound f bs as soon as
   the variables OCCURRING in f are exactly within their bounds (the evaluator itself accepts 1e-7
   outside: then the value lies in the interval over the box widened by 1e-7, for every function; for
   linear functions in the interval widened by 1e-7 * sum |coefficient|); likewise the objective.
   Decisions the slack conversions rely on: upper B <= 0  =>  the record of f <= 0 holds at every such
   state; lower B > 0 => f(x) > 0; lower B >= 1e-6 => the feasibility flag is false (the margin is
   needed: the flag tolerates 1e-6, see never_needs_margin). *)
Theorem C16_evaluated_in_bounds : forall I x sol bs,
  box_of (i_dvs I) [] = Some bs -> inst_eval I x = Some sol ->
  exists ea er, so_evaluated sol = ea ++ er /\
    Forall2 (fun c e => record_in_bound I bs x None c e) (i_cs I) ea /\
    Forall2 (fun r e => exists c, r_c r = Some c /\
               record_in_bound I bs x (Some (r_reason r, r_params r)) c e) (i_rs I) er /\
    (so_feasible_relaxed sol = true <-> Forall holds ea) /\
    (so_feasible sol = true <-> Forall holds (ea ++ er)) /\
    so_objective sol = denote (fn_or_zero (i_obj I)) (total x) /\
    (fn_exact (i_dvs I) x (fn_or_zero (i_obj I)) ->
     encl bs (fn_or_zero (i_obj I)) (so_objective sol)).
Proof. exact evaluated_values_in_bounds. Qed.
Print Assumptions C16_evaluated_in_bounds.

Theorem C16_evaluated_in_widened_bounds : forall I x sol bs,
  box_of (i_dvs I) [] = Some bs -> inst_eval I x = Some sol ->
  exists ea er, so_evaluated sol = ea ++ er /\
    Forall2 (fun c e => record_in_wide_bound bs x None c e) (i_cs I) ea /\
    Forall2 (fun r e => exists c, r_c r = Some c /\
               record_in_wide_bound bs x (Some (r_reason r, r_params r)) c e) (i_rs I) er /\
    encl (widen tol7 bs) (fn_or_zero (i_obj I)) (so_objective sol).
Proof. exact evaluated_values_in_widened_bounds. Qed.
Print Assumptions C16_evaluated_in_widened_bounds.

Theorem C16_always_satisfied : forall I x sol bs c B,
  box_of (i_dvs I) [] = Some bs -> inst_eval I x = Some sol ->
  In c (all_constrs I) -> fn_exact (i_dvs I) x (cfun c) ->
  evaluate_bound (cfun c) bs = Some B -> ext_le0 (upper B) = true -> c_eq c = LE_ZERO ->
  cval c x <= 0 /\ c_holds c x /\ (forall e, rec_of x c e -> holds e).
Proof. exact always_satisfied. Qed.
Print Assumptions C16_always_satisfied.

Theorem C16_never_feasible : forall I x sol bs c B,
  box_of (i_dvs I) [] = Some bs -> inst_eval I x = Some sol ->
  In c (all_constrs I) -> fn_exact (i_dvs I) x (cfun c) ->
  evaluate_bound (cfun c) bs = Some B -> eleb (Fin tol6) (lower B) = true ->
  ~ c_holds c x /\ so_feasible sol = false /\
  (In c (i_cs I) -> so_feasible_relaxed sol = false).
Proof. exact never_feasible. Qed.
Print Assumptions C16_never_feasible.
Check never_satisfied.
Check linear_value_in_widened_interval.
Check reported_state_in_box.
Check never_needs_margin.
Check evaluated_values_in_bounds_nonvacuous.
Print Assumptions evaluated_values_in_bounds_nonvacuous.
