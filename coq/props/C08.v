(* C08 — validation accepts exactly the well-formed instances; typed view keeps content. *)
Require Import Ommx.Num Ommx.Poly Ommx.Msg Ommx.Eval Ommx.Tree Ommx.Inst Ommx.Relax Ommx.Transform
        Ommx.Validate Ommx.ValidateProofs Ommx.ValidateErrors.
From Coq Require Import String.
Close Scope string_scope. Open Scope list_scope.

(* Instance::validate succeeds exactly when decision-variable ids are unique, constraint ids are
   unique across active and removed constraints, and every variable used in the objective,
   constraints or removed constraints is defined *)
Theorem C08_validate_iff : forall I, validate I = true <->
  NoDup (map dv_id (i_dvs I)) /\ NoDup (map c_id (all_constrs I)) /\
  (forall i, In i (inst_used I) -> In i (map dv_id (i_dvs I))).
Proof. exact validate_iff. Qed.
Print Assumptions C08_validate_iff.

(* parametric: variable and parameter ids jointly unique and covering the ids used by the
   objective and the ACTIVE constraints; constraint ids unique across both lists *)
Theorem C08_pvalidate_iff : forall P, pvalidate P = true <->
  NoDup (map dv_id (p_dvs P) ++ map pa_id (p_params P)) /\
  (forall i, In i (fn_used (fn_or_zero (p_obj P)) ++ flat_map constr_used (p_cs P)) ->
             In i (map dv_id (p_dvs P) ++ map pa_id (p_params P))) /\
  NoDup (map c_id (p_cs P ++ removed_constrs (p_rs P))).
Proof. exact pvalidate_iff. Qed.
Print Assumptions C08_pvalidate_iff.

(* the typed view accepts exactly the messages with: specified sense; specified kinds and valid
   bounds; unique variable ids; a present, supported objective over defined variables; for every
   active and removed constraint a specified equality and a present, supported function over
   defined variables; removed entries carrying a constraint; constraint ids unique across both
   lists; dependency keys defined with supported functions; hints referring to defined,
   non-repeated ids.  In particular it never rejects a well-formed message. *)
Theorem C08_parse_iff : forall I h, parse_instance I h = None <-> wf_typed I h.
Proof. exact parse_instance_iff. Qed.
Print Assumptions C08_parse_iff.

(* content: an unspecified bound means unbounded, [0,1] for binaries *)
Theorem C08_content_bound : forall v, dv_bound v = None ->
  dv_bound_of v = Some (if (dv_kind v =? KIND_BINARY)%Z then (Fin 0, Fin 1) else (NInf, PInf)).
Proof.
  intros v H. unfold dv_bound_of. rewrite H. destruct (dv_kind v =? KIND_BINARY)%Z; reflexivity.
Qed.
Print Assumptions C08_content_bound.

(* "reports the violated rule with the path to the offending field": every error the typed
   conversion may report names a rule that really is violated, at a place that really is on the
   reported path ([violated] is a declarative statement about the message: membership and
   counting facts, independent of the order of checks); and order-free completeness: a message is
   rejected exactly when some rule is violated somewhere *)
Theorem C08_reported_errors_sound : forall I h errs,
  parse_instance I h = Some errs -> errs <> [] /\ forall e, In e errs -> violated I h e.
Proof. exact parse_instance_sound. Qed.
Print Assumptions C08_reported_errors_sound.
Theorem C08_rejected_iff_violated : forall I h, parse_instance I h <> None <-> exists e, violated I h e.
Proof. exact rejected_iff_violated. Qed.
Print Assumptions C08_rejected_iff_violated.

Example C08_nonvacuous :
  let v k := {| dv_id := k; dv_kind := 3; dv_bound := None; dv_subst := None; dv_meta := [] |} in
  let c := {| c_id := 4; c_eq := 2; c_fn := Some (FLin (Arith.lin_single 9 1)); c_meta := [] |} in
  let I := {| i_sense := 1; i_obj := Some (FConst 0); i_dvs := [v 1%N; v 2%N]; i_cs := [c]; i_rs := [];
              i_deps := []; i_params := None; i_hints := L []; i_desc := L [] |} in
  validate I = false /\
  parse_instance I None = Some [(EUndefVar 9, [(M_INSTANCE, "constraints"%string)])] /\
  parse_instance (set_lists I [] []) None = None.
Proof. vm_compute. repeat split. Qed.
