(* C08 — validation accepts exactly the well-formed instances; typed view keeps content. *)
Require Import Ommx.Num Ommx.Poly Ommx.Msg Ommx.Eval Ommx.Tree Ommx.Inst Ommx.Relax Ommx.Transform
        Ommx.Validate Ommx.ValidateProofs Ommx.ValidateErrors.
From Coq Require Import String.
Close Scope string_scope. Open Scope list_scope.

(* Instance::validate succeeds exactly when decision-variable ids are unique, constraint ids are
   unique across active and removed constraints, and every variable used in the objective,
   constraints or removed constraints is defined *)
Theorem C08_validate_iff : forall I, validate I = true <->
  NoDup (map dv_id (i_dvs I)) /\ NoDup (map c_id (all_constrs I)) /\
  (forall i, In i (inst_used I) -> In i (map dv_id (i_dvs I))).
Proof. exact validate_iff. Qed.
Print Assumptions C08_validate_iff.

(* parametric: variable and parameter ids jointly unique and covering the ids used by the
   objective and the ACTIVE constraints; constraint ids unique across both lists *)
Theorem C08_pvalidate_iff : forall P, pvalidate P = true <->
  NoDup (map dv_id (p_dvs P) ++ map pa_id (p_params P)) /\
  (forall i, In i (fn_used (fn_or_zero (p_obj P)) ++ flat_map constr_used (p_cs P)) ->
             In i (map dv_id (p_dvs P) ++ map pa_id (p_params P))) /\
  NoDup (map c_id (p_cs P ++ removed_constrs (p_rs P))).
Proof. exact pvalidate_iff. Qed.
Print Assumptions C08_pvalidate_iff.

(* the typed view accepts exactly the messages with: specified sense; specified kinds and valid
   bounds; unique variable ids; a present, supported objective over defined variables; for every
   active and removed constraint a specified equality and a present, supported function over
   defined variables; removed entries carrying a constraint; constraint ids unique across both
   lists; dependency keys defined with supported functions; hints referring to defined,
   non-repeated ids.  In particular it never rejects a well-formed message. *)
Theorem C08_parse_iff : forall I h, parse_instance I h = None <-> wf_typed I h.
Proof. exact parse_instance_iff. Qed.
Print Assumptions C08_parse_iff.

(* content: an unspecified bound means unbounded, [0,1] for binaries *)
Theorem C08_content_bound : forall v, dv_bound v = None ->
  dv_bound_of v = Some (if (dv_kind v =? KIND_BINARY)%Z then (Fin 0, Fin 1) else (NInf, PInf)).
Proof.
  intros v H. unfold dv_bound_of. rewrite H. destruct (dv_kind v =? KIND_BINARY)%Z; reflexivity.
Qed.
Print Assumptions C08_content_bound.

(* "reports the violated rule with the path to the offending field": every error the typed
   conversion may report names a rule that really is violated, at a place that really is on the
   reported path ([violated] is a declarative statement about the message: membership and
   counting facts, independent of the order of checks); and order-free completeness: a message is
   rejected exactly when some rule is violated somewhere *)
Theorem C08_reported_errors_sound : forall I h errs,
  parse_instance I h = Some errs -> errs <> [] /\ forall e, In e errs -> violated I h e.
Proof. exact parse_instance_sound. Qed.
Print Assumptions C08_reported_errors_sound.
Theorem C08_rejected_iff_violated : forall I h, parse_instance I h <> None <-> exists e, violated I h e.
Proof. exact rejected_iff_violated. Qed.
Print Assumptions C08_rejected_iff_violated.

Example C08_nonvacuous :
  let v k := {| dv_id := k; dv_kind := 3; dv_bound := None; dv_subst := None; dv_meta := [] |} in
  let c := {| c_id := 4; c_eq := 2; c_fn := Some (FLin (Arith.lin_single 9 1)); c_meta := [] |} in
  let I := {| i_sense := 1; i_obj := Some (FConst 0); i_dvs := [v 1%N; v 2%N]; i_cs := [c]; i_rs := [];
              i_deps := []; i_params := None; i_hints := L []; i_desc := L [] |} in
  validate I = false /\
  parse_instance I None = Some [(EUndefVar 9, [(M_INSTANCE, "constraints"%string)])] /\
  parse_instance (set_lists I [] []) None = None.
Proof. vm_compute. repeat split. Qed.


(* ---------------------------------------------------------------------------------------------
   VALIDITY IS PRESERVED by every transformation of the SDK (WfPreserve.v), for an arbitrary dropping
   test: a valid instance stays valid under relax / restore (and any history of them),
   as_minimization, partial evaluation, both penalty methods (parametric validity) followed by
   with_parameters, Instance -> ParametricInstance, substitution (when the replacements of USED
   variables mention defined ids only), log_encode (+ registration of the binaries, + substitution of
   the encoding) and both integer-slack conversions.  with_parameters needs the removed constraints
   of the parametric instance to mention decision variables only (they are copied, not instantiated:
   with_parameters_removed_refuted is the counterexample); this holds after the penalty methods. *)
Require Import Ommx.Bound Ommx.Arith Ommx.PEval Ommx.PEvalInst Ommx.Subst Ommx.Slack Ommx.LogEncPath Ommx.WfPreserve.
Theorem C08_preserved_relax : forall I id reason params J,
  validate I = true -> relax I id reason params = Some J -> validate J = true.
Proof. exact relax_preserves_validity. Qed.
Print Assumptions C08_preserved_relax.
Theorem C08_preserved_restore : forall I id J,
  validate I = true -> restore I id = Some J -> validate J = true.
Proof. exact restore_preserves_validity. Qed.
Print Assumptions C08_preserved_restore.
Theorem C08_preserved_as_min : forall tiny I J,
  validate I = true -> as_min tiny I = Some J -> validate J = true.
Proof. exact as_min_preserves_validity. Qed.
Print Assumptions C08_preserved_as_min.
Theorem C08_preserved_partial_evaluate : forall tiny I s J u,
  validate I = true -> inst_pe tiny I s = Some (J, u) -> validate J = true.
Proof. exact inst_pe_preserves_validity. Qed.
Print Assumptions C08_preserved_partial_evaluate.
Theorem C08_preserved_penalty : forall tiny I P,
  validate I = true -> penalty tiny I = Some P -> pvalidate P = true.
Proof. exact penalty_preserves_validity. Qed.
Print Assumptions C08_preserved_penalty.
Theorem C08_preserved_uniform_penalty : forall tiny I P,
  validate I = true -> uniform_penalty tiny I = Some P -> pvalidate P = true.
Proof. exact uniform_penalty_preserves_validity. Qed.
Print Assumptions C08_preserved_uniform_penalty.
Theorem C08_preserved_with_parameters : forall tiny P theta J,
  pvalidate P = true -> removed_defined P ->
  with_parameters tiny P theta = Some J -> validate J = true.
Proof. exact with_parameters_preserves_validity. Qed.
Print Assumptions C08_preserved_with_parameters.
Theorem C08_preserved_penalty_with_parameters : forall tiny I P theta J,
  validate I = true -> penalty tiny I = Some P -> with_parameters tiny P theta = Some J -> validate J = true.
Proof. exact penalty_with_parameters_valid. Qed.
Print Assumptions C08_preserved_penalty_with_parameters.
Theorem C08_preserved_of_instance : forall I, validate I = true -> pvalidate (of_instance I) = true.
Proof. exact of_instance_preserves_validity. Qed.
Print Assumptions C08_preserved_of_instance.
Theorem C08_preserved_substitute : forall tiny I R J,
  validate I = true -> repl_defined I R -> inst_substitute tiny I R = Some J -> validate J = true.
Proof. exact inst_substitute_preserves_validity. Qed.
Print Assumptions C08_preserved_substitute.
Theorem C08_preserved_log_encode : forall tiny I id E bits J,
  validate I = true -> log_encode tiny I id = inr (E, bits) ->
  validate (add_dvs I bits) = true /\
  (inst_substitute tiny (add_dvs I bits) [(id, FLin E)] = Some J -> validate J = true).
Proof. intros tiny I id E bits J V L. split; [exact (log_encode_add_dvs_valid tiny I id E bits V L)|exact (log_encode_substitute_valid tiny I id E bits J V L)]. Qed.
Print Assumptions C08_preserved_log_encode.
Theorem C08_preserved_convert_slack : forall tiny I cid max_range J,
  validate I = true -> convert_slack tiny I cid max_range = inr J -> validate J = true.
Proof. exact convert_slack_preserves_validity. Qed.
Print Assumptions C08_preserved_convert_slack.
Theorem C08_preserved_add_slack : forall tiny I cid Ub J b,
  validate I = true -> add_slack tiny I cid Ub = inr (J, b) -> validate J = true.
Proof. exact add_slack_preserves_validity. Qed.
Print Assumptions C08_preserved_add_slack.
Check with_parameters_removed_refuted.
Check substitute_undefined_refuted.
Check pipeline_by_theorems.
Print Assumptions pipeline_by_theorems.
