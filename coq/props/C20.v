(* C20 — artifacts return what was stored in them.
   Property theorems only, about the list model of Builder / Artifact in theories/Artifact.v.
   PARTIAL by construction: the bytes on disk (tar, JSON manifest, sha256, protobuf, RFC3339)
   are not modelled; [digest], [size], [decode], [render_time], [parse_time] are arbitrary
   functions, constrained only by the hypotheses written in each statement:
     inj_on digest (stored blobs)   the digest separates the blobs stored in this archive
     wf_op decode o                 the stored blob decodes to the stored message (C07 round trip)
     parse_time (render_time t) = Some t
   The correspondence check (tools/props/c20.py) exhibits the real bytes on every case. *)
Require Import Ommx.Artifact Ommx.Tree Ommx.RunC20.
From Coq Require Import List String NArith.
Import ListNotations.
Open Scope string_scope.
Open Scope list_scope.

Section Statements.
  Context {blob msg dg time : Type}.
  Implicit Types (digest : blob -> dg) (size : blob -> N) (dg_eqb : dg -> dg -> bool)
    (decode : kind -> blob -> option msg) (empty_json : blob) (ops : list (op blob msg)).

  (* layers come back in insertion order, each under the media type of its kind, with the digest
     and size of its blob and the annotations handed to add_* *)
  Theorem C20_layers : forall digest size empty_json ops,
    a_layers (build digest size empty_json ops) = map (layer_of digest size) ops.
  Proof. exact (@layers_in_order blob msg dg). Qed.

  (* first occurrence of a blob: its own getter returns message and annotations, every other
     getter fails on the media type *)
  Theorem C20_get_first : forall digest size dg_eqb,
    (forall x y, dg_eqb x y = true <-> x = y) ->
    forall decode empty_json (pre : list (op blob msg)) o post k,
    let ops := pre ++ o :: post in
    inj_on digest (stored_blobs empty_json ops) -> wf_op decode o ->
    (forall o', In o' pre -> o_blob o' <> o_blob o) ->
    get_as dg_eqb decode k (build digest size empty_json ops) (digest (o_blob o)) =
      if kind_eqb (o_kind o) k then Ok (o_msg o, o_ann o) else Err EWrongMedia.
  Proof. exact (@get_first_occurrence blob msg dg). Qed.

  (* pairwise distinct blobs: every layer is addressable by its digest *)
  Theorem C20_get : forall digest size dg_eqb,
    (forall x y, dg_eqb x y = true <-> x = y) ->
    forall decode empty_json ops o k,
    inj_on digest (stored_blobs empty_json ops) -> NoDup (map o_blob ops) -> In o ops -> wf_op decode o ->
    get_as dg_eqb decode k (build digest size empty_json ops) (digest (o_blob o)) =
      if kind_eqb (o_kind o) k then Ok (o_msg o, o_ann o) else Err EWrongMedia.
  Proof. exact (@get_nodup blob msg dg). Qed.

  (* a digest that no stored layer has is an error for every getter *)
  Theorem C20_get_unknown : forall digest size dg_eqb,
    (forall x y, dg_eqb x y = true <-> x = y) ->
    forall decode empty_json ops k d,
    inj_on digest (stored_blobs empty_json ops) -> (forall o, In o ops -> digest (o_blob o) <> d) ->
    get_as dg_eqb decode k (build digest size empty_json ops) d = Err ENotFound.
  Proof. exact (@get_unknown blob msg dg). Qed.

  (* identical blobs share a digest: every such layer answers as the FIRST one does
     (content addressing; the later layer's kind and annotations are not reachable by digest) *)
  Theorem C20_get_first_match : forall digest size dg_eqb,
    (forall x y, dg_eqb x y = true <-> x = y) ->
    forall decode empty_json (pre : list (op blob msg)) o post o' k,
    let ops := pre ++ o :: post in
    inj_on digest (stored_blobs empty_json ops) -> In o' ops -> o_blob o' = o_blob o ->
    (forall x, In x pre -> o_blob x <> o_blob o) ->
    get_as dg_eqb decode k (build digest size empty_json ops) (digest (o_blob o')) =
      if kind_eqb (o_kind o) k
      then match decode k (o_blob o) with Some m => Ok (m, o_ann o) | None => Err EDecode end
      else Err EWrongMedia.
  Proof. exact (@get_duplicate blob msg dg). Qed.

  (* manifest: an artifact built by Builder passes the artifact-type check ... *)
  Theorem C20_manifest_accept : forall digest size empty_json ops,
    get_manifest (build digest size empty_json ops) = Ok (ommx_artifact_type, map (layer_of digest size) ops).
  Proof. exact (@manifest_accept blob msg dg). Qed.

  (* ... any other artifact type, or none, is an error for get_manifest and get_layer_descriptors *)
  Theorem C20_manifest_reject : forall (a : artifact blob dg),
    a_type a <> Some ommx_artifact_type ->
    get_manifest a = Err ENotOmmx /\ forall mt, get_layer_descriptors a mt = Err ENotOmmx.
  Proof. exact (@manifest_reject blob dg). Qed.

  (* descriptors per media type: exactly the layers of that kind, in insertion order *)
  Theorem C20_descriptors_by_kind : forall digest size empty_json ops k,
    get_layer_descriptors (build digest size empty_json ops) (media_type k) =
      Ok (map (layer_of digest size) (filter (fun o => kind_eqb (o_kind o) k) ops)).
  Proof. exact (@descriptors_by_kind blob msg dg). Qed.

  (* the listing accessors (get_instances / get_solutions): every layer of the kind in insertion
     order, each with ITS OWN descriptor (digest, size, annotations) and the decoding of its own
     blob -- also when several layers hold the same bytes; for every artifact type (they read the
     raw manifest) *)
  Theorem C20_listing : forall digest size dg_eqb,
    (forall x y, dg_eqb x y = true <-> x = y) ->
    forall decode empty_json ty ops k,
    inj_on digest (stored_blobs empty_json ops) ->
    list_kind dg_eqb decode k (build_with digest size empty_json ty ops) =
      Some (map (fun o => (layer_of digest size o, decode k (o_blob o)))
                (filter (fun o => kind_eqb (o_kind o) k) ops)).
  Proof. intros digest size dg_eqb H decode empty_json. exact (@list_kind_built blob msg dg digest size dg_eqb H decode empty_json). Qed.

  (* ---- annotations ---- *)
  Theorem C20_annotations_get_set : forall k v a, aget k (aset k v a) = Some v.
  Proof. exact aget_aset_same. Qed.
  Theorem C20_annotations_get_set_other : forall k k' v a, k' <> k -> aget k' (aset k v a) = aget k' a.
  Proof. exact aget_aset_other. Qed.

  (* a setter writes exactly its own key *)
  Theorem C20_annotations_frame : forall (render_time : time -> string) k (o : aop time) a k',
    k' <> aop_key k o -> aget k' (apply_aop render_time k o a) = aget k' a.
  Proof. exact (@setter_frame time). Qed.

  (* over a whole sequence of setters the last writer of a key determines it ... *)
  Theorem C20_annotations_last_writer : forall (render_time : time -> string) k pre (o : aop time) post,
    (forall o', In o' post -> aop_key k o' <> aop_key k o) ->
    aget (aop_key k o) (apply_aops render_time k (pre ++ o :: post)) = Some (aop_value render_time o).
  Proof. exact (@apply_aops_last_writer time). Qed.
  (* ... and a key that no setter wrote is absent (its accessor fails) *)
  Theorem C20_annotations_untouched : forall (render_time : time -> string) k (os : list (aop time)) k',
    (forall o, In o os -> aop_key k o <> k') -> aget k' (apply_aops render_time k os) = None.
  Proof. exact (@apply_aops_untouched time). Qed.

  Theorem C20_annotations_title : forall (render_time : time -> string) k s a,
    acc_string k "title" (apply_aop render_time k (ATitle s) a) = Some s.
  Proof. exact (@acc_title time). Qed.
  Theorem C20_annotations_license : forall (render_time : time -> string) k s a,
    acc_string k "license" (apply_aop render_time k (ALicense s) a) = Some s.
  Proof. exact (@acc_license time). Qed.
  Theorem C20_annotations_dataset : forall (render_time : time -> string) k s a,
    acc_string k "dataset" (apply_aop render_time k (ADataset s) a) = Some s.
  Proof. exact (@acc_dataset time). Qed.
  Theorem C20_annotations_other : forall (render_time : time -> string) k' v k a,
    aget k' (apply_aop render_time k (AOther k' v) a) = Some v.
  Proof. exact (@acc_other time). Qed.

  (* creation / start / end time: round trip at the string level, given chrono's
     parse_from_rfc3339 (to_rfc3339 t) = t *)
  Theorem C20_annotations_time : forall (render_time : time -> string) (parse_time : string -> option time),
    (forall t, parse_time (render_time t) = Some t) ->
    forall k t a,
      acc_time parse_time k "created" (apply_aop render_time k (ACreated t) a) = Some t /\
      acc_time parse_time k "start" (apply_aop render_time k (AStart t) a) = Some t /\
      acc_time parse_time k "end" (apply_aop render_time k (AEnd t) a) = Some t.
  Proof.
    intros r p H k t a.
    exact (conj (@acc_created time r p H k t a) (conj (@acc_start time r p H k t a) (@acc_end time r p H k t a))).
  Qed.

  (* authors: any list (also the empty one) of non-empty, comma-free names reads back unchanged *)
  Theorem C20_annotations_authors : forall (render_time : time -> string) k l a,
    Forall good_name l -> acc_authors k (apply_aop render_time k (AAuthors l) a) = Some l.
  Proof. exact (@acc_authors_set time). Qed.

  (* counts: decimal rendering and parsing of every usize *)
  Theorem C20_annotations_counts : forall (render_time : time -> string) k n a,
    (n < usize_max_succ)%N ->
    acc_usize k "variables" (apply_aop render_time k (AVariables n) a) = Some n /\
    acc_usize k "constraints" (apply_aop render_time k (AConstraints n) a) = Some n.
  Proof.
    intros r k n a H. exact (conj (@acc_variables time r k n a H) (@acc_constraints time r k n a H)).
  Qed.
End Statements.

Print Assumptions C20_layers.
Print Assumptions C20_get_first.
Print Assumptions C20_get.
Print Assumptions C20_get_unknown.
Print Assumptions C20_get_first_match.
Print Assumptions C20_manifest_accept.
Print Assumptions C20_manifest_reject.
Print Assumptions C20_descriptors_by_kind.
Print Assumptions C20_listing.
Print Assumptions C20_annotations_get_set.
Print Assumptions C20_annotations_get_set_other.
Print Assumptions C20_annotations_frame.
Print Assumptions C20_annotations_last_writer.
Print Assumptions C20_annotations_untouched.
Print Assumptions C20_annotations_title.
Print Assumptions C20_annotations_license.
Print Assumptions C20_annotations_dataset.
Print Assumptions C20_annotations_other.
Print Assumptions C20_annotations_time.
Print Assumptions C20_annotations_authors.
Print Assumptions C20_annotations_counts.

(* the comparator of the correspondence check is sound: an accepted getter answer is an error when
   the model says error, and carries the model's message, annotation map and accessor values when
   the model says Ok *)
Theorem C20_comparator_sound : forall rops k a d obs,
  judge_get rops k a d obs = None ->
  match m_get rops k a d with
  | Err _ => is_err obs = true
  | Ok (m, ann) =>
      exists m' ann' acc' ann'',
        ok_payload obs = Some (L [m'; ann'; acc']) /\ d_amap ann' = Some ann'' /\
        tree_eqb m m' = true /\ amap_eqb ann'' ann = true /\
        tree_eqb (e_accessors rops k ann) acc' = true
  end.
Proof. exact judge_get_sound. Qed.
Print Assumptions C20_comparator_sound.

(* ---- non-vacuity and refutations ---- *)

(* a concrete archive: blobs are numbers, the digest is the identity; an instance, a solution and
   the same instance blob again with other annotations *)
Definition ex_decode (k : kind) (b : nat) : option string :=
  match k, b with
  | KInstance, 7 => Some "inst" | KSolution, 9 => Some "sol" | _, _ => None
  end.
Definition ex_ops : list (op nat string) :=
  [ Build_op KInstance "inst" 7 [("org.ommx.v1.instance.title", "first")];
    Build_op KSolution "sol" 9 [];
    Build_op KInstance "inst" 7 [("org.ommx.v1.instance.title", "second")] ].
Definition ex_art := build (fun b : nat => b) (fun _ => 1%N) 0 ex_ops.

Example C20_nonvacuous :
  map d_media (a_layers ex_art) =
    ["application/org.ommx.v1.instance"; "application/org.ommx.v1.solution"; "application/org.ommx.v1.instance"]
  /\ get_as Nat.eqb ex_decode KInstance ex_art 7 = Ok ("inst", [("org.ommx.v1.instance.title", "first")])
  /\ get_as Nat.eqb ex_decode KSolution ex_art 7 = Err EWrongMedia
  /\ get_as Nat.eqb ex_decode KSolution ex_art 9 = Ok ("sol", [])
  /\ get_as Nat.eqb ex_decode KSampleSet ex_art 8 = Err ENotFound
  /\ get_manifest (build_with (fun b : nat => b) (fun _ => 1%N) 0 (Some "application/vnd.oci.image.config.v1+json") ex_ops)
     = Err ENotOmmx.
Proof. vm_compute. repeat split. Qed.

(* the hypotheses of C20_get_first are satisfiable on that archive *)
Example C20_hypotheses_satisfiable :
  inj_on (fun b : nat => b) (stored_blobs 0 ex_ops) /\ Forall (wf_op ex_decode) ex_ops.
Proof.
  split.
  - intros b1 b2 _ _ E. exact E.
  - repeat constructor.
Qed.

(* the comma-free hypothesis on author names cannot be dropped ... *)
Example C20_authors_comma_refuted :
  authors_of (join_authors ["Doe, John"; "Ann"]) = ["Doe"; " John"; "Ann"].
Proof. vm_compute. reflexivity. Qed.
(* ... nor the non-empty one *)
Example C20_authors_empty_name_refuted : authors_of (join_authors [""; "Ann"]) = ["Ann"].
Proof. vm_compute. reflexivity. Qed.
(* the empty author list reads back empty, counts up to 2^64-1 read back, 2^64 does not parse *)
Example C20_authors_empty_list : authors_of (join_authors []) = [].
Proof. vm_compute. reflexivity. Qed.
Example C20_counts :
  parse_usize (render_usize 18446744073709551615) = Some 18446744073709551615%N
  /\ parse_usize "18446744073709551616" = None /\ parse_usize "+7" = Some 7%N /\ parse_usize "" = None.
Proof. vm_compute. repeat split. Qed.
