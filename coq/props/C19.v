(* C19 — QPLIB files are read as the problem they describe.
   Property theorems only; each is closed by [exact] of a lemma of coq/theories/QplibProofs.v.
   [from_lines] / [convert] / [load] are the reader model of coq/theories/Qplib.v
   (rust/ommx/src/qplib/parser.rs, convert.rs); [denote] is the polynomial a function message
   represents (Msg.v). *)
Require Import Ommx.Num Ommx.Poly Ommx.Msg Ommx.Qplib Ommx.QplibProofs Ommx.QplibSpec Ommx.RunC19 Ommx.QplibRoundTrip.
From Coq Require Import String.

(* the objective of a loaded file is 1/2 x'Q0 x + b0'x + q0, Q0 being the symmetric matrix whose
   lower triangle is listed: every listed off-diagonal entry (i,j,v) contributes v x_i x_j, every
   diagonal entry (i,i,v) contributes (v/2) x_i^2 ([half v], with half v + half v = v), the linear
   part is sum_{i<n} b_i x_i with b_i the listed non-default entry or else the default; the sense
   is the declared one.  For every text, every file it parses to, every valuation. *)
Theorem C19_objective : forall ls F ins, from_lines ls = Ok F -> convert F = Some ins ->
  i_sense ins = f_sense F /\
  forall rho, denote (i_obj ins) rho
  = offdiag_sum rho (f_q0 F) + diag_sum rho (f_q0 F) + lin_sum rho F + f_q0c F.
Proof. exact C19_objective_inst. Qed.
Print Assumptions C19_objective.

Theorem C19_half : forall v, half v + half v = v.
Proof. exact half_double. Qed.
Print Assumptions C19_half.

(* constraints: in file order, constraint i with (thresholded) sides c_l, c_u yields exactly
   - if c_u is finite: one "<= 0" constraint with id i whose function is g_i(x) - c_u,
   - if c_l is finite: one "<= 0" constraint with id m+i whose function is -g_i(x) + c_l,
   and nothing else, where g_i = 1/2 x'Q^i x + b^i'x ([con_val]); [spec_sides] lists these
   (id, function value) pairs and [side_ok] says id and value agree for every valuation. *)
Theorem C19_constraint_sides : forall F ins, convert F = Some ins ->
  Forall2 side_ok (i_cons ins) (spec_sides F).
Proof. exact C19_constraint_sides_thm. Qed.
Print Assumptions C19_constraint_sides.

(* infinity threshold: a bound / side whose magnitude is at or beyond the threshold becomes
   -inf (lower) / +inf (upper), below it the value is kept, a literal infinity is unbounded;
   and the i-th variable of the instance has id i, its declared type, the thresholded bounds and
   its name *)
Theorem C19_infinity :
  (forall t v, t <= qabs v -> thr_lo (Fin t) (Fin v) = NInf /\ thr_hi (Fin t) (Fin v) = PInf)
  /\ (forall t v, qabs v < t -> thr_lo (Fin t) (Fin v) = Fin v /\ thr_hi (Fin t) (Fin v) = Fin v)
  /\ (forall thr v, thr <> NaN -> v = PInf \/ v = NInf -> thr_lo thr v = NInf /\ thr_hi thr v = PInf)
  /\ (forall F ins i t l u, convert F = Some ins ->
        nth_error (zip3e (f_vtypes F) (f_lb F) (f_ub F)) i = Some (t, l, u) ->
        nth_error (i_vars ins) i
        = Some {| dv_id := N.of_nat i; dv_kind := t;
                  dv_lower := thr_lo (f_inf F) l; dv_upper := thr_hi (f_inf F) u;
                  dv_name := aget N.eqb (N.of_nat i) (f_vnames F) |}).
Proof. exact C19_infinity_thm. Qed.
Print Assumptions C19_infinity.

(* variable types of a parsed file: code C => all continuous, B => all binary, I => integer,
   M / G => the listed type; an integer variable whose bounds are [0,1], [1,1] or [0,0] is
   binary ([settle], [is01_spec]); there is one type and one pair of bounds per variable *)
Theorem C19_var_types : forall ls F, from_lines ls = Ok F ->
  List.length (f_lb F) = f_nvars F /\ List.length (f_ub F) = f_nvars F /\
  exists listed,
    (match f_vk F with VM | VG => List.length listed = f_nvars F | _ => True end) /\
    forall i l u, (i < f_nvars F)%nat ->
      nth_error (f_lb F) i = Some l -> nth_error (f_ub F) i = Some u ->
      match f_vk F with
      | VC => nth_error (f_vtypes F) i = Some TCont
      | VB => nth_error (f_vtypes F) i = Some TBin
      | VI => nth_error (f_vtypes F) i = Some (settle TInt l u)
      | VM | VG => forall t, nth_error listed i = Some t ->
                   nth_error (f_vtypes F) i = Some (settle t l u)
      end.
Proof. exact C19_var_types_thm. Qed.
Print Assumptions C19_var_types.

Theorem C19_binary_bounds : forall a b, is01 (Fin a) (Fin b) = true <->
  (a = 0 /\ b = 1) \/ (a = 1 /\ b = 1) \/ (a = 0 /\ b = 0).
Proof. exact is01_spec. Qed.
Print Assumptions C19_binary_bounds.

(* errors, for every text: an end-of-file error carries the number of the last line of the text
   (the text ended prematurely); every other error carries the number of a line of the text that
   is neither blank nor a comment; [load] reports exactly the reader's error *)
Theorem C19_errors :
  (forall ls l k, from_lines ls = Err l k ->
     (k = EEof -> l = List.length ls) /\ (k <> EEof -> content ls l))
  /\ (forall ls l k, load ls = Failed l k -> from_lines ls = Err l k).
Proof. exact C19_errors_thm. Qed.
Print Assumptions C19_errors.

(* a malformed type code is reported with the number of its line, whatever comment / blank lines
   precede it and whatever follows *)
Theorem C19_error_type_code : forall pre1 l1 pre2 l2 rest w,
  blanks pre1 -> skippable l1 = false -> blanks pre2 -> skippable l2 = false ->
  first_word l2 = Some w -> parse_ptype w = None ->
  from_lines (pre1 ++ l1 :: pre2 ++ l2 :: rest)
  = Err (List.length pre1 + 1 + List.length pre2 + 1) EProblemType.
Proof. exact error_type_code. Qed.
Print Assumptions C19_error_type_code.

(* likewise a malformed sense word *)
Theorem C19_error_sense : forall pre1 l1 pre2 l2 pre3 l3 rest w2 pt w,
  blanks pre1 -> skippable l1 = false -> blanks pre2 -> skippable l2 = false ->
  first_word l2 = Some w2 -> parse_ptype w2 = Some pt ->
  blanks pre3 -> skippable l3 = false -> first_word l3 = Some w -> parse_sense w = None ->
  from_lines (pre1 ++ l1 :: pre2 ++ l2 :: pre3 ++ l3 :: rest)
  = Err (List.length pre1 + 1 + List.length pre2 + 1 + List.length pre3 + 1) ESense.
Proof. exact error_sense. Qed.
Print Assumptions C19_error_sense.

(* and an unparsable count (number of variables) *)
Theorem C19_error_count : forall pre1 l1 pre2 l2 pre3 l3 pre4 l4 rest w2 pt w3 se w,
  blanks pre1 -> skippable l1 = false -> blanks pre2 -> skippable l2 = false ->
  first_word l2 = Some w2 -> parse_ptype w2 = Some pt ->
  blanks pre3 -> skippable l3 = false -> first_word l3 = Some w3 -> parse_sense w3 = Some se ->
  blanks pre4 -> skippable l4 = false -> first_word l4 = Some w -> parse_usize w = None ->
  from_lines (pre1 ++ l1 :: pre2 ++ l2 :: pre3 ++ l3 :: pre4 ++ l4 :: rest)
  = Err (List.length pre1 + 1 + List.length pre2 + 1 + List.length pre3 + 1
         + List.length pre4 + 1) EInt.
Proof. exact error_count. Qed.
Print Assumptions C19_error_count.

(* reading as a theorem (Tier B): for EVERY well-formed abstract QPLIB model (one-word name, indices
   within the declared sizes, finite coefficients, single-field names, every key of a section
   listed once) printed under EVERY layout (comment / blank lines before any line, indentation,
   TAB or space separators, trailing text, any letter case of the type code, any of the six
   number styles and +-inf), the reader parses the text to the file the model describes and
   converts it to the problem [meaning M]: same sense, objective equal as a polynomial function,
   the same variables (ids, kinds, thresholded bounds, names), the same constraint sides in the
   same order with equal ids and equal functions; name and description as documented.  No
   assumption about number printing / parsing remains. *)
Theorem C19_load_render_all : forall M ly, wf_qp M = true -> layout_ok ly = true ->
  from_lines (render ly M) = Ok (file_of M)
  /\ exists ins, load (render ly M) = Loaded ins
                 /\ ainst_equiv (meaning M) (abstract ins)
                 /\ i_name ins = Some (m_name M)
                 /\ i_descr ins = ptype_string (m_ok M) (m_vk M) (m_ck M).
Proof. exact C19_load_render. Qed.
Print Assumptions C19_load_render_all.

Example C19_load_render_nonvacuous : wf_qp ex_model = true /\ layout_ok ex_layout = true.
Proof. exact ex_wf. Qed.


(* the comparator of the correspondence check is sound: when it finds no difference between the
   expected abstract instance [e] (meaning M, or the model reader's result) and the SDK's [g],
   then sense, objective (as a polynomial, for every valuation), the number of variables and
   constraints agree, every expected variable is present under its id with its type, bounds and
   name, and every expected constraint side is present under its id with an equal polynomial *)
Theorem C19_comparator_sound : forall e g, ainst_cmp e g = None ->
  a_sense e = a_sense g
  /\ (forall rho, val rho (a_obj e) = val rho (a_obj g))
  /\ List.length (a_vars e) = List.length (a_vars g)
  /\ List.length (a_cons e) = List.length (a_cons g)
  /\ (forall v, In v (a_vars e) -> exists v', In v' (a_vars g) /\ av_id v' = av_id v /\
        av_kind v' = av_kind v /\ ext_eqb (av_lo v) (av_lo v') = true /\
        ext_eqb (av_hi v) (av_hi v') = true /\ optstr_eqb (av_name v) (av_name v') = true)
  /\ (forall c, In c (a_cons e) -> exists c', In c' (a_cons g) /\ ac_id c' = ac_id c /\
        forall rho, val rho (ac_terms c) = val rho (ac_terms c')).
Proof. exact ainst_cmp_sound. Qed.
Print Assumptions C19_comparator_sound.

(* non-vacuity: the example file of the QPLIB paper loads; at x = (1,2,3) its objective is
   1/2 x'Qx + b'x = 6 - 8/5 = 22/5 (the diagonal entries 2.0 count as x_i^2), its two one-sided
   constraints x1+x2 >= 1, x1+x3 >= 1 become -g+1 <= 0 with ids m+0, m+1 and values -2, -3, the
   third variable is binary, the second has upper bound 2 *)
Example C19_nonvacuous_load :
  exists ins, load mipband = Loaded ins /\
    denote (i_obj ins) (fun i => qz (Z.of_N i + 1)) = Q2Qc (22 # 5) /\
    map c_id (i_cons ins) = [2%N; 3%N] /\
    map (fun c => denote (c_fn c) (fun i => qz (Z.of_N i + 1))) (i_cons ins) = [qz (-2); qz (-3)] /\
    map dv_kind (i_vars ins) = [TCont; TCont; TBin].
Proof.
  eexists. split; [vm_compute; reflexivity|].
  repeat split; apply eq_refl || (apply Qc_is_canon; vm_compute; reflexivity) || (vm_compute; reflexivity).
Qed.

(* non-vacuity of the error statements: the same text cut after 20 lines, and with the type code
   replaced by QXL *)
Example C19_nonvacuous_eof : load (firstn 20 mipband) = Failed 20 EEof.
Proof. vm_compute. reflexivity. Qed.
Example C19_nonvacuous_type :
  load (firstn 4 mipband ++ "QXL # bad"%string :: skipn 5 mipband) = Failed 5 EProblemType.
Proof. vm_compute. reflexivity. Qed.


(* ---------------------------------------------------------------------------------------------
   EVERY instance the QPLIB reader returns is VALID in the sense of C08 (LoadWf.v): positional
   variable ids 0..n-1, constraint ids i and m+i, every used index below n (the model's index range
   check; see the trusted-base note on indices beyond the declared size). *)
Require Import Ommx.LoadWf.
Theorem C19_loaded_instance_valid : forall ls R, load ls = Loaded R ->
  QplibWf.inst_wf R /\ Validate.validate (QplibWf.to_instance R) = true.
Proof. intros ls R H. split; [exact (QplibWf.qplib_load_wf ls R H)|exact (QplibWf.qplib_load_valid ls R H)]. Qed.
Print Assumptions C19_loaded_instance_valid.
Check QplibWf.qplib_nonvacuous.
