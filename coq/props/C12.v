(* C12 — log-encoding covers exactly the integer range. *)
Require Import Ommx.Num Ommx.Poly Ommx.Msg Ommx.Eval Ommx.Tree Ommx.Arith Ommx.Inst
        Ommx.InstProofs Ommx.Transform Ommx.TransformProofs Ommx.LogEncProofs Ommx.Subst Ommx.SubstProofs Ommx.SubstInst
        Ommx.LogEncPath.
From Coq Require Import String.
Close Scope string_scope. Open Scope list_scope. Open Scope Qc_scope.

(* the mathematical core, for EVERY width: bit patterns of length log2_up(K+1) weighted by
   1, 2, .., 2^(n-2), K - 2^(n-1) + 1 reach exactly 0..K *)
Theorem C12_cover : forall K, (1 <= K)%N -> forall z,
  (exists bs, List.length bs = le_nbits K /\ dot (le_coeffs K) bs = z) <-> (z <= K)%N.
Proof. exact log_encode_cover. Qed.
Print Assumptions C12_cover.

(* the encoding returned for an integer variable with finite bound [l,u], ceil l < floor u:
   n new binaries with ids next_id.., kind binary, bound [0,1]; over all bit assignments the linear
   expression takes exactly the integer values ceil(l)..floor(u) *)
Theorem C12_encoding : forall tiny, tiny_exact tiny -> forall I id v l u,
  find_dv id (i_dvs I) = Some v -> dv_kind v = KIND_INTEGER -> dv_bound v = Some (Fin l, Fin u) ->
  (qceil l < qfloor u)%Z ->
  let K := Z.to_N (qfloor u - qceil l) in
  let base := next_id (i_dvs I) in
  exists lin news,
    log_encode tiny I id = inr (lin, news) /\
    List.length news = le_nbits K /\
    map dv_id news = map (fun j => (base + N.of_nat j)%N) (seq 0 (le_nbits K)) /\
    Forall (fun d => dv_kind d = KIND_BINARY /\ dv_bound d = Some (Fin 0, Fin 1) /\ dv_subst d = None) news /\
    (forall bs, List.length bs = le_nbits K ->
       val (bit_val base bs) (lin_terms lin) = qz (qceil l + Z.of_N (dot (le_coeffs K) bs))) /\
    (forall z : Z, (exists bs, List.length bs = le_nbits K /\ val (bit_val base bs) (lin_terms lin) = qz z)
                   <-> (qceil l <= z <= qfloor u)%Z).
Proof. exact log_encode_encoding. Qed.
Print Assumptions C12_encoding.

Theorem C12_single : forall tiny I id v l u,
  find_dv id (i_dvs I) = Some v -> dv_kind v = KIND_INTEGER -> dv_bound v = Some (Fin l, Fin u) ->
  qceil l = qfloor u -> log_encode tiny I id = inr (lin_of_c (qz (qceil l)), []).
Proof. exact log_encode_single. Qed.
Print Assumptions C12_single.

(* success exactly for a known integer variable with a finite bound that contains an integer;
   otherwise an error (unknown id, wrong kind, no bound, infinite / NaN bound, no integer) *)
Theorem C12_ok_iff : forall tiny I id,
  (exists r, log_encode tiny I id = inr r) <->
  exists v l u, find_dv id (i_dvs I) = Some v /\ dv_kind v = KIND_INTEGER /\
                dv_bound v = Some (Fin l, Fin u) /\ (qceil l <= qfloor u)%Z.
Proof. exact log_encode_ok_iff. Qed.
Print Assumptions C12_ok_iff.

Theorem C12_fresh : forall I j v, In v (i_dvs I) -> (dv_id v < next_id (i_dvs I) + N.of_nat j)%N.
Proof. exact log_encode_fresh. Qed.
Print Assumptions C12_fresh.

Example C12_nonvacuous : le_coeffs 10 = [1; 2; 4; 3]%N /\ le_nbits 10 = 4%nat.
Proof. vm_compute. split; reflexivity. Qed.


(* ---------------------------------------------------------------------------------------------
   THE DRIVER PATH (LogEncPath.v), C12 composed with C04: log_encode x, register the binaries,
   substitute x := E, evaluate at ANY 0/1 assignment of the fresh binaries (extended by values of the
   other remaining variables): x is reported with an integer of [ceil l, floor u] -- the value of E at
   the bits --, objective and every constraint have the value of the ORIGINAL functions at the
   reported state; conversely every integer of the range is the value of E at some bit assignment. *)
Theorem C12_path_eval : forall tiny, tiny_exact tiny -> forall I id v l u E bits J s sol bs,
  find_dv id (i_dvs I) = Some v -> dv_kind v = KIND_INTEGER -> dv_bound v = Some (Fin l, Fin u) ->
  (qceil l < qfloor u)%Z ->
  let K := Z.to_N (qfloor u - qceil l) in
  let base := next_id (i_dvs I) in
  log_encode tiny I id = inr (E, bits) ->
  inst_substitute tiny (add_dvs I bits) [(id, FLin E)] = Some J ->
  NoDup (dkeys (i_deps I)) ->
  (forall d, d = id \/ In d (dkeys (i_deps I)) -> sget (insert_subst (i_dvs I) s) d = None) ->
  sext s (insert_subst (i_dvs I) s) ->
  List.length bs = le_nbits K -> assigns_bits base bs s ->
  inst_eval J s = Some sol ->
  let z := (qceil l + Z.of_N (dot (le_coeffs K) bs))%Z in
  (qceil l <= z <= qfloor u)%Z /\
  sext s (so_state sol) /\
  sget (so_state sol) id = Some (qz z) /\
  (exists ids, fn_eval (FLin E) s = Some (qz z, ids)) /\
  (forall rho, agrees rho (so_state sol) -> rho id = qz z /\ denote (FLin E) rho = qz z) /\
  (forall d h, In (d, h) (i_deps I) -> d <> id ->
     exists w, sget (so_state sol) d = Some w /\ forall rho, agrees rho (so_state sol) -> w = denote h rho) /\
  (forall rho, agrees rho (so_state sol) -> so_objective sol = denote (fn_or_zero (i_obj I)) rho) /\
  (exists ea er, so_evaluated sol = ea ++ er /\
     Forall2 (fun c e => reports_at c None (so_state sol) e) (i_cs I) ea /\
     Forall2 (fun r e => reports_removed_at r (so_state sol) e) (i_rs I) er /\
     (so_feasible_relaxed sol = true <-> Forall holds ea) /\
     (so_feasible sol = true <-> Forall holds (ea ++ er))) /\
  so_dvs sol = i_dvs I ++ bits.
Proof. exact log_encode_substitute_eval. Qed.
Print Assumptions C12_path_eval.

Theorem C12_path_cover : forall tiny, tiny_exact tiny -> forall I id v l u E bits,
  find_dv id (i_dvs I) = Some v -> dv_kind v = KIND_INTEGER -> dv_bound v = Some (Fin l, Fin u) ->
  (qceil l < qfloor u)%Z ->
  let K := Z.to_N (qfloor u - qceil l) in
  let base := next_id (i_dvs I) in
  log_encode tiny I id = inr (E, bits) ->
  forall z : Z, (qceil l <= z <= qfloor u)%Z ->
  exists bs, List.length bs = le_nbits K /\
    z = (qceil l + Z.of_N (dot (le_coeffs K) bs))%Z /\
    (exists ids, fn_eval (FLin E) (bits_state base bs) = Some (qz z, ids)) /\
    (forall s, assigns_bits base bs s -> exists ids, fn_eval (FLin E) s = Some (qz z, ids)) /\
    (forall rho, reads_bits base bs rho -> denote (FLin E) rho = qz z) /\
    (forall J s sol,
       inst_substitute tiny (add_dvs I bits) [(id, FLin E)] = Some J ->
       NoDup (dkeys (i_deps I)) ->
       (forall d, d = id \/ In d (dkeys (i_deps I)) -> sget (insert_subst (i_dvs I) s) d = None) ->
       sext s (insert_subst (i_dvs I) s) ->
       assigns_bits base bs s -> inst_eval J s = Some sol ->
       sget (so_state sol) id = Some (qz z)).
Proof. exact log_encode_substitute_cover. Qed.
Print Assumptions C12_path_cover.
Check bits_state_hyps.
Check log_encode_substitute_nonvacuous.
Print Assumptions log_encode_substitute_nonvacuous.


(* the tag of the registered binaries is `id as i64` (ids >= 2^63 give negative subscripts): it still
   identifies the encoded variable among all u64 ids *)
Theorem C12_tag_identifies : forall n m : N,
  (n < 18446744073709551616)%N -> (m < 18446744073709551616)%N -> as_i64 n = as_i64 m -> n = m.
Proof.
  intros n m Hn Hm. unfold as_i64.
  destruct (Z.ltb_spec (Z.of_N n) 9223372036854775808), (Z.ltb_spec (Z.of_N m) 9223372036854775808); lia.
Qed.
Print Assumptions C12_tag_identifies.
