(* C01 — evaluating a function returns the polynomial's mathematical value.
   Property theorems only; each is closed by [exact] of a lemma of the development. *)
Require Import Ommx.Num Ommx.Poly Ommx.Msg Ommx.Eval Ommx.Tree Ommx.FEval Ommx.F64 Ommx.RunC01.
From Coq Require Import String.

(* value = sum of coefficient times product of variable values, for every valuation that
   agrees with the state; the returned id set is exactly the ids occurring in the message *)
Theorem C01_sound : forall f s v ids, fn_eval f s = Some (v, ids) ->
  (forall rho, agrees rho s -> v = denote f rho) /\ (forall i, In i ids <-> occurs f i).
Proof. exact fn_eval_sound. Qed.
Print Assumptions C01_sound.

(* a state that assigns every occurring variable is accepted *)
Theorem C01_total : forall f s, covers s f -> exists v ids, fn_eval f s = Some (v, ids).
Proof. exact fn_eval_total. Qed.
Print Assumptions C01_total.

(* a state that lacks an occurring variable is rejected *)
Theorem C01_missing : forall f s i, occurs f i -> sget s i = None -> fn_eval f s = None.
Proof. exact fn_eval_missing. Qed.
Print Assumptions C01_missing.

(* any two wire-legal renderings of the same formal polynomial evaluate to the same value *)
Theorem C01_representation : forall f g s v w ids ids',
  poly_eqb (fn_terms f) (fn_terms g) = true ->
  fn_eval f s = Some (v, ids) -> fn_eval g s = Some (w, ids') -> v = w.
Proof. exact fn_eval_representation. Qed.
Print Assumptions C01_representation.

(* the comparator used by the correspondence check is sound *)
Theorem C01_comparator_sound : forall f s rv rids tags,
  judge_eval f s (L [A "ok"%string; L [rv; rids]]) = agree ("ok"%string :: tags) ->
  exists q ids', d_ext rv = Some (Fin q) /\ d_list d_N rids = Some ids' /\
    (forall rho, agrees rho s -> q = denote f rho) /\ (forall i, In i ids' <-> occurs f i).
Proof. exact judge_eval_ok_sound. Qed.
Print Assumptions C01_comparator_sound.


(* "up to floating-point rounding ... within a rigorous rounding bound": for EVERY rounding
   operator with relative error at most u (the standard model of floating-point arithmetic), the
   evaluation in which each addition and multiplication is rounded, performed in the order of the
   Rust code, differs from the exact value by at most ((1+u)^K - 1) * sum_t |c_t| prod |x_i|, with
   K = fn_ops f (number of terms + largest number of factors of a term) *)
Theorem C01_rounding_bound : forall rnd u, 0 <= u -> (forall z, qabs (rnd z - z) <= u * qabs z) ->
  forall f s vh v ids, ffn_eval rnd f s = Some vh -> fn_eval f s = Some (v, ids) ->
  qabs (vh - v) <= (gpow u (fn_ops f) - 1) * fn_mag f s.
Proof. exact ffn_eval_bound. Qed.
Print Assumptions C01_rounding_bound.

(* the instance used by the correspondence: round-to-nearest-even at 53 bits (binary64 where the
   result is neither subnormal nor overflowing) satisfies the hypothesis with u = 2^-53, for every
   rational; the SDK's answer on arbitrary binary64 data is compared bit for bit with this
   rounded evaluation (float stream) *)
Theorem C01_rounding_binary64 : forall f s vh v ids,
  ffn_eval rnd53 f s = Some vh -> fn_eval f s = Some (v, ids) ->
  qabs (vh - v) <= (gpow u53 (fn_ops f) - 1) * fn_mag f s.
Proof. exact f64_eval_bound. Qed.
Print Assumptions C01_rounding_binary64.

Example C01_rounding_nonvacuous :
  (* 1/3 is not a binary64: rounding is real, and stays within the bound *)
  let third := rnd53 (Q2Qc (1 # 3)) in
  let l := FLin {| l_terms := [(1%N, third); (2%N, third)]; l_const := third |} in
  let s := [(1%N, third); (2%N, Q2Qc (3 # 1))] in
  exists vh v ids, ffn_eval rnd53 l s = Some vh /\ fn_eval l s = Some (v, ids) /\ vh <> v /\
                   qabs (vh - v) <= (gpow u53 (fn_ops l) - 1) * fn_mag l s.
Proof. eexists; eexists; eexists. split; [vm_compute; reflexivity|]. split; [vm_compute; reflexivity|].
  split; [intro H; discriminate H|]. vm_compute. intro H; discriminate H. Qed.

(* non-vacuity: a quadratic with a lower-triangular entry, a repeated entry, an explicit zero
   and an absent linear part, evaluated at a covering state *)
Example C01_nonvacuous :
  let q := FQuad {| q_rows := [2; 1; 1]%N; q_cols := [1; 2; 3]%N;
                    q_vals := [qz 3; qz (-1); 0]; q_lin := None |} in
  let s := [(1%N, qz 2); (2%N, qz 5); (3%N, qz 7)] in
  exists ids, fn_eval q s = Some (qz 20, ids).
Proof. eexists. vm_compute. reflexivity. Qed.
