(* C01 — evaluating a function returns the polynomial's mathematical value.
   Property theorems only; each is closed by [exact] of a lemma of the development. *)
Require Import Ommx.Num Ommx.Poly Ommx.Msg Ommx.Eval Ommx.Tree Ommx.RunC01.
From Coq Require Import String.

(* value = sum of coefficient times product of variable values, for every valuation that
   agrees with the state; the returned id set is exactly the ids occurring in the message *)
Theorem C01_sound : forall f s v ids, fn_eval f s = Some (v, ids) ->
  (forall rho, agrees rho s -> v = denote f rho) /\ (forall i, In i ids <-> occurs f i).
Proof. exact fn_eval_sound. Qed.
Print Assumptions C01_sound.

(* a state that assigns every occurring variable is accepted *)
Theorem C01_total : forall f s, covers s f -> exists v ids, fn_eval f s = Some (v, ids).
Proof. exact fn_eval_total. Qed.
Print Assumptions C01_total.

(* a state that lacks an occurring variable is rejected *)
Theorem C01_missing : forall f s i, occurs f i -> sget s i = None -> fn_eval f s = None.
Proof. exact fn_eval_missing. Qed.
Print Assumptions C01_missing.

(* any two wire-legal renderings of the same formal polynomial evaluate to the same value *)
Theorem C01_representation : forall f g s v w ids ids',
  poly_eqb (fn_terms f) (fn_terms g) = true ->
  fn_eval f s = Some (v, ids) -> fn_eval g s = Some (w, ids') -> v = w.
Proof. exact fn_eval_representation. Qed.
Print Assumptions C01_representation.

(* the comparator used by the correspondence check is sound *)
Theorem C01_comparator_sound : forall f s rv rids tags,
  judge_eval f s (L [A "ok"%string; L [rv; rids]]) = agree ("ok"%string :: tags) ->
  exists q ids', d_ext rv = Some (Fin q) /\ d_list d_N rids = Some ids' /\
    (forall rho, agrees rho s -> q = denote f rho) /\ (forall i, In i ids' <-> occurs f i).
Proof. exact judge_eval_ok_sound. Qed.
Print Assumptions C01_comparator_sound.

(* non-vacuity: a quadratic with a lower-triangular entry, a repeated entry, an explicit zero
   and an absent linear part, evaluated at a covering state *)
Example C01_nonvacuous :
  let q := FQuad {| q_rows := [2; 1; 1]%N; q_cols := [1; 2; 3]%N;
                    q_vals := [qz 3; qz (-1); 0]; q_lin := None |} in
  let s := [(1%N, qz 2); (2%N, qz 5); (3%N, qz 7)] in
  exists ids, fn_eval q s = Some (qz 20, ids).
Proof. eexists. vm_compute. reflexivity. Qed.
