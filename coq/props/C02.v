(* C02 — function arithmetic is exact polynomial arithmetic for every operand mix.
   Property theorems only; each is closed by [exact] of a lemma of the development.
   [tiny] is the coefficient-dropping test of the SDK (|c| <= f64::EPSILON); the exactness
   theorems are stated for every test that only drops exact zeros ([tiny_exact]); the residual
   theorems hold for an arbitrary test, in particular the SDK's. *)
Require Import Ommx.Num Ommx.Poly Ommx.Msg Ommx.Arith Ommx.ArithProofs.

(* sum, for every ordered pair of the seven operand kinds that the table defines *)
Theorem C02_add_sound : forall tiny, tiny_exact tiny -> forall x y z,
  owf x -> owf y -> op_add tiny x y = Some z ->
  forall rho, odenote z rho = odenote x rho + odenote y rho.
Proof. exact op_add_sound. Qed.
Print Assumptions C02_add_sound.

Theorem C02_sub_sound : forall tiny, tiny_exact tiny -> forall x y z,
  owf x -> owf y -> op_sub tiny x y = Some z ->
  forall rho, odenote z rho = odenote x rho - odenote y rho.
Proof. exact op_sub_sound. Qed.
Print Assumptions C02_sub_sound.

(* products, returned in a kind able to hold every term (Linear x Linear -> Quadratic,
   Quadratic x anything non-constant -> Polynomial: see op_mul0) *)
Theorem C02_mul_sound : forall tiny, tiny_exact tiny -> forall x y z,
  op_mul tiny x y = Some z ->
  forall rho, odenote z rho = odenote x rho * odenote y rho.
Proof. exact op_mul_sound. Qed.
Print Assumptions C02_mul_sound.

Theorem C02_neg_sound : forall tiny, tiny_exact tiny -> forall x z,
  op_neg tiny x = Some z -> forall rho, odenote z rho = - odenote x rho.
Proof. exact op_neg_sound. Qed.
Print Assumptions C02_neg_sound.

(* independence of operand order follows: both orders denote the same polynomial *)
Corollary C02_add_commutes : forall tiny, tiny_exact tiny -> forall x y z z',
  owf x -> owf y -> op_add tiny x y = Some z -> op_add tiny y x = Some z' ->
  forall rho, odenote z rho = odenote z' rho.
Proof.
  intros tiny TE x y z z' Wx Wy E E' rho.
  rewrite (op_add_sound tiny TE _ _ _ Wx Wy E rho), (op_add_sound tiny TE _ _ _ Wy Wx E' rho). ring.
Qed.
Print Assumptions C02_add_commutes.
Corollary C02_mul_commutes : forall tiny, tiny_exact tiny -> forall x y z z',
  op_mul tiny x y = Some z -> op_mul tiny y x = Some z' ->
  forall rho, odenote z rho = odenote z' rho.
Proof.
  intros tiny TE x y z z' E E' rho.
  rewrite (op_mul_sound tiny TE _ _ _ E rho), (op_mul_sound tiny TE _ _ _ E' rho). ring.
Qed.
Print Assumptions C02_mul_commutes.

(* the term iterator of a function enumerates terms whose sum is the represented polynomial *)
Theorem C02_iter : forall f rho,
  val rho (match f with
           | FUnset => [] | FConst c => [([], c)] | FLin l => lin_iter l
           | FQuad q => quad_iter q | FPoly p => poly_iter p end) = denote f rho.
Proof. exact fn_iter_val. Qed.
Print Assumptions C02_iter.

(* for an ARBITRARY dropping test: the accumulate-and-drop merge used by every Add / from_iter
   loses exactly a list of accumulated coefficients that passed the test *)
Theorem C02_merge_residual : forall (K : Type) (keqb : K -> K -> bool),
  (forall a b, keqb a b = true <-> a = b) ->
  forall (kv : K -> num) (tiny : num -> bool) (l : tlist K),
  valg kv (merge keqb tiny l) + valg kv (resid_from keqb tiny [] l) = valg kv l /\
  Forall (fun kc => tiny (snd kc) = true) (resid_from keqb tiny [] l) /\
  (List.length (resid_from keqb tiny [] l) <= List.length l)%nat.
Proof.
  intros K keqb S kv tiny l. split; [apply merge_val; exact S|].
  split; [apply resid_from_tiny|apply resid_from_length].
Qed.
Print Assumptions C02_merge_residual.
Theorem C02_lin_add_residual : forall tiny a b rho,
  let d := resid_from N.eqb tiny [] (l_terms a ++ l_terms b) in
  Forall (fun kc => tiny (snd kc) = true) d /\
  val rho (lin_terms (lin_add tiny a b)) + valg rho d = val rho (lin_terms a) + val rho (lin_terms b).
Proof. exact lin_add_residual. Qed.
Print Assumptions C02_lin_add_residual.
Theorem C02_poly_add_residual : forall tiny (a b : polynomial) rho,
  let d := resid_from ids_eqb tiny [] (a ++ b) in
  Forall (fun kc => tiny (snd kc) = true) d /\
  val rho (poly_add tiny a b) + val rho d = val rho a + val rho b.
Proof. exact poly_add_residual. Qed.
Print Assumptions C02_poly_add_residual.

(* the comparator of the correspondence check is sound *)
Theorem C02_comparator_sound : forall a b, poly_eqb a b = true -> forall rho, val rho a = val rho b.
Proof. exact poly_eqb_sound. Qed.
Print Assumptions C02_comparator_sound.

(* non-vacuity: (x1 + 2 x2 + 1) * (x1 - 1/2) as Linear x Linear -> Quadratic, and the
   hypothesis [owf] is needed: a quadratic with a duplicated position loses a term in Add *)
Example C02_nonvacuous_mul :
  exists q, op_mul tiny_0 (OLin {| l_terms := [(1%N, 1); (2%N, qz 2)]; l_const := 1 |})
                          (OLin {| l_terms := [(1%N, 1)]; l_const := - (1) |}) = Some (OQuad q)
            /\ q_rows q = [1; 1]%N /\ q_cols q = [1; 2]%N.
Proof. eexists. vm_compute. repeat split. Qed.
Example C02_duplicate_positions_matter :
  let q := {| q_rows := [1; 1]%N; q_cols := [2; 2]%N; q_vals := [1; 1]; q_lin := None |} in
  val (fun _ => 1) (quad_terms (quad_add tiny_0 q q)) <> val (fun _ => 1) (quad_terms q) + val (fun _ => 1) (quad_terms q).
Proof. vm_compute. discriminate. Qed.
