(* C02 — function arithmetic is exact polynomial arithmetic for every operand mix.
   Property theorems only; each is closed by [exact] of a lemma of the development.
   [tiny] is the coefficient-dropping test of the SDK (|c| <= f64::EPSILON); the exactness
   theorems are stated for every test that only drops exact zeros ([tiny_exact]); the residual
   theorems hold for an arbitrary test, in particular the SDK's. *)
Require Import Ommx.Num Ommx.Poly Ommx.Msg Ommx.Arith Ommx.ArithProofs Ommx.PolyComplete Ommx.ResidualOps.

(* sum, for every ordered pair of the seven operand kinds that the table defines *)
Theorem C02_add_sound : forall tiny, tiny_exact tiny -> forall x y z,
  owf x -> owf y -> op_add tiny x y = Some z ->
  forall rho, odenote z rho = odenote x rho + odenote y rho.
Proof. exact op_add_sound. Qed.
Print Assumptions C02_add_sound.

Theorem C02_sub_sound : forall tiny, tiny_exact tiny -> forall x y z,
  owf x -> owf y -> op_sub tiny x y = Some z ->
  forall rho, odenote z rho = odenote x rho - odenote y rho.
Proof. exact op_sub_sound. Qed.
Print Assumptions C02_sub_sound.

(* products, returned in a kind able to hold every term (Linear x Linear -> Quadratic,
   Quadratic x anything non-constant -> Polynomial: see op_mul0) *)
Theorem C02_mul_sound : forall tiny, tiny_exact tiny -> forall x y z,
  op_mul tiny x y = Some z ->
  forall rho, odenote z rho = odenote x rho * odenote y rho.
Proof. exact op_mul_sound. Qed.
Print Assumptions C02_mul_sound.

Theorem C02_neg_sound : forall tiny, tiny_exact tiny -> forall x z,
  op_neg tiny x = Some z -> forall rho, odenote z rho = - odenote x rho.
Proof. exact op_neg_sound. Qed.
Print Assumptions C02_neg_sound.

(* independence of operand order follows: both orders denote the same polynomial *)
Corollary C02_add_commutes : forall tiny, tiny_exact tiny -> forall x y z z',
  owf x -> owf y -> op_add tiny x y = Some z -> op_add tiny y x = Some z' ->
  forall rho, odenote z rho = odenote z' rho.
Proof.
  intros tiny TE x y z z' Wx Wy E E' rho.
  rewrite (op_add_sound tiny TE _ _ _ Wx Wy E rho), (op_add_sound tiny TE _ _ _ Wy Wx E' rho). ring.
Qed.
Print Assumptions C02_add_commutes.
Corollary C02_mul_commutes : forall tiny, tiny_exact tiny -> forall x y z z',
  op_mul tiny x y = Some z -> op_mul tiny y x = Some z' ->
  forall rho, odenote z rho = odenote z' rho.
Proof.
  intros tiny TE x y z z' E E' rho.
  rewrite (op_mul_sound tiny TE _ _ _ E rho), (op_mul_sound tiny TE _ _ _ E' rho). ring.
Qed.
Print Assumptions C02_mul_commutes.

(* the term iterator of a function enumerates terms whose sum is the represented polynomial *)
Theorem C02_iter : forall f rho,
  val rho (match f with
           | FUnset => [] | FConst c => [([], c)] | FLin l => lin_iter l
           | FQuad q => quad_iter q | FPoly p => poly_iter p end) = denote f rho.
Proof. exact fn_iter_val. Qed.
Print Assumptions C02_iter.

(* for an ARBITRARY dropping test: the accumulate-and-drop merge used by every Add / from_iter
   loses exactly a list of accumulated coefficients that passed the test *)
Theorem C02_merge_residual : forall (K : Type) (keqb : K -> K -> bool),
  (forall a b, keqb a b = true <-> a = b) ->
  forall (kv : K -> num) (tiny : num -> bool) (l : tlist K),
  valg kv (merge keqb tiny l) + valg kv (resid_from keqb tiny [] l) = valg kv l /\
  Forall (fun kc => tiny (snd kc) = true) (resid_from keqb tiny [] l) /\
  (List.length (resid_from keqb tiny [] l) <= List.length l)%nat.
Proof.
  intros K keqb S kv tiny l. split; [apply merge_val; exact S|].
  split; [apply resid_from_tiny|apply resid_from_length].
Qed.
Print Assumptions C02_merge_residual.
Theorem C02_lin_add_residual : forall tiny a b rho,
  let d := resid_from N.eqb tiny [] (l_terms a ++ l_terms b) in
  Forall (fun kc => tiny (snd kc) = true) d /\
  val rho (lin_terms (lin_add tiny a b)) + valg rho d = val rho (lin_terms a) + val rho (lin_terms b).
Proof. exact lin_add_residual. Qed.
Print Assumptions C02_lin_add_residual.
Theorem C02_poly_add_residual : forall tiny (a b : polynomial) rho,
  let d := resid_from ids_eqb tiny [] (a ++ b) in
  Forall (fun kc => tiny (snd kc) = true) d /\
  val rho (poly_add tiny a b) + val rho d = val rho a + val rho b.
Proof. exact poly_add_residual. Qed.
Print Assumptions C02_poly_add_residual.

(* "up to ... the documented dropping of coefficients below machine epsilon", for the composite
   operators and an ARBITRARY dropping test (in particular the SDK's |c| <= eps): what the result
   lacks w.r.t. the exact sum / difference / product is an explicit residual term list every
   coefficient of which passed the test, of bounded length *)
Theorem C02_add_residual : forall (tiny : num -> bool) (f g h : function),
  fwf f -> fn_add tiny f g = Some h ->
  let d := fn_add_resid tiny f g in
  all_pass tiny d /\ (List.length d <= 2 * (nterms f + nterms g))%nat /\
  forall rho, denote h rho + val rho d = denote f rho + denote g rho.
Proof. exact fn_add_residual. Qed.
Print Assumptions C02_add_residual.
Theorem C02_sub_residual : forall (tiny : num -> bool) (f g h : function),
  fwf f -> fn_sub tiny f g = Some h ->
  let d := fn_sub_resid tiny f g in
  all_pass tiny d /\ (List.length d <= 2 * (nterms f + nterms g))%nat /\
  forall rho, denote h rho + val rho d = denote f rho - denote g rho.
Proof. exact fn_sub_residual. Qed.
Print Assumptions C02_sub_residual.
(* for a product, a Polynomial x (Linear | Quadratic) first converts the smaller operand, and what
   that conversion drops (e) is multiplied by the polynomial operand (k) *)
Theorem C02_mul_residual : forall (tiny : num -> bool) (f g h : function),
  fn_mul tiny f g = Some h ->
  let d := fn_mul_resid tiny f g in
  let e := fn_mul_conv_resid tiny f g in
  let k := fn_mul_cofactor f g in
  all_pass tiny d /\ all_pass tiny e /\
  (List.length d <= nterms f * nterms g)%nat /\ (List.length e <= Nat.max (nterms f) (nterms g))%nat /\
  (e = [] \/ k = fn_terms f \/ k = fn_terms g) /\
  forall rho, denote h rho + val rho d + val rho k * val rho e = denote f rho * denote g rho.
Proof. exact fn_mul_residual. Qed.
Print Assumptions C02_mul_residual.
(* with the SDK's own test: on the unit box the sum is off by at most 2(|f|+|g|) eps, and a
   product without conversion by at most |f||g| eps M when every residual monomial is bounded by M *)
Theorem C02_add_eps_bound : forall (f g h : function) rho,
  fwf f -> fn_add tiny_eps f g = Some h -> unit_box rho ->
  qabs (denote h rho - (denote f rho + denote g rho)) <= qn (2 * (nterms f + nterms g)) * eps.
Proof. exact fn_add_eps_bound_unit. Qed.
Print Assumptions C02_add_eps_bound.
Theorem C02_mul_eps_bound : forall (f g h : function) rho M,
  no_conversion f g = true -> fn_mul tiny_eps f g = Some h -> 0 <= M ->
  mono_bounded rho M (fn_mul_resid tiny_eps f g) ->
  qabs (denote h rho - denote f rho * denote g rho) <= qn (nterms f * nterms g) * eps * M.
Proof. exact fn_mul_eps_bound_no_conversion. Qed.
Print Assumptions C02_mul_eps_bound.

(* the comparator of the correspondence check is sound *)
Theorem C02_comparator_sound : forall a b, poly_eqb a b = true -> forall rho, val rho a = val rho b.
Proof. exact poly_eqb_sound. Qed.
Print Assumptions C02_comparator_sound.

(* ... and complete: two term lists that denote the same polynomial function are accepted, so the
   comparator never raises an alarm on a correct answer however it is represented (a polynomial over
   the rationals that vanishes everywhere has only zero coefficients; no bound on degree, number of
   variables or terms) *)
Theorem C02_comparator_complete : forall a b, poly_eqb a b = true <-> forall rho, val rho a = val rho b.
Proof. exact poly_eqb_iff. Qed.
Print Assumptions C02_comparator_complete.

(* non-vacuity: (x1 + 2 x2 + 1) * (x1 - 1/2) as Linear x Linear -> Quadratic, and the
   hypothesis [owf] is needed: a quadratic with a duplicated position loses a term in Add *)
Example C02_nonvacuous_mul :
  exists q, op_mul tiny_0 (OLin {| l_terms := [(1%N, 1); (2%N, qz 2)]; l_const := 1 |})
                          (OLin {| l_terms := [(1%N, 1)]; l_const := - (1) |}) = Some (OQuad q)
            /\ q_rows q = [1; 1]%N /\ q_cols q = [1; 2]%N.
Proof. eexists. vm_compute. repeat split. Qed.
Example C02_duplicate_positions_matter :
  let q := {| q_rows := [1; 1]%N; q_cols := [2; 2]%N; q_vals := [1; 1]; q_lin := None |} in
  val (fun _ => 1) (quad_terms (quad_add tiny_0 q q)) <> val (fun _ => 1) (quad_terms q) + val (fun _ => 1) (quad_terms q).
Proof. vm_compute. discriminate. Qed.
