(* C15 — sense-aware operations select the right optimum. *)
Require Import Ommx.Num Ommx.Poly Ommx.Msg Ommx.Eval Ommx.Tree Ommx.Arith Ommx.Inst
        Ommx.InstProofs Ommx.InstTotal Ommx.Transform Ommx.TransformProofs Ommx.Samples Ommx.SamplesProofs Ommx.AsMinInst.
From Coq Require Import String.
Close Scope string_scope. Open Scope list_scope. Open Scope Qc_scope.

(* as_minimization_problem: sense becomes minimise; variables, constraints, removed constraints,
   dependencies untouched; unchanged if already a minimisation; otherwise the objective is negated *)
Theorem C15_min : forall tiny, tiny_exact tiny -> forall I I', as_min tiny I = Some I' ->
  i_sense I' = SENSE_MIN /\
  i_dvs I' = i_dvs I /\ i_cs I' = i_cs I /\ i_rs I' = i_rs I /\ i_deps I' = i_deps I /\
  (i_sense I = SENSE_MIN -> I' = I) /\
  (i_sense I <> SENSE_MIN ->
     forall rho, denote (fn_or_zero (i_obj I')) rho = - denote (fn_or_zero (i_obj I)) rho).
Proof. exact as_min_spec. Qed.
Print Assumptions C15_min.

Theorem C15_idempotent : forall tiny I I', as_min tiny I = Some I' -> as_min tiny I' = Some I'.
Proof. intros tiny I I' H. apply as_min_already. unfold as_min in H.
  destruct (i_sense I =? SENSE_MIN)%Z eqn:E.
  - apply Z.eqb_eq in E. inversion H; subst. exact E.
  - destruct (Arith.fn_neg tiny (fn_or_zero (i_obj I))); [inversion H; reflexivity|discriminate].
Qed.
Print Assumptions C15_idempotent.

(* a maximisation problem and its conversion rank all assignments identically *)
Theorem C15_ranking : forall tiny, tiny_exact tiny -> forall I I', as_min tiny I = Some I' ->
  i_sense I = SENSE_MAX -> forall rho rho',
    denote (fn_or_zero (i_obj I)) rho' <= denote (fn_or_zero (i_obj I)) rho <->
    denote (fn_or_zero (i_obj I')) rho <= denote (fn_or_zero (i_obj I')) rho'.
Proof. exact as_min_ranking. Qed.
Print Assumptions C15_ranking.

(* the selected sample is one of the candidate ids and no candidate strictly beats it under the
   set's sense *)
Theorem C15_best : forall ss ids k, best ss ids = Some k ->
  exists o objs, ss_objectives ss = Some o /\ cands o ids = Some objs /\
                 In k ids /\ is_best (ss_sense ss) objs k.
Proof. exact best_spec. Qed.
Print Assumptions C15_best.

(* selection fails exactly when no sample is feasible (objectives present, sense decodable) *)
Theorem C15_best_err_iff : forall ss ids o objs,
  ss_objectives ss = Some o -> cands o ids = Some objs -> (0 <= ss_sense ss <= 2)%Z ->
  (best ss ids = None <-> ids = []).
Proof. exact best_none_iff. Qed.
Print Assumptions C15_best_err_iff.

(* the candidates are exactly the ids flagged feasible in the table that is read *)
Theorem C15_feasible_ids : forall m k, In k (true_ids m) <-> bget m k = Some true.
Proof. exact true_ids_spec. Qed.
Print Assumptions C15_feasible_ids.

(* ... and the table is the current field, or the older field when feasible_relaxed is empty *)
Theorem C15_legacy : forall ss,
  (ss_feasible_relaxed ss = [] ->
     ss_relaxed_map ss = ss_feasible ss /\ ss_unrelaxed_map ss = ss_feasible_unrelaxed ss) /\
  (ss_feasible_relaxed ss <> [] ->
     ss_relaxed_map ss = ss_feasible_relaxed ss /\ ss_unrelaxed_map ss = ss_feasible ss).
Proof. exact legacy_fields. Qed.
Print Assumptions C15_legacy.

(* the checker used by the correspondence (any unbeaten candidate is accepted) is exactly is_best *)
Theorem C15_checker : forall sense objs k, is_best_b sense objs k = true <-> is_best sense objs k.
Proof. exact is_best_b_spec. Qed.
Print Assumptions C15_checker.

Example C15_nonvacuous :
  let ss := {| ss_objectives := Some [(qz 3, [1; 4]%N); (qz 1, [2; 5]%N)]; ss_dvs := []; ss_constraints := [];
               ss_feasible := [(1%N, true); (2%N, false); (4%N, true); (5%N, false)];
               ss_feasible_relaxed := [(1%N, true); (2%N, true); (4%N, true); (5%N, false)];
               ss_feasible_unrelaxed := []; ss_sense := 1 |} in
  best_feasible_id ss = Some 2%N /\ best_feasible_unrelaxed_id ss = Some 1%N.
Proof. vm_compute. split; reflexivity. Qed.


(* ---------------------------------------------------------------------------------------------
   INSTANCE LEVEL (AsMinInst.v): as_minimization through Instance::evaluate, for EVERY dropping
   test (negation never passes through it): evaluation of the converted instance is evaluation of
   the original with the objective negated (or untouched for a minimisation) -- as an equation on
   option solution, failures included --, every record, both flags, the state identical; the
   comparison used by best_feasible ranks any two evaluated states the same way on both; the best of
   a finite list of states is the same.  Every sense other than MINIMIZE (0 included) is treated
   like MAXIMIZE, as in Samples.better. *)
Theorem C15_as_min_eval : forall tiny I I', as_min tiny I = Some I' -> forall x,
  inst_eval I' x = if (i_sense I =? SENSE_MIN)%Z then inst_eval I x
                   else option_map neg_objective (inst_eval I x).
Proof. exact as_min_eval_eq. Qed.
Print Assumptions C15_as_min_eval.

Theorem C15_as_min_eval_fields : forall tiny I I', as_min tiny I = Some I' -> forall x,
  ((exists sol, inst_eval I x = Some sol) <-> (exists sol', inst_eval I' x = Some sol')) /\
  (forall sol sol', inst_eval I x = Some sol -> inst_eval I' x = Some sol' ->
     so_objective sol' = (if (i_sense I =? SENSE_MIN)%Z then so_objective sol else - so_objective sol) /\
     so_evaluated sol' = so_evaluated sol /\ so_feasible sol' = so_feasible sol /\
     so_feasible_relaxed sol' = so_feasible_relaxed sol /\ so_state sol' = so_state sol /\
     so_dvs sol' = so_dvs sol).
Proof. exact as_min_eval. Qed.
Print Assumptions C15_as_min_eval_fields.

Theorem C15_as_min_defined : forall tiny I,
  as_min tiny I <> None <-> (i_sense I = SENSE_MIN \/ i_obj I <> Some FUnset).
Proof. exact as_min_defined. Qed.
Print Assumptions C15_as_min_defined.

Theorem C15_as_min_ranking_eval : forall tiny I I', as_min tiny I = Some I' -> forall x y sx sy sx' sy',
    inst_eval I x = Some sx -> inst_eval I y = Some sy ->
    inst_eval I' x = Some sx' -> inst_eval I' y = Some sy' ->
    better (i_sense I') (so_objective sx') (so_objective sy')
    = better (i_sense I) (so_objective sx) (so_objective sy).
Proof. exact as_min_eval_better. Qed.
Print Assumptions C15_as_min_ranking_eval.

Theorem C15_as_min_best_state : forall tiny I I', as_min tiny I = Some I' -> forall xs,
  best_state I' xs = best_state I xs.
Proof. exact as_min_best_state. Qed.
Print Assumptions C15_as_min_best_state.
Check as_min_eval_optimal.
Check as_min_eval_nonvacuous.
Print Assumptions as_min_eval_nonvacuous.
