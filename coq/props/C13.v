(* C13 — integer-slack conversions preserve the feasible set. *)
Require Import Ommx.Num Ommx.Poly Ommx.Msg Ommx.Eval Ommx.Tree Ommx.Arith Ommx.Inst Ommx.Relax
        Ommx.Transform Ommx.Bound Ommx.BoundProofs Ommx.BoundContent Ommx.BoundEval Ommx.Slack Ommx.SlackProofs
        Ommx.InstProofs Ommx.SlackInst.
From Coq Require Import String.
Close Scope string_scope. Open Scope list_scope. Open Scope Qc_scope.

(* with a the content factor, B the integer bound of a*f over the box and L its lower end: at every
   integer point x of the box, f(x) <= 0 exactly when some INTEGER slack 0 <= s <= -L (the bounds of
   the introduced variable) satisfies the new equality f(x) + s/a = 0 *)
Theorem C13_convert_equiv : forall tiny, tiny_exact tiny -> forall f a af bs B0 B l rho,
  content_factor f = Some a -> Arith.fn_mul tiny f (FConst a) = Some af ->
  evaluate_bound af bs = Some B0 -> as_integer_bound B0 = Some B -> lower B = Fin l ->
  valid_box bs -> in_box rho bs -> int_valued rho ->
  (denote f rho <= 0 <-> exists s : Z, 0 <= qz s /\ qz s <= - l /\ denote f rho + qz s * (1 / a) = 0).
Proof. exact convert_equiv. Qed.
Print Assumptions C13_convert_equiv.

(* if interval analysis shows the inequality always holds it does hold on the whole box ... *)
Theorem C13_always : forall tiny, tiny_exact tiny -> forall f a af bs B0 B rho,
  content_factor f = Some a -> Arith.fn_mul tiny f (FConst a) = Some af ->
  evaluate_bound af bs = Some B0 -> as_integer_bound B0 = Some B -> ext_le0 (upper B) = true ->
  valid_box bs -> in_box rho bs -> int_valued rho -> denote f rho <= 0.
Proof. exact convert_always. Qed.
Print Assumptions C13_always.
(* ... and if it shows it can never hold, it fails on the whole box *)
Theorem C13_never : forall tiny, tiny_exact tiny -> forall f a af bs B0 B rho,
  content_factor f = Some a -> Arith.fn_mul tiny f (FConst a) = Some af ->
  evaluate_bound af bs = Some B0 -> as_integer_bound B0 = Some B -> ext_gt0 (lower B) = true ->
  valid_box bs -> in_box rho bs -> int_valued rho -> 0 < denote f rho.
Proof. exact convert_never. Qed.
Print Assumptions C13_never.

(* adding a bounded integer slack b*s, b = -L/U, reports b >= 0 and keeps the projection onto x *)
Theorem C13_add_equiv : forall f bs B l U rho,
  evaluate_bound f bs = Some B -> lower B = Fin l -> ext_gt0 (lower B) = false -> (0 < U)%Z ->
  let b := (- l) / qz U in
  0 <= b /\ (denote f rho <= 0 <-> exists s : Z, (0 <= s <= U)%Z /\ denote f rho + b * qz s <= 0).
Proof. exact add_equiv. Qed.
Print Assumptions C13_add_equiv.

(* what a successful conversion does: either the constraint is moved to the removed constraints
   (relax: unchanged record, see C14), or one integer variable [0, -L] is appended and the
   constraint becomes the equality f + s/a = 0; the range limit was respected *)
Theorem C13_convert_shape : forall tiny I cid mx J, convert_slack tiny I cid mx = inr J ->
  exists bs c f a af B0 B,
    slack_prologue I cid true = inr (bs, c, f) /\
    content_factor f = Some a /\ Arith.fn_mul tiny f (FConst a) = Some af /\
    evaluate_bound af bs = Some B0 /\ as_integer_bound B0 = Some B /\ ext_gt0 (lower B) = false /\
    ((ext_le0 (upper B) = true /\
      relax I cid (A "convert_inequality_to_equality_with_integer_slack"%string) (L []) = Some J) \/
     (ext_le0 (upper B) = false /\
      eltb (Fin (qz (Z.of_N mx))) (eneg (lower B)) = false /\
      exists f', Arith.fn_add tiny f (FLin (Arith.lin_single (next_id (i_dvs I)) (1 / a))) = Some f' /\
        J = set_dvs_cs I (i_dvs I ++ [slack_dv (next_id (i_dvs I)) cid (Fin 0, eneg (lower B))])
              (replace_constr cid {| c_id := c_id c; c_eq := EQ_ZERO; c_fn := Some f'; c_meta := c_meta c |} (i_cs I)))).
Proof. exact convert_slack_spec. Qed.
Print Assumptions C13_convert_shape.

(* rejections (the result is an error and no instance is produced): unknown constraint id,
   not an inequality, a continuous or unknown variable in the constraint *)
Theorem C13_rejects : forall I cid,
  (find_constr cid (i_cs I) = None -> box_of (i_dvs I) [] <> None -> slack_prologue I cid true = inl SNotFound) /\
  (forall c, box_of (i_dvs I) [] <> None -> find_constr cid (i_cs I) = Some c -> c_eq c <> LE_ZERO ->
     slack_prologue I cid true = inl SNotInequality).
Proof. exact prologue_rejects. Qed.
Print Assumptions C13_rejects.
Theorem C13_rejects_kind : forall I cid bs c f e,
  box_of (i_dvs I) [] = Some bs -> find_constr cid (i_cs I) = Some c -> c_eq c = LE_ZERO ->
  c_fn c = Some f -> check_kinds (used_sorted f) (i_dvs I) = Some e -> slack_prologue I cid true = inl e.
Proof. exact prologue_rejects_kind. Qed.
Print Assumptions C13_rejects_kind.
Theorem C13_rejection_propagates : forall tiny I cid n e, slack_prologue I cid true = inl e ->
  convert_slack tiny I cid n = inl e /\ add_slack tiny I cid n = inl e.
Proof. intros. split; [apply convert_rejected_by_prologue|apply add_rejected_by_prologue]; assumption. Qed.
Print Assumptions C13_rejection_propagates.

(* non-vacuity: x1 in [0,3] integer, constraint 1/2 x1 - 1 <= 0: a = 2, 2f = x1 - 2 in [-2,1],
   slack in [0,2], new function 1/2 x1 - 1 + s/2 *)
Example C13_nonvacuous :
  let I := {| i_sense := 1; i_obj := None;
              i_dvs := [{| dv_id := 1; dv_kind := 2; dv_bound := Some (Fin 0, Fin (qz 3)); dv_subst := None; dv_meta := [] |}];
              i_cs := [{| c_id := 7; c_eq := 2; c_fn := Some (FLin {| l_terms := [(1%N, Q2Qc (1 # 2))]; l_const := - (1) |}); c_meta := [] |}];
              i_rs := []; i_deps := []; i_params := None; i_hints := L []; i_desc := L [] |} in
  exists J, convert_slack tiny_eps I 7 100 = inr J /\
            map (fun v => (dv_id v, dv_bound v)) (i_dvs J) = [(1%N, Some (Fin 0, Fin (qz 3))); (2%N, Some (Fin 0, Fin (qz 2)))] /\
            map c_eq (i_cs J) = [EQ_ZERO].
Proof. eexists. split; [vm_compute; reflexivity|]. vm_compute. split; reflexivity. Qed.


(* ---------------------------------------------------------------------------------------------
   INSTANCE LEVEL (SlackInst.v): through Instance::evaluate.  After a slack-introducing conversion,
   for every state x at which I evaluates and every integer k of the new variable's bound, J
   evaluates at x ++ [(sid, k)] with the same objective, the reported state extended by sid := k,
   every other evaluated record identical, the record of cid with value f(x) + k/a (and J feasible
   => I feasible); and when the values x gives to the variables of f extend to an integer point of the
   box: I is (relaxed-)feasible at x  <=>  some integer k in [0, ub] makes J (relaxed-)feasible. *)
Theorem C13_convert_instance : forall tiny, tiny_exact tiny -> forall I cid mx J bs c f,
  convert_slack tiny I cid mx = inr J ->
  slack_prologue I cid true = inr (bs, c, f) ->
  i_dvs J <> i_dvs I ->
  deps_avoid (next_id (i_dvs I)) (i_deps I) ->
  let sid := next_id (i_dvs I) in
  exists (a : num) (ub : Z),
    content_factor f = Some a /\ 0 < a /\ (0 <= ub)%Z /\
    i_dvs J = i_dvs I ++ [slack_dv sid cid (Fin 0, Fin (qz ub))] /\
    forall x solI, sget x sid = None -> inst_eval I x = Some solI ->
      (forall k, (0 <= k <= ub)%Z ->
         exists solJ, inst_eval J (x ++ [(sid, qz k)]) = Some solJ /\
           slack_sol_rel cid sid EQ_ZERO (1 / a) (qz k) (i_dvs J) f x solI solJ /\
           (so_feasible_relaxed solJ = true -> so_feasible_relaxed solI = true) /\
           (so_feasible solJ = true -> so_feasible solI = true)) /\
      ((exists rho, in_box rho bs /\ int_valued rho /\ agrees_on f rho x) ->
         (so_feasible_relaxed solI = true <->
            exists k solJ, (0 <= k <= ub)%Z /\ inst_eval J (x ++ [(sid, qz k)]) = Some solJ /\ so_feasible_relaxed solJ = true) /\
         (so_feasible solI = true <->
            exists k solJ, (0 <= k <= ub)%Z /\ inst_eval J (x ++ [(sid, qz k)]) = Some solJ /\ so_feasible solJ = true)).
Proof. exact convert_slack_feasible_iff. Qed.
Print Assumptions C13_convert_instance.

Theorem C13_add_instance : forall tiny, tiny_exact tiny -> forall I cid U J bcoef bs c f,
  add_slack tiny I cid U = inr (J, Some bcoef) ->
  slack_prologue I cid true = inr (bs, c, f) ->
  deps_avoid (next_id (i_dvs I)) (i_deps I) ->
  let sid := next_id (i_dvs I) in
  exists (b : num) B l,
    evaluate_bound f bs = Some B /\ lower B = Fin l /\ b = (- l) / qz (Z.of_N U) /\
    bcoef = Fin b /\ 0 <= b /\ (0 < Z.of_N U)%Z /\
    i_dvs J = i_dvs I ++ [slack_dv sid cid (Fin 0, Fin (qz (Z.of_N U)))] /\
    forall x solI, sget x sid = None -> inst_eval I x = Some solI ->
      (forall k, (0 <= k <= Z.of_N U)%Z ->
         exists solJ, inst_eval J (x ++ [(sid, qz k)]) = Some solJ /\
           slack_sol_rel cid sid LE_ZERO b (qz k) (i_dvs J) f x solI solJ /\
           (so_feasible_relaxed solJ = true -> so_feasible_relaxed solI = true) /\
           (so_feasible solJ = true -> so_feasible solI = true)) /\
      (so_feasible_relaxed solI = true <-> exists k solJ, (0 <= k <= Z.of_N U)%Z /\ inst_eval J (x ++ [(sid, qz k)]) = Some solJ /\ so_feasible_relaxed solJ = true) /\
      (so_feasible solI = true <-> exists k solJ, (0 <= k <= Z.of_N U)%Z /\ inst_eval J (x ++ [(sid, qz k)]) = Some solJ /\ so_feasible solJ = true).
Proof. exact add_slack_feasible_iff. Qed.
Print Assumptions C13_add_instance.
Check convert_slack_always_inst.
Check add_slack_always_inst.
Check convert_slack_inst_nonvacuous.
Check convert_slack_theorem_applies.
Print Assumptions convert_slack_theorem_applies.
