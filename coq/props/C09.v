(* C09 — penalty methods keep every constraint and build f + weighted squared violations. *)
Require Import Ommx.Num Ommx.Poly Ommx.Msg Ommx.Eval Ommx.Tree Ommx.Arith Ommx.ArithProofs Ommx.Inst
        Ommx.InstProofs Ommx.PEvalProofs Ommx.Transform Ommx.TransformProofs Ommx.SubstInst Ommx.ParamInst Ommx.PenaltyInst.
From Coq Require Import String.
Close Scope string_scope. Open Scope list_scope. Open Scope Qc_scope.

(* per-constraint penalty method: no active constraint; every constraint of the input (already removed
   ones first, then the active ones) kept with the same record; parameter ids next_id, next_id+1, ...;
   parameter i tagged with constraint i's id; variables, sense, dependencies, hints carried over;
   objective = f + sum_c p_c * g_c^2 for every valuation of variables and weights *)
Theorem C09_penalty : forall tiny, tiny_exact tiny -> forall I P, iwf I -> penalty tiny I = Some P ->
  p_cs P = [] /\
  map r_c (p_rs P) = map r_c (i_rs I) ++ map Some (i_cs I) /\
  map pa_id (p_params P) = map (fun j => (next_id (i_dvs I) + N.of_nat j)%N) (seq 0 (List.length (i_cs I))) /\
  map (fun p => nth 1 (pa_meta p) (L [])) (p_params P) = map (fun c => L [Tree.I (Z.of_N (c_id c))]) (i_cs I) /\
  p_dvs P = i_dvs I /\ p_sense P = i_sense I /\ p_deps P = i_deps I /\ p_hints P = i_hints I /\
  forall rho, denote (fn_or_zero (p_obj P)) rho
              = denote (fn_or_zero (i_obj I)) rho + pen_sum rho (i_cs I) (next_id (i_dvs I)).
Proof. exact penalty_spec. Qed.
Print Assumptions C09_penalty.

(* weight-parameter ids never coincide with each other or with a decision-variable id *)
Theorem C09_fresh : forall tiny, tiny_exact tiny -> forall I P, iwf I -> penalty tiny I = Some P ->
  NoDup (map pa_id (p_params P)) /\
  forall p v, In p (p_params P) -> In v (i_dvs I) -> pa_id p <> dv_id v.
Proof. exact penalty_fresh. Qed.
Print Assumptions C09_fresh.

(* uniform penalty method: objective = f + p * sum_c g_c^2 *)
Theorem C09_uniform : forall tiny, tiny_exact tiny -> forall I P, iwf I -> uniform_penalty tiny I = Some P ->
  p_cs P = [] /\
  map r_c (p_rs P) = map r_c (i_rs I) ++ map Some (i_cs I) /\
  map pa_id (p_params P) = [next_id (i_dvs I)] /\
  p_dvs P = i_dvs I /\ p_sense P = i_sense I /\ p_deps P = i_deps I /\ p_hints P = i_hints I /\
  forall rho, denote (fn_or_zero (p_obj P)) rho
              = denote (fn_or_zero (i_obj I)) rho + rho (next_id (i_dvs I)) * sq_sum rho (i_cs I).
Proof. exact uniform_penalty_spec. Qed.
Print Assumptions C09_uniform.

Theorem C09_next_id_fresh : forall dvs v, In v dvs -> (dv_id v < next_id dvs)%N.
Proof. exact next_id_above. Qed.
Print Assumptions C09_next_id_fresh.

(* non-vacuity: one active constraint x1 - 1 and one previously removed constraint *)
Example C09_nonvacuous :
  let c k f := {| c_id := k; c_eq := 2; c_fn := Some f; c_meta := [] |} in
  let I := {| i_sense := 1; i_obj := Some (FLin (lin_single 1 1));
              i_dvs := [{| dv_id := 1; dv_kind := 3; dv_bound := None; dv_subst := None; dv_meta := [] |}];
              i_cs := [c 7%N (FLin {| l_terms := [(1%N, 1)]; l_const := - (1) |})];
              i_rs := [{| r_c := Some (c 3%N (FConst 1)); r_reason := L []; r_params := L [] |}];
              i_deps := []; i_params := None; i_hints := L []; i_desc := L [] |} in
  iwf I /\ exists P, penalty tiny_0 I = Some P /\ map pa_id (p_params P) = [2%N] /\
            List.length (p_rs P) = 2%nat /\
            denote (fn_or_zero (p_obj P)) (fun i => if (i =? 1)%N then qz 3 else qz 5) = qz 23.
Proof.
  split; [split; [exact Logic.I|repeat constructor]|]. eexists. split; [vm_compute; reflexivity|].
  vm_compute. repeat split.
Qed.


(* ---------------------------------------------------------------------------------------------
   INSTANCE LEVEL (PenaltyInst.v), C09 composed with C10: fixing the weights of the penalty form and
   EVALUATING at x gives f(x) + sum_k w_k g_k(x)^2 (uniform: f(x) + w sum_k g_k(x)^2); no active
   constraint is left; the evaluated records are the previously removed constraints followed by the
   former active ones in order (own id / equality / metadata / value, reason penalty_method /
   uniform_penalty_method); feasible_relaxed is always true, feasible <=> all of them hold. *)
Theorem C09_penalty_eval : forall tiny, tiny_exact tiny -> forall Ins P theta I2 x sol,
  iwf Ins -> penalty tiny Ins = Some P ->
  with_parameters tiny P theta = Some I2 -> inst_eval I2 x = Some sol ->
  (forall rho, agrees rho x -> agrees rho theta ->
     so_objective sol = denote (fn_or_zero (i_obj Ins)) rho
                        + wpen_sum theta rho (i_cs Ins) (next_id (i_dvs Ins))) /\
  (forall j, (j < List.length (i_cs Ins))%nat -> sget theta (next_id (i_dvs Ins) + N.of_nat j) <> None) /\
  penalized_constraints (A "penalty_method") Ins I2 x sol /\
  i_dvs I2 = i_dvs Ins /\ i_sense I2 = i_sense Ins /\ i_deps I2 = i_deps Ins /\ i_hints I2 = i_hints Ins /\
  i_params I2 = Some theta /\ so_dvs sol = i_dvs Ins.
Proof. exact penalty_eval. Qed.
Print Assumptions C09_penalty_eval.

Theorem C09_uniform_penalty_eval : forall tiny, tiny_exact tiny -> forall Ins P theta I2 x sol,
  iwf Ins -> uniform_penalty tiny Ins = Some P ->
  with_parameters tiny P theta = Some I2 -> inst_eval I2 x = Some sol ->
  (forall rho, agrees rho x -> agrees rho theta ->
     so_objective sol = denote (fn_or_zero (i_obj Ins)) rho
                        + weight theta (next_id (i_dvs Ins)) * sq_sum rho (i_cs Ins)) /\
  sget theta (next_id (i_dvs Ins)) <> None /\
  penalized_constraints (A "uniform_penalty_method") Ins I2 x sol /\
  i_dvs I2 = i_dvs Ins /\ i_sense I2 = i_sense Ins /\ i_deps I2 = i_deps Ins /\ i_hints I2 = i_hints Ins /\
  i_params I2 = Some theta /\ so_dvs sol = i_dvs Ins.
Proof. exact uniform_penalty_eval. Qed.
Print Assumptions C09_uniform_penalty_eval.
Check penalty_eval_fresh.
Check uniform_penalty_eval_fresh.
Check penalty_eval_nonvacuous.
Print Assumptions penalty_eval_nonvacuous.
