(* C05 — a Solution faithfully reports the evaluated problem.  Property theorems only. *)
Require Import Ommx.Num Ommx.Poly Ommx.Msg Ommx.Eval Ommx.Tree Ommx.Inst Ommx.InstProofs Ommx.Subst Ommx.SubstProofs Ommx.DepsOrder Ommx.InstTotal.
From Coq Require Import Permutation.

(* the objective of the solution is the objective function's value *)
Theorem C05_objective : forall I s sol, inst_eval I s = Some sol ->
  forall rho, agrees rho s -> so_objective sol = denote (fn_or_zero (i_obj I)) rho.
Proof. exact inst_eval_objective. Qed.
Print Assumptions C05_objective.

(* every active and every removed constraint is listed exactly once, in order, with its value,
   equality kind, metadata and removal reason; relaxed feasibility <=> all active constraints hold;
   feasibility <=> all active and all removed constraints hold *)
Theorem C05_constraints_and_flags : forall I s sol, inst_eval I s = Some sol ->
  exists ea er, so_evaluated sol = ea ++ er /\
    Forall2 (fun c e => reports c None s e) (i_cs I) ea /\
    Forall2 (fun r e => reports_removed r s e) (i_rs I) er /\
    (so_feasible_relaxed sol = true <-> Forall holds ea) /\
    (so_feasible sol = true <-> Forall holds (ea ++ er)).
Proof. exact inst_eval_constraints. Qed.
Print Assumptions C05_constraints_and_flags.

(* `holds` is the tolerance rule of the property *)
Theorem C05_holds_rule : forall e, is_feasible e tol6 = Some true <->
  (ev_eq e = EQ_ZERO /\ qabs (ev_value e) < tol6) \/ (ev_eq e = LE_ZERO /\ ev_value e < tol6).
Proof. exact is_feasible_holds. Qed.
Print Assumptions C05_holds_rule.

(* reported state: values present after substituted values and dependencies are kept, every
   defined variable has a value, and a variable without one gets the point of its bound
   nearest to zero *)
Theorem C05_state : forall I s sol, inst_eval I s = Some sol ->
  exists s1, eval_deps (i_deps I) (insert_subst (i_dvs I) s) = Some s1 /\
    (forall i v, sget s1 i = Some v -> sget (so_state sol) i = Some v) /\
    (forall d, In d (i_dvs I) -> sget (so_state sol) (dv_id d) <> None) /\
    (forall i x, sget s1 i = None -> sget (so_state sol) i = Some x ->
       exists d b, In d (i_dvs I) /\ dv_id d = i /\ dv_bound_of d = Some b /\ nearest_to_zero b = Fin x).
Proof. exact inst_eval_state. Qed.
Print Assumptions C05_state.

Theorem C05_nearest_to_zero : forall l u b x, bcheck l u = Some b -> nearest_to_zero b = Fin x ->
  in_bound b x /\ forall y, in_bound b y -> qabs x <= qabs y.
Proof. exact nearest_to_zero_spec. Qed.
Print Assumptions C05_nearest_to_zero.

(* rejections *)
Theorem C05_rejects_bound : forall I s, check_bound (i_dvs I) s tol7 = false -> inst_eval I s = None.
Proof. exact inst_eval_rejects_bound. Qed.
Print Assumptions C05_rejects_bound.
Theorem C05_accepts_in_bound : forall I s sol, inst_eval I s = Some sol -> check_bound (i_dvs I) s tol7 = true.
Proof. exact inst_eval_accepts_in_bound. Qed.
Print Assumptions C05_accepts_in_bound.
Theorem C05_rejects_missing_active : forall I s c i,
  In c (i_cs I) -> occurs (fn_or_zero (c_fn c)) i -> sget s i = None -> inst_eval I s = None.
Proof. exact inst_eval_rejects_missing_active. Qed.
Print Assumptions C05_rejects_missing_active.
Theorem C05_rejects_missing_removed : forall I s r c i,
  In r (i_rs I) -> r_c r = Some c -> occurs (fn_or_zero (c_fn c)) i -> sget s i = None ->
  inst_eval I s = None.
Proof. exact inst_eval_rejects_missing_removed. Qed.
Print Assumptions C05_rejects_missing_removed.
Theorem C05_rejects_missing_objective : forall I s i,
  occurs (fn_or_zero (i_obj I)) i -> sget s i = None -> inst_eval I s = None.
Proof. exact inst_eval_rejects_missing_objective. Qed.
Print Assumptions C05_rejects_missing_objective.

(* non-vacuity: x1 in [0,4], constraint x1 - 1 <= 0 at x1 = 1 + 2^-19 is infeasible (by more than
   1e-6), the removed constraint holds, an unused variable x9 in [2,5] is reported as 2 *)
Example C05_nonvacuous :
  let x := fin_of_bits 4607182427389952000 (* 1 + 2^-19 *) in
  let I := {| i_sense := 1; i_obj := Some (FLin {| l_terms := [(1%N, qz 2)]; l_const := 0 |});
              i_dvs := [ {| dv_id := 1; dv_kind := 3; dv_bound := Some (Fin 0, Fin (qz 4)); dv_subst := None; dv_meta := [] |};
                         {| dv_id := 9; dv_kind := 2; dv_bound := Some (Fin (qz 2), Fin (qz 5)); dv_subst := None; dv_meta := [] |} ];
              i_cs := [ {| c_id := 3; c_eq := 2; c_fn := Some (FLin {| l_terms := [(1%N, 1)]; l_const := - (1) |}); c_meta := [] |} ];
              i_rs := [ {| r_c := Some {| c_id := 5; c_eq := 1; c_fn := None; c_meta := [] |}; r_reason := L []; r_params := L [] |} ];
              i_deps := []; i_params := None; i_hints := L []; i_desc := L [] |} in
  exists sol, inst_eval I [(1%N, x)] = Some sol /\ so_feasible_relaxed sol = false /\ so_feasible sol = false
              /\ sget (so_state sol) 9 = Some (qz 2).
Proof. eexists. vm_compute. repeat split. Qed.


(* ---------------------------------------------------------------------------------------------
   WHEN evaluation succeeds (InstTotal.v): an exact characterisation.  Every other instance-level
   theorem is of the form "if inst_eval I s = Some sol then ..."; this one says when that is.
   eval_ok I s = (1) every declared variable has a valid bound, (2) every entry of the state lies
   within 1e-7 of the bound of (the last declaration of) its id, (3)/(4)/(6) every id occurring in an
   active / removed constraint function / the objective has a value in the GIVEN state (every removed
   entry carries a constraint), (5) reading active then removed constraints in order, every
   constraint up to and including the first violated one has equality = 0 or <= 0, (7) the
   dependency pass succeeds from the state overridden by the recorded fixed values. *)
Theorem C05_succeeds_iff : forall I s, (exists sol, inst_eval I s = Some sol) <-> eval_ok I s.
Proof. exact inst_eval_succeeds_iff. Qed.
Print Assumptions C05_succeeds_iff.

Theorem C05_fails_iff : forall I s, inst_eval I s = None <-> ~ eval_ok I s.
Proof. exact inst_eval_fails_iff. Qed.
Print Assumptions C05_fails_iff.

(* with distinct dependency keys that have neither a given nor a fixed value, conjunct (7) is
   "an evaluation order of the dependency map exists" *)
Theorem C05_succeeds_iff_order : forall I s,
  NoDup (dkeys (i_deps I)) ->
  (forall k, In k (dkeys (i_deps I)) -> sget s k = None /\ forall d, In d (i_dvs I) -> dv_id d = k -> dv_subst d = None) ->
  ((exists sol, inst_eval I s = Some sol) <->
   pre_deps_ok I s /\ exists o s1, Permutation o (i_deps I) /\ seq_ok (insert_subst (i_dvs I) s) o s1).
Proof. exact inst_eval_succeeds_iff_order. Qed.
Print Assumptions C05_succeeds_iff_order.

(* totality on the common case: no dependencies, valid bounds, supported equalities, an in-bound
   value for every occurring variable *)
Theorem C05_total_simple : forall I s,
  i_deps I = [] -> bounds_valid (i_dvs I) ->
  (forall c, In c (i_cs I) -> supported c) ->
  (forall r, In r (i_rs I) -> exists c, r_c r = Some c /\ supported c) ->
  (forall i v, In (i, v) s -> forall d b, In d (i_dvs I) -> dv_id d = i -> dv_bound_of d = Some b -> bcontains b v tol7 = true) ->
  (forall i, occurs_in I i -> sget s i <> None) ->
  exists sol, inst_eval I s = Some sol.
Proof. exact inst_eval_total_simple. Qed.
Print Assumptions C05_total_simple.

(* the decision procedure: one boolean per conjunct *)
Theorem C05_succeeds_iff_diagnose : forall I s,
  (exists sol, inst_eval I s = Some sol) <-> forallb (fun b => b) (diagnose I s) = true.
Proof. exact inst_eval_succeeds_iff_diagnose. Qed.
Print Assumptions C05_succeeds_iff_diagnose.
Check inst_eval_frame_iff.
Check ex_ok.
Check ex_sticky.
Print Assumptions ex_ok.
