(* C14 — relaxing and restoring constraints only moves them.  Property theorems only. *)
Require Import Ommx.Num Ommx.Poly Ommx.Msg Ommx.Eval Ommx.Tree Ommx.Inst Ommx.InstProofs Ommx.Relax Ommx.Samples Ommx.SamplesProofs Ommx.SamplesCompose.
From Coq Require Import Permutation.

(* any sequence of relax / restore operations leaves active + removed unchanged as a collection of
   (id, function, equality, metadata) records *)
Theorem C14_conserved : forall ops I, Permutation (all_constrs (run I ops)) (all_constrs I).
Proof. exact run_conserves. Qed.
Print Assumptions C14_conserved.

(* every constraint id stays in exactly one of the two lists *)
Theorem C14_partition : forall ops I,
  NoDup (map c_id (all_constrs I)) -> NoDup (map c_id (all_constrs (run I ops))).
Proof. exact run_ids_unique. Qed.
Print Assumptions C14_partition.

(* nothing else of the instance is touched *)
Theorem C14_frame : forall I o,
  let I' := fst (step I o) in
  i_sense I' = i_sense I /\ i_obj I' = i_obj I /\ i_dvs I' = i_dvs I /\ i_deps I' = i_deps I /\
  i_params I' = i_params I /\ i_hints I' = i_hints I /\ i_desc I' = i_desc I.
Proof. exact step_frame. Qed.
Print Assumptions C14_frame.

(* the given reason is recorded on the relaxed constraint *)
Theorem C14_reason : forall I id rs ps I', relax I id rs ps = Some I' ->
  exists c, c_id c = id /\ In c (i_cs I) /\ In {| r_c := Some c; r_reason := rs; r_params := ps |} (i_rs I').
Proof. exact relax_records_reason. Qed.
Print Assumptions C14_reason.

(* an operation naming an id that is not in the expected list fails, and changes nothing *)
Theorem C14_relax_fails_iff : forall I id rs ps,
  relax I id rs ps = None <-> ~ In id (map c_id (i_cs I)).
Proof. exact relax_fails_iff. Qed.
Print Assumptions C14_relax_fails_iff.
Theorem C14_restore_fails_iff : forall I id,
  restore I id = None <-> ~ In id (map c_id (removed_constrs (i_rs I))).
Proof. exact restore_fails_iff. Qed.
Print Assumptions C14_restore_fails_iff.
Theorem C14_fail_noop : forall I o I', step I o = (I', false) -> I' = I.
Proof. exact step_fail_noop. Qed.
Print Assumptions C14_fail_noop.

(* relaxed feasibility depends only on the active constraints, feasibility on all of them *)
Theorem C14_flags : forall I s sol, inst_eval I s = Some sol ->
  (so_feasible_relaxed sol = true <-> Forall (chold s) (i_cs I)) /\
  (so_feasible sol = true <-> Forall (chold s) (all_constrs I)).
Proof. exact flags_iff_all_hold. Qed.
Print Assumptions C14_flags.

(* so overall feasibility of any state is invariant under every history *)
Theorem C14_feasible_invariant : forall I ops s sol sol',
  inst_eval I s = Some sol -> inst_eval (run I ops) s = Some sol' ->
  so_feasible sol' = so_feasible sol.
Proof. exact run_feasible_invariant. Qed.
Print Assumptions C14_feasible_invariant.

(* ... also when the states are evaluated as a sample set: for every sample id k of a sample
   collection with distinct ids, the feasibility flag that get k reports before and after an
   arbitrary relax / restore history is the same (composition of C06_get_evaluate_samples with the
   invariance above; the states are assumed to evaluate alone, i.e. to be in bound and covering) *)
Theorem C14_samples_feasible_invariant : forall I ops S k st ss ss' m m' e e',
  NoDup (samples_ids S) -> samples_state S k = Some st ->
  inst_eval I st = Some e -> inst_eval (run I ops) st = Some e' ->
  inst_eval_samples I S = Some ss -> inst_eval_samples (run I ops) S = Some ss' ->
  ss_get ss k = Some m -> ss_get ss' k = Some m' ->
  so_feasible m' = so_feasible m.
Proof.
  intros I ops S k st ss ss' m m' e e' ND Hk E E' Es Es' G G'.
  destruct (get_evaluate_samples S k st ND Hk I ss m e Es G E) as (_ & _ & _ & F & _).
  destruct (get_evaluate_samples S k st ND Hk (run I ops) ss' m' e' Es' G' E') as (_ & _ & _ & F' & _).
  rewrite F, F'. eapply run_feasible_invariant; eauto.
Qed.
Print Assumptions C14_samples_feasible_invariant.

Example C14_nonvacuous :
  let c k := {| c_id := k; c_eq := 2; c_fn := Some (FConst (qz 1)); c_meta := [] |} in
  let I := {| i_sense := 1; i_obj := None; i_dvs := []; i_cs := [c 1%N; c 2%N]; i_rs := [];
              i_deps := []; i_params := None; i_hints := L []; i_desc := L [] |} in
  let J := run I [Relax 2 (L []) (L []); Relax 7 (L []) (L []); Restore 2; Relax 1 (L []) (L [])] in
  map c_id (i_cs J) = [2%N] /\ map c_id (removed_constrs (i_rs J)) = [1%N].
Proof. vm_compute. split; reflexivity. Qed.
