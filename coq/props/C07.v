(* C07 — the wire format matches the published schema and round-trips.
   Property theorems only; each is closed by [exact] of a lemma of the development or of the
   obligations regenerated from /repo on every run (coq/gen/SchemaAgree.v). *)
Require Import Ommx.Tree Ommx.Schema Ommx.Wire Ommx.Codec Ommx.CodecProof Ommx.CodecEq Ommx.CodecAny Ommx.RunC07.
Require Import OmmxGen.SchemaProto OmmxGen.SchemaRust OmmxGen.SchemaPy OmmxGen.SchemaAgree.
From Coq Require Import String List NArith ZArith.
Import ListNotations.

(* GENERATED OBLIGATION: the schema read from the #[prost] attributes of ommx.v1.rs and the schema
   read from the descriptors embedded in the *_pb2.py files both equal the schema read from the
   .proto files — field numbers, names, types, labels (implicit / optional / repeated+packed /
   map / oneof group) of every message and the (name, number) lists of every enum. *)
Theorem C07_schemas_agree : schema_rust = schema_proto /\ schema_py = schema_proto.
Proof. exact schemas_agree. Qed.
Print Assumptions C07_schemas_agree.

(* GENERATED OBLIGATION: the published schema is well formed (field numbers in 1..2^29-1 outside
   19000-19999 and unique, unique names, referenced types exist, map keys integral or string,
   packed only on packable types, enums start at 0 and fit int32). *)
Theorem C07_schema_wf : wf_schema schema_proto = true.
Proof. exact schema_wf. Qed.
Print Assumptions C07_schema_wf.

(* GENERATED OBLIGATION: the codec model implements every scalar kind the schema uses. *)
Theorem C07_schema_supported : codec_supports schema_proto = true.
Proof. exact schema_supported. Qed.
Print Assumptions C07_schema_supported.

(* the boolean comparison used by the obligations is sound *)
Theorem C07_schema_eqb_sound : forall a b, schema_eqb a b = true -> a = b.
Proof. exact schema_eqb_sound. Qed.
Print Assumptions C07_schema_eqb_sound.

(* wire layer: every 64-bit value survives the base-128 varint encoding, whatever follows *)
Theorem C07_varint_roundtrip : forall n r, (n < 2 ^ 64)%N ->
  dec_varint (enc_varint n ++ r) = Some (n, r).
Proof. exact varint_roundtrip. Qed.
Print Assumptions C07_varint_roundtrip.

(* wire layer: any sequence of well-formed records (varint / 64-bit / length-delimited / 32-bit,
   field numbers 1..2^29-1) is parsed back from its serialisation *)
Theorem C07_records_roundtrip : forall rs, wf_records rs -> parse_records (enc_records rs) = Some rs.
Proof. exact records_roundtrip. Qed.
Print Assumptions C07_records_roundtrip.

(* wire layer: signed 64-bit integers and int32 enum numbers survive two's-complement transport *)
Theorem C07_i64_roundtrip : forall z, (- 2 ^ 63 <= z < 2 ^ 63)%Z -> u64_to_z (z_to_u64 z) = z.
Proof. exact i64_roundtrip. Qed.
Print Assumptions C07_i64_roundtrip.
Theorem C07_enum_roundtrip : forall z, (- 2 ^ 31 <= z < 2 ^ 31)%Z -> u64_to_i32 (z_to_u64 z) = z.
Proof. exact i32_roundtrip. Qed.
Print Assumptions C07_enum_roundtrip.

(* schema layer: for EVERY well-formed schema, every typed message value (unique field numbers,
   at most one arm per oneof, leaves in range, unique map keys, payloads < 2^64 bytes) is decoded
   from its encoding to its normal form (implicit defaults and empty repeated / map fields
   dropped, nested messages normalised) *)
Theorem C07_codec_roundtrip : forall sch, wf_schema sch = true ->
  forall m v, typed sch m v ->
  decode sch (fuel_for v) m (encode sch m v) = Some (norm sch m v).
Proof. exact codec_roundtrip. Qed.
Print Assumptions C07_codec_roundtrip.

(* ... hence at the schema regenerated from /repo's .proto files on this run *)
Theorem C07_roundtrip_at_published_schema : forall m v, typed schema_proto m v ->
  decode schema_proto (fuel_for v) m (encode schema_proto m v) = Some (norm schema_proto m v).
Proof. exact (codec_roundtrip schema_proto schema_wf). Qed.
Print Assumptions C07_roundtrip_at_published_schema.

(* unknown fields (varint / 64-bit / length-delimited / 32-bit records whose number is not in the
   descriptor), anywhere in the message tree, are skipped: the result is the same normal form *)
Theorem C07_codec_unknown_fields : forall sch, wf_schema sch = true ->
  forall m v, typedb sch true m v = true ->
  decode sch (fuel_for v) m (encode sch m v) = Some (norm sch m v).
Proof. exact codec_unknown_fields. Qed.
Print Assumptions C07_codec_unknown_fields.

(* any decoder recursion budget above the nesting depth works (prost's limit is 100; the
   correspondence runner uses 100) *)
Theorem C07_codec_roundtrip_any_fuel : forall sch, wf_schema sch = true ->
  forall m v fuel, typedb sch true m v = true -> (depth v <= fuel)%nat ->
  decode sch fuel m (encode sch m v) = Some (norm sch m v).
Proof. exact codec_roundtrip_any_fuel. Qed.
Print Assumptions C07_codec_roundtrip_any_fuel.

(* an unset oneof (more generally any absent field) is still absent after the round trip *)
Theorem C07_codec_unset_oneof : forall sch, wf_schema sch = true ->
  forall m fs, typed sch m (VMsg fs) ->
  exists fs', decode sch (fuel_for (VMsg fs)) m (encode sch m (VMsg fs)) = Some (VMsg fs') /\
              forall n, ~ In n (keys fs) -> ~ In n (keys fs').
Proof. exact codec_unset_oneof. Qed.
Print Assumptions C07_codec_unset_oneof.

(* decoding ANY conforming encoding (Tier B): whatever liberties the writer of the bytes took --
   fields and map entries in any order and interleaving, a repeated scalar given packed, unpacked
   or as several packed runs, a singular scalar written several times (last wins), a singular
   message written in several pieces (merged), default values written out or omitted (also map keys
   and values), unknown fields anywhere, at every nesting level -- the decoder returns the normal
   form of the value, up to the order of fields and map entries ([veq]); in sorted form ([canon])
   exactly; and it is what decoding the model encoder's own output returns.  For every schema,
   value and size. *)
Theorem C07_decode_any_encoding : forall sch m v bytes fuel,
  typedb sch true m v = true -> conforming_bytes sch m v bytes -> (depth v <= fuel)%nat ->
  exists w, decode sch fuel m bytes = Some w /\ veq w (norm sch m v).
Proof. exact codec_decode_any_encoding. Qed.
Print Assumptions C07_decode_any_encoding.
Theorem C07_decode_any_encoding_canon : forall sch, wf_schema sch = true ->
  forall m v bytes fuel,
  typedb sch true m v = true -> conforming_bytes sch m v bytes -> (depth v <= fuel)%nat ->
  exists w, decode sch fuel m bytes = Some w /\ canon w = canon (norm sch m v).
Proof. exact codec_decode_any_encoding_canon. Qed.
Print Assumptions C07_decode_any_encoding_canon.
(* the relation is not vacuous: the model encoder's output conforms *)
Theorem C07_encode_conforming : forall sch, wf_schema sch = true ->
  forall m v, typedb sch true m v = true -> conforming_bytes sch m v (encode sch m v).
Proof. exact encode_conforming. Qed.
Print Assumptions C07_encode_conforming.

(* the comparator used by the correspondence check is sound: an exact-content verdict certifies
   that the bytes (prost's or protoc's) decode under the published schema to the normal form of
   the generated value, up to the order of fields and of map entries *)
Theorem C07_comparator_sound : forall ty v bs,
  check_content ty v bs false = inl None ->
  exists w, decode schema_proto FUEL ty bs = Some w /\ canon w = canon (norm schema_proto ty v).
Proof. exact check_content_sound. Qed.
Print Assumptions C07_comparator_sound.

(* non-vacuity: at the regenerated schema the model encodes a Linear message to exactly the bytes
   `protoc --encode=ommx.v1.Linear` produces for
   `terms { id: 3 coefficient: 1.5 } constant: -0.0`, and decodes them back *)
Example C07_nonvacuous :
  let lin := VMsg [(1, VList [VMsg [(1, VU64 3); (2, VF64 4609434218613702656)]]);
                   (2, VF64 9223372036854775808)]%N in
  encode schema_proto "linear" lin =
    [10; 11; 8; 3; 17; 0; 0; 0; 0; 0; 0; 248; 63; 17; 0; 0; 0; 0; 0; 0; 0; 128]%N /\
  decode schema_proto 3 "linear" (encode schema_proto "linear" lin) = Some lin /\
  typed schema_proto "linear" lin.
Proof. vm_compute. repeat split; reflexivity. Qed.
