#!/usr/bin/env python3
"""Rebuilds /verif/DESIGN.md = title + status note + section 0 (tools/design_status.md with the seeded
table filled in from seeded/*/meta.json, result.json, history.json) + the original design
(tools/design_plan.md: sections 1-10 and the appendices, as written before the framework existed)."""
import io
import os
import subprocess
import sys

V = os.path.dirname(os.path.dirname(os.path.abspath(__file__)))

HEAD = """# DESIGN — deciding the 20 ommx properties by machine-checked proof in Rocq (Coq 8.16)

Status of this file: sections 1–10 and the appendices are the design written **before** any
framework code (approach, formal statements, tie between model and code, reporting protocol,
trusted base, one subsection per property). **Section 0 was added afterwards** and records what was
actually built, the defects found and repaired in `/repo`, the false alarms of the machinery and
how they were corrected, the seeded changes and which check catches which, and the final trusted
base. Where section 0 and a later section disagree, section 0 is right.

---------------------------------------------------------------------------------

"""

SEEDED_INTRO = """Two kinds of seeded changes are kept under `seeded/<name>/` (`patch.diff`, `meta.json`, the
demonstration, `confirm.log`, `result.json` written by `tools/seeded.py`, `history.json` where a
check had to be strengthened):

* `Cxx-revert-<commit>`: the reversal of every `fix:` commit (the defect of the pinned tree comes
  back). Each must be caught by the property's quick check.
* `Cxx-agent`, `Cxx-agent2`, ..., `Cxx-agent5` (all twenty properties) and `Cxx-agent6` (twelve properties: C01-C06,
  C08-C10, C12-C14): five or six changes per property, each written by a fresh
  sub-agent that was given only the text of the property and a scratch worktree of `/repo`
  (nothing from `/verif`; the briefs are kept as `seeded/BRIEF_batch*_example_C08.txt`), asked for
  a plausible refactoring that breaks the property, still compiles, passes the 102 existing tests
  and needs something specific to manifest, with a demonstration test. The second and third batch
  and later batches were additionally told which changes already existed, so as to hit a different
  function and clause (third and fourth batch: preferably a multi-step sequence, a boundary value,
  an unusual-but-legal representation or two cooperating sites; fourth batch: with a note on which
  representations the schema allows; fifth batch: additionally asked for a code path none of the earlier four
  touches -- another public method, a conversion, an accessor, an error path -- and for the interplay of two
  public operations or an extreme-but-legal value). Each change was confirmed in a scratch worktree before
  it was kept (`tools/confirm_seed.sh`: the 102 tests pass with the change, the demonstration
  fails with it and passes without it); the worktrees were removed. One candidate was **rejected**
  (`seeded/rejected/C13-agent3`): it only manifests for a Quadratic message with a duplicated
  (row, column) position, which `quadratic.proto` forbids, so it does not break the property (the
  C13 check, correctly, did not flag it); a replacement was requested and is kept as `C13-agent3`.

`python3 tools/seeded.py seeded/<name>` applies the patch to `/repo`, runs the property's quick
check, restores `/repo` and records the outcome. First-run outcomes: all 17 reversals DETECTED;
78 of the 112 agent changes DETECTED (batch 1: 19/20, batch 2: 17/20, batch 3: 15/20, batch 4:
12/20, batch 5: 12/19 plus one whose stream was added beforehand, batch 6: 3/12 -- the later batches were
steered away from everything already covered, so each batch measures what is still uncovered, not the
detection rate of the whole). The thirty-three misses and what was done (each is DETECTED now):

* `C02-agent` (Quadratic+Quadratic keyed by the unordered pair): the quick tier ran only two
  Quadratic+Quadratic pairs and no operand listed both (i,j) and (j,i) -> stream `asym`.
* `C02-agent2` (constant fast path through `get_constant()`): no degree-0 polynomial with its
  constant split over several empty-id monomials was generated -> stream `splitconst`.
* `C12-agent2` (bit count from the float width): fractional bounds were never combined with an
  integer width of exactly 2^k-2 and outward slack > 1 -> stream `width-frac`.
* `C20-agent2` (listing accessors return the first layer with the same digest): the harness never
  called `get_instances` / `get_solutions` -> they are observed and judged now (`judge_listing`).
* `C05-agent3` (quadratic term skipped when the row value is 0): no state lacked a variable that
  occurs only as a column factor next to a zero-valued row partner -> deterministic cases.
* `C08-agent3` (explicit `[0,0]` bound read as absent): that bound had probability < 1% ->
  `rand_bound` produces it at 6% and C08 adds two deterministic `zero-bound` cases per instance.
* `C11-agent3` (deferred removal of cancelled PUBO keys): no three monomials collapsing onto one
  key with an exactly cancelling proper prefix -> stream `prefix-cancel`.
* `C13-agent3` (Linear+Linear keeps the last duplicate of the left operand): only merged
  functions were generated -> the exact streams also spell coefficients as repeated entries.
* `C14-agent3` (evaluate_samples short-circuits removed constraints for all samples): histories
  were observed through `evaluate` only -> `evaluate_samples` on several states is observed after
  every step and judged per sample against the model (`judge_sample_flags`).

* `C03-agent4` (early return of `Function::partial_evaluate` for "degree 0"): no Quadratic with an
  explicit zero entry had its linear variables fixed first -> stream `steps/zero-entry`.
* `C06-agent4` (`<=` instead of `<` in the sampled feasibility test): no sample sat exactly on the
  tolerance -> stream `tolerance` (1e-6 and its binary64 neighbours, both signs, both kinds).
* `C09-agent4` (weights allocated from the sorted id set, zipped with storage order): generated
  constraint lists were always ascending -> `tools/gen/inst.py` shuffles both lists half of the time.
* `C12-agent4` (fresh-id base computed before the lookup): no instance without variables ->
  error case `err/empty-instance`.
* `C13-agent4` (`get_bounds` gives `[0,0]` to an integer variable without bound): integer variables
  always had a bound -> 12% are unbounded in the conversion cases (range-limit rejection).
* `C14-agent4` (removed iff the reason is non-empty): reasons were never empty -> empty reason
  strings in 30% of the relax operations and 20% of generated removed constraints.
* `C16-agent4` (`as i64` saturation in `as_integer_bound`): no endpoint beyond 2^63 -> stream
  `boundary/as_integer_bound_huge`.
* `C18-agent4` (`get_constant()` in `write_rhs`): the Polynomial rendering of a linear row had at
  most one constant monomial -> it spreads the constant over several 40% of the time.

* `C01-agent5` (row lookup cached with `u64::MAX` as the "no row yet" sentinel): ids stopped at 2^62 ->
  extreme ids in 8% of the pools and a deterministic `maxid` stream.
* `C02-agent5` (`From<&DecisionVariable> for Linear` returns the constant `substituted_value`): variable
  operands were bare ids -> 35% are full `DecisionVariable` messages (kind, bound, fixed value, name).
* `C07-agent5` (artifact getters reject blobs whose length differs from prost's re-encoding): foreign
  encodings were decoded directly only -> phase 2e stores them as layer blobs of a local archive and
  judges what the typed and the listing accessors return (`c07_artifact_foreign`).
* `C08-agent5` (early return of `validate_decision_variable_ids` when no id is used): every base
  instance used a variable -> a variable-free variant of each, with duplicated ids.
* `C10-agent5` (`Linear::partial_evaluate` keeps terms with |c| <= eps): the result was compared as a
  formal polynomial, where a surviving `0*p` is invisible -> the instantiated instance is now also
  evaluated at a state over the decision variables (`with_parameters_eval`, `RunC10.v`) and a stream
  plants zero-coefficient parameter terms.
* `C12-agent5` (`defined_ids` skips fixed variables): no other variable was fixed -> fixed variables
  (the largest id among them) in 30% of the instances and a `fixed-above` stream.
* `C13-agent5` (`Quadratic::used_decision_variable_ids` empty without linear part): the continuous
  fault never sat in a quadratic entry -> it does, and a `pure-quad` stream converts `c*x_a*x_b <= 0`.

* `C01-agent6` (`Function::evaluate_samples` dispatches on the variant; the unset oneof gives no values): only
  `evaluate` was exercised -> the harness also runs `evaluate_samples` on the same state and both must agree.
* `C02-agent6` (`impl Sub for Function`, sign slip in the `c - f` arm): a Constant variant on the left of a generic
  `Function - Function` only arose by chance -> stream `variant` (every ordered pair of stored variants, every operator).
* `C03-agent6` (`Instance::evaluate` inserts fixed values after the dependency pass): no fixed part assigned a dependent
  variable -> stale in-bound values for dependent variables in 35% of the instances with dependencies.
* `C04-agent6` (`Instance::partial_evaluate` leaves the dependency functions alone): nothing fixed a variable after a
  substitution and read the result through `evaluate_samples` -> stream `inst/fix-then-samples` (`subst_pe_samples`).
* `C09-agent6` (penalty methods drop removed constraints carrying a `parameter_id` reason parameter): no removed
  constraint looked like the leftover of a penalty round -> one in four does.
* `C10-agent6` (`Function::partial_evaluate` returns early when `degree() == 0`): zero coefficients of a parameter were
  planted in Linear messages only -> Quadratic messages all of whose entries are explicit zeros.
* `C12-agent6` (tag clamped to `i64::MAX`): encoded ids stopped at 2^62 -> ids around and above 2^63; the model now
  renders the tag as `id as i64` (`Transform.as_i64`, `C12_tag_identifies`).
* `C13-agent6` (`defined_ids` skips fixed variables): no variable was fixed -> the largest-id variable is fixed in 40%.
* `C14-agent6` (removed constraints judged with the 1e-7 tolerance in `Instance::evaluate`): no residual between 1e-7
  and 1e-6 -> stream `near-tolerance` (exact dyadic residuals 2^-21, 2^-24, 2^-19 along histories).

A full regression of every seed after each batch of generator changes showed one chance-dependent detection
(`C01-agent2`, found by the random `missing` stream until other streams shifted it): its trigger is now produced by a
deterministic stream. A further regression under `VERIF_SEED=1` detected every seed (`seeded/*/result_seed1.json`).

Three streams were added *before* the first run of the corresponding seed, after reading its
description, because the generator could not have produced the needed input: two- and three-step
`Instance::partial_evaluate` (`C03-agent`), binary variables without explicit bound at
out-of-range values (`C05-agent`) and the penalty path after a substitution (`C04-agent5`:
substitute -> `uniform_penalty_method` -> `with_parameters` -> evaluate, op `subst_penalty_eval`). Every miss was a gap of a *generator or an observation*, none
of a theorem or of the model; a hanging SDK (`C04-agent3`) showed that the watchdog made a check
take tens of minutes, so a shard now stops after four hangs and hang cases are not shrunk.
The table is regenerated from the result files by `tools/build_design.py`.

"""


def main():
    status = open(os.path.join(V, "tools", "design_status.md")).read()
    table = subprocess.run([sys.executable, os.path.join(V, "tools", "seeded_table.py")], stdout=subprocess.PIPE).stdout.decode()
    status = status.replace("SEEDED_TABLE", SEEDED_INTRO + table)
    plan = open(os.path.join(V, "tools", "design_plan.md")).read()
    open(os.path.join(V, "DESIGN.md"), "w").write(HEAD + status.rstrip() + "\n\n---------------------------------------------------------------------------------\n\n" + plan)
    print("DESIGN.md written:", len((HEAD + status + plan).split("\n")), "lines")


if __name__ == "__main__":
    main()
