#!/usr/bin/env python3
"""Entry point of every quick_cmd / thorough_cmd:  tools/check.py Cxx --tier quick|thorough
   [--replay path].  Exit 0 = property held on everything explored (KNOWN-FINDING lines allowed),
   exit 1 + `VIOLATION property=<id> replay=<path>` otherwise, exit 2 = the machinery itself is
   broken (a generator wrote a case the Coq decoders reject) — never dressed up as a violation."""
import argparse
import importlib
import json
import os
import random
import sys
import time

sys.path.insert(0, os.path.dirname(os.path.abspath(__file__)))
import common as C  # noqa: E402


def load_module(prop):
    return importlib.import_module("props." + prop.lower())


def verdict_kind(v):
    return v[0] if isinstance(v, list) and v and isinstance(v[0], str) else "malformed"


def run_cases(mod, cases):
    """cases: list of dict(op, input, ...) -> adds 'sdk' and 'verdict'"""
    res = C.run_harness([[c["op"], c["input"]] for c in cases],
                        per_case_timeout=getattr(mod, "PER_CASE_TIMEOUT", 20.0))
    for c, r in zip(cases, res):
        c["sdk"] = r
    # cases left unrun after repeated hangs of the SDK are dropped (the hangs themselves are judged)
    dropped = [c for c in cases if c["sdk"] == ["not-run"]]
    if dropped:
        cases[:] = [c for c in cases if c["sdk"] != ["not-run"]]
        print("note: %d cases were not run after repeated hangs / crashes of the SDK" % len(dropped))
    module, fn = mod.RUNNER
    trees = [[c["op"], c["input"], c["sdk"]] for c in cases]
    verdicts = C.run_in_coq(mod.PROP, module, fn, trees, shard_size=getattr(mod, "SHARD", 400))
    for c, v in zip(cases, verdicts):
        c["verdict"] = v
    return cases


def shrink_candidates(t, path=()):
    """yield (description, new_tree) single-step simplifications of a tree"""
    if isinstance(t, list):
        for k in range(len(t)):
            yield t[:k] + t[k + 1:]
        for k, x in enumerate(t):
            for y in shrink_candidates(x):
                yield t[:k] + [y] + t[k + 1:]
    elif isinstance(t, dict):
        z = C.f64(0.0)
        o = C.f64(1.0)
        if t != z:
            yield z
        if t != o and t != z:
            yield o
    elif isinstance(t, int) and not isinstance(t, bool):
        if t not in (0, 1):
            yield 0
            yield 1


def shrink(mod, case, rounds=None, batch=150):
    """greedy shrinking of a disagreeing case; keeps op and the clause of the disagreement"""
    if rounds is None:
        rounds = int(os.environ.get("VERIF_SHRINK_ROUNDS", "8"))
    clause = case["verdict"][1] if len(case["verdict"]) > 1 else None
    cur = case
    for _ in range(rounds):
        cands = []
        for y in shrink_candidates(cur["input"]):
            cands.append({"op": cur["op"], "input": y, "stream": cur.get("stream", "?")})
            if len(cands) >= batch:
                break
        if not cands:
            break
        try:
            run_cases(mod, cands)
        except Exception:
            break
        better = None
        for c in cands:
            v = c["verdict"]
            if verdict_kind(v) == "disagree" and (clause is None or v[1] == clause):
                better = c
                break
        if better is None:
            break
        cur = better
    return cur


def classify_known(mod, case, known):
    classes = getattr(mod, "KNOWN_CLASSES", {})
    for e in known:
        pred = classes.get(e.get("class"))
        if pred is not None:
            try:
                if pred(case):
                    return e
            except Exception:
                pass
    return None


def main():
    ap = argparse.ArgumentParser()
    ap.add_argument("prop")
    ap.add_argument("--tier", default=os.environ.get("VERIF_TIER", "quick"))
    ap.add_argument("--replay", default=None)
    args = ap.parse_args()
    prop = args.prop.upper()
    tier = args.tier if args.tier in ("quick", "thorough") else "quick"
    seed = int(os.environ.get("VERIF_SEED", "20260930"))
    t0 = time.time()
    mod = load_module(prop)
    if hasattr(mod, "main"):
        # properties with their own pipeline (two-phase, translators) reuse the pieces below
        sys.exit(mod.main(tier=tier, seed=seed, replay=args.replay))
    sys.exit(generic_main(mod, tier, seed, args.replay, t0))


def generic_main(mod, tier, seed, replay, t0, extra_evidence=None, pre_violations=None):
    prop = mod.PROP
    rng = random.Random(seed)
    violations = list(pre_violations or [])     # (replay_path, suffix)
    known_lines = []
    notes = []

    # 1. proofs
    bad_hyg = C.hygiene()
    if hasattr(mod, "pregen"):
        mod.pregen()
    audit = C.audit_props(prop, extra_targets=getattr(mod, "COQ_TARGETS", []))
    proof_ok = audit["ok"] and not bad_hyg
    if not proof_ok:
        notes.append("proof audit failed")
    # the runner the cases are judged by must be the one compiled from the current sources: a stale .vo
    # (its .v no longer compiles) would silently judge with an old model
    for tgt in getattr(mod, "COQ_TARGETS", []):
        rcq, _, _ = C.sh(["make", "-q", tgt], cwd=C.COQ, timeout=600)
        if rcq != 0:
            print("MACHINERY ERROR: %s is not up to date with its sources (the model does not compile):\n%s"
                  % (tgt, audit["log"][-1500:]))
            return 2

    # 2. harness
    ok, out, secs = C.build_harness()
    cases = []
    stats = {}
    if not ok:
        path = C.write_replay(prop, {"property": prop, "broken": "correspondence:harness-build",
                                     "detail": out[-3000:]})
        violations.append((path, " no-failing-input-found"))
    elif not audit["ok"] and "Error" in audit["log"] and not os.path.exists(
            os.path.join(C.COQ, "theories", mod.RUNNER[0] + ".vo")):
        pass
    else:
        # 3. cases
        if replay:
            payload = json.load(open(replay))
            cases = [{"op": payload["op"], "input": payload["input"], "stream": "replay"}]
        else:
            cdir = os.path.join(C.VERIF, "corpus", prop)
            if os.path.isdir(cdir):
                for fn in sorted(os.listdir(cdir)):
                    if fn.endswith(".json"):
                        p = json.load(open(os.path.join(cdir, fn)))
                        cases.append({"op": p["op"], "input": p["input"], "stream": "corpus"})
            cases += mod.gen(rng, tier)
        run_cases(mod, cases)

        # 4. decide
        known = C.load_known(prop)
        counts = {}
        by_stream = {}
        seen_known = {}
        disagreements = []
        for c in cases:
            k = verdict_kind(c["verdict"])
            counts[k] = counts.get(k, 0) + 1
            s = by_stream.setdefault(c.get("stream", "?"), {"n": 0, "agree": 0})
            s["n"] += 1
            if k == "agree":
                s["agree"] += 1
                for t in c["verdict"][1]:
                    stats[t] = stats.get(t, 0) + 1
            elif k == "badcase":
                print("MACHINERY ERROR: Coq decoder rejected a generated case (%s): %s" %
                      (c["verdict"][1:], json.dumps([c["op"], c["input"]])[:600]))
                return 2
            else:
                disagreements.append(c)
        reported = 0
        for c in disagreements:
            e = classify_known(mod, c, known)
            if e is not None:
                seen_known.setdefault(e["id"], [e, 0])[1] += 1
                continue
            if reported >= 3:
                reported += 1
                continue
            # a hang / crash costs the whole watchdog time per candidate: reported as found, not shrunk
            small = shrink(mod, c) if (verdict_kind(c["verdict"]) == "disagree" and c["sdk"] not in (["hang"], ["crash"])) else c
            if classify_known(mod, small, known) is not None:
                small = c   # shrinking walked into a known class: keep the original
            kind = verdict_kind(small["verdict"])
            payload = {"property": prop, "op": small["op"], "input": small["input"],
                       "sdk_result": small["sdk"], "verdict": small["verdict"],
                       "clause": small["verdict"][1] if len(small["verdict"]) > 1 else None,
                       "readable": {"input": C.pretty_num(small["input"]), "sdk": C.pretty_num(small["sdk"]),
                                    "expected": C.pretty_num(small["verdict"][2]) if len(small["verdict"]) > 2 else None},
                       "authority": getattr(mod, "AUTHORITY", ""),
                       "stream": small.get("stream"), "seed": seed,
                       "replay_cmd": "python3 tools/check.py %s --replay <this file>" % prop}
            if kind == "badresult":
                payload["broken"] = "correspondence:%s" % small["op"]
                path = C.write_replay(prop, payload)
                violations.append((path, " no-failing-input-found"))
            else:
                path = C.write_replay(prop, payload)
                violations.append((path, ""))
            reported += 1
        for kid, (e, n) in seen_known.items():
            known_lines.append("KNOWN-FINDING: property=%s %s (%d cases this run)" % (prop, e["what"], n))
        stats["_counts"] = counts
        stats["_streams"] = by_stream
        stats["_disagreements"] = len(disagreements)

    if not proof_ok and not any(s == "" for _, s in violations):
        path = C.write_replay(prop, {"property": prop, "broken": "theorem:props/%s.v" % prop,
                                     "hygiene": bad_hyg, "bad_axioms": audit.get("bad_axioms"),
                                     "log": audit["log"]})
        violations.append((path, " no-failing-input-found"))

    # 5. evidence
    distinct = {}
    for c in cases:
        if "verdict" in c and verdict_kind(c["verdict"]) == "agree":
            h = C.tree_hash([c["op"], c["input"]])
            distinct[h] = mod.nontrivial(c) if hasattr(mod, "nontrivial") else True
    samples = []
    for c in cases[:: max(1, len(cases) // 5)][:5]:
        samples.append({"op": c["op"], "input": C.pretty_num(c["input"]), "sdk": C.pretty_num(c.get("sdk")),
                        "verdict": c.get("verdict")})
    ev = {
        "property_id": prop, "tier": tier, "seed": seed, "level": "proof",
        "coverage": {
            "obligations": audit["obligations"], "discharged": audit["discharged"],
            "checker_cmd": "make -C coq props/%s.vo (coqc 8.16.1, full .vo build) + tools/check.py %s" % (prop, prop),
            "trusted_base": getattr(mod, "TRUSTED", []) + [
                "Coq 8.16.1 kernel + vm_compute (no native_compute)",
                "axioms under Print Assumptions: %s" % (audit["axioms"] or "none (closed under the global context)"),
                "harness (tools/common.py, harness/src) and generators: bound what the correspondence sees",
            ],
            "theorems": audit["theorems"], "examples": audit["examples"],
            "evaluations": len(cases), "distinct_nontrivial": sum(1 for v in distinct.values() if v),
            "rule": getattr(mod, "RULE", ""),
            "samples": samples or [{"note": "no cases run"}],
            "correspondence": stats,
            "planned_not_proven": getattr(mod, "PLANNED", []),
            "hygiene_violations": bad_hyg,
        },
        "assumptions": getattr(mod, "ASSUMPTIONS", []),
        "wall_s": round(time.time() - t0, 1),
        "violations": len(violations),
    }
    if extra_evidence:
        ev["coverage"].update(extra_evidence)
    C.write_json(os.path.join(C.VERIF, "evidence", prop + ".json"), ev)

    for line in known_lines:
        print(line)
    for path, suffix in violations:
        print("VIOLATION property=%s replay=%s%s" % (prop, path, suffix))
    print("%s %s: %d cases, %s, proofs %d/%d, %.1fs" % (
        prop, tier, len(cases), stats.get("_counts"), audit["discharged"], audit["obligations"], time.time() - t0))
    return 1 if violations else 0


if __name__ == "__main__":
    main()
