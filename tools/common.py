"""Shared machinery of the checks: trees, Coq build / proof audit, harness driver,
in-Coq correspondence runner, known findings, evidence, reporting.

Every property check is `python3 tools/check.py Cxx --tier quick|thorough`; the
property-specific parts live in tools/props/cxx.py.
"""
import hashlib
import json
import os
import random
import re
import struct
import subprocess
import sys
import threading
import time
from concurrent.futures import ThreadPoolExecutor

VERIF = os.path.dirname(os.path.dirname(os.path.abspath(__file__)))
REPO = os.environ.get("OMMX_REPO", "/repo")
COQ = os.path.join(VERIF, "coq")
CACHE = os.path.join(VERIF, ".cache")
TARGET = os.path.join(CACHE, "target")
HARNESS_BIN = os.path.join(TARGET, "release", "harness")
HOOK_CFG = "ommx_verif"
NPROC = min(16, os.cpu_count() or 4)

AXIOM_ALLOW = {
    # standard-library axioms that may appear under Print Assumptions (named in DESIGN.md §5)
    "functional_extensionality_dep",
    "FunctionalExtensionality.functional_extensionality_dep",
}

# ----------------------------------------------------------------------------------
# trees: str = atom, int = integer, {"f": bits} = f64 bit pattern, list = list


def f64(x):
    """float -> F tree (raw bits)"""
    return {"f": struct.unpack("<Q", struct.pack("<d", float(x)))[0]}


def from_bits(t):
    return struct.unpack("<d", struct.pack("<Q", t["f"]))[0]


def is_f(t):
    return isinstance(t, dict)


def coq_str(s):
    return '"' + s.replace('"', '""') + '"'


def to_coq(t):
    if isinstance(t, str):
        return "A " + coq_str(t)
    if isinstance(t, bool):
        return "I %d" % int(t)
    if isinstance(t, int):
        return "I %d" % t if t >= 0 else "I (%d)" % t
    if isinstance(t, dict):
        return "F %d" % t["f"]
    if isinstance(t, (list, tuple)):
        return "L [" + "; ".join(to_coq(x) for x in t) + "]"
    raise TypeError("not a tree: %r" % (t,))


_TOK = re.compile(r'\s*(?:("(?:[^"]|"")*")|([\[\];()])|(-?\d+)(?:%[A-Za-z]+)?|([A-Za-z_][A-Za-z_0-9.]*)|(-))')


def _tokens(text):
    pos = 0
    n = len(text)
    while pos < n:
        m = _TOK.match(text, pos)
        if not m:
            if text[pos:].strip() == "":
                return
            raise ValueError("cannot tokenise Coq output at: %r" % text[pos:pos + 60])
        pos = m.end()
        if m.group(1) is not None:
            yield ("s", m.group(1)[1:-1].replace('""', '"'))
        elif m.group(2) is not None:
            yield (m.group(2), None)
        elif m.group(3) is not None:
            yield ("n", int(m.group(3)))
        elif m.group(4) is not None:
            yield ("id", m.group(4))
        else:
            yield ("-", None)


class _P:
    def __init__(self, toks):
        self.t = list(toks)
        self.i = 0

    def peek(self):
        return self.t[self.i] if self.i < len(self.t) else (None, None)

    def next(self):
        x = self.peek()
        self.i += 1
        return x

    def expect(self, k):
        x = self.next()
        if x[0] != k:
            raise ValueError("expected %r got %r at token %d" % (k, x, self.i))
        return x

    def znum(self):
        k, v = self.next()
        if k == "n":
            return v
        if k == "(":
            k2, v2 = self.next()
            if k2 == "-":
                k3, v3 = self.expect("n")
                v2 = -v3
            elif k2 != "n":
                raise ValueError("bad number")
            self.expect(")")
            return v2
        raise ValueError("bad number token %r" % k)

    def tree(self):
        k, v = self.next()
        if k == "(":
            t = self.tree()
            self.expect(")")
            return t
        if k != "id":
            raise ValueError("expected constructor, got %r %r" % (k, v))
        if v == "A":
            return self.expect("s")[1]
        if v == "I":
            return self.znum()
        if v == "F":
            return {"f": self.znum()}
        if v == "L":
            return self.list()
        raise ValueError("unknown constructor %r" % v)

    def list(self):
        self.expect("[")
        out = []
        if self.peek()[0] == "]":
            self.next()
            return out
        while True:
            out.append(self.tree())
            k, _ = self.next()
            if k == "]":
                return out
            if k != ";":
                raise ValueError("expected ; or ]")


def parse_coq_tree_list(text):
    """parse the `= [ ... ] : list tree` answer of one Eval vm_compute"""
    a = text.index("=")
    b = text.rindex(": list tree")
    p = _P(_tokens(text[a + 1:b]))
    out = p.list()
    return out


# ----------------------------------------------------------------------------------
# Coq build and proof audit


def sh(cmd, cwd=None, timeout=None, env=None):
    t0 = time.time()
    try:
        r = subprocess.run(cmd, cwd=cwd, shell=isinstance(cmd, str), stdout=subprocess.PIPE,
                           stderr=subprocess.STDOUT, timeout=timeout, env=env)
        return r.returncode, r.stdout.decode("utf-8", "replace"), time.time() - t0
    except subprocess.TimeoutExpired as e:
        out = (e.stdout or b"").decode("utf-8", "replace")
        return 124, out + "\n[timeout after %ss]" % timeout, time.time() - t0


def coq_makefile():
    mk = os.path.join(COQ, "Makefile")
    srcs = []
    for d in ("theories", "props", "gen"):
        p = os.path.join(COQ, d)
        if os.path.isdir(p):
            srcs += sorted(os.path.join(d, x) for x in os.listdir(p) if x.endswith(".v"))
    stamp = "\n".join(srcs)
    stamp_file = os.path.join(COQ, ".srcs.stamp")
    old = open(stamp_file).read() if os.path.exists(stamp_file) else None
    if old != stamp or not os.path.exists(mk):
        rc, out, _ = sh("coq_makefile -f _CoqProject -o Makefile " + " ".join(srcs), cwd=COQ, timeout=120)
        if rc != 0:
            raise RuntimeError("coq_makefile failed:\n" + out)
        open(stamp_file, "w").write(stamp)


def coq_make(targets, timeout=3000):
    """full .vo build of the given targets (relative to coq/), under a shell timeout"""
    coq_makefile()
    return sh(["timeout", str(timeout), "make", "-j%d" % NPROC] + list(targets), cwd=COQ, timeout=timeout + 30)


FORBIDDEN = re.compile(
    r"\b(Admitted|admit|Axiom|Axioms|Parameter|Parameters|Conjecture|Conjectures|Hypothesis|Hypotheses|Variable|Variables|"
    r"Admit Obligations|bypass_check|Unset Guard Checking|Unset Positivity Checking|Unset Universe Checking|"
    r"type-in-type|impredicative-set|native_compute)\b")


def strip_coq_comments(src):
    out = []
    depth = 0
    i = 0
    n = len(src)
    instr = False
    while i < n:
        if depth == 0 and src[i] == '"':
            instr = not instr
            out.append(src[i])
            i += 1
            continue
        if not instr and src.startswith("(*", i):
            depth += 1
            i += 2
            continue
        if not instr and depth > 0 and src.startswith("*)", i):
            depth -= 1
            i += 2
            continue
        if depth == 0:
            out.append(src[i])
        i += 1
    return "".join(out)


def hygiene():
    """no Admitted/admit/Axiom/... anywhere in the development; Variable/Hypothesis only
    inside a Section (checked by tracking Section/End nesting)."""
    bad = []
    for d in ("theories", "props", "gen"):
        p = os.path.join(COQ, d)
        if not os.path.isdir(p):
            continue
        for fn in sorted(os.listdir(p)):
            if not fn.endswith(".v"):
                continue
            src = strip_coq_comments(open(os.path.join(p, fn)).read())
            depth = 0
            for ln, line in enumerate(src.split("\n"), 1):
                if re.match(r"\s*Section\b", line):
                    depth += 1
                for m in FORBIDDEN.finditer(line):
                    w = m.group(1)
                    if w in ("Variable", "Variables", "Hypothesis", "Hypotheses") and depth > 0:
                        continue
                    bad.append("%s/%s:%d: %s" % (d, fn, ln, w))
                if re.match(r"\s*End\b", line) and depth > 0:
                    depth -= 1
    return bad


def audit_props(prop, extra_targets=()):
    """(re)compile props/<prop>.v from a clean .vo, capture Print Assumptions, count theorems.
    Returns dict(ok, obligations, discharged, theorems, axioms, log)."""
    vo = os.path.join(COQ, "props", prop + ".vo")
    if os.path.exists(vo):
        os.remove(vo)
    rc, out, secs = coq_make(list(extra_targets) + ["props/%s.vo" % prop])
    src = strip_coq_comments(open(os.path.join(COQ, "props", prop + ".v")).read())
    theorems = re.findall(r"^\s*(?:Theorem|Lemma|Corollary)\s+([A-Za-z0-9_']+)", src, re.M)
    examples = re.findall(r"^\s*Example\s+([A-Za-z0-9_']+)", src, re.M)
    printed = re.findall(r"^\s*Print Assumptions\s+([A-Za-z0-9_']+)", src, re.M)
    res = {"ok": rc == 0, "theorems": theorems, "examples": examples, "log": out[-4000:],
           "axioms": [], "obligations": len(theorems) + len(examples), "discharged": 0,
           "build_s": round(secs, 1), "bad_axioms": []}
    if rc != 0:
        return res
    # every theorem must have its Print Assumptions
    missing = [t for t in theorems if t not in printed]
    blocks = []
    cur = None
    for line in out.split("\n"):
        if line.startswith("Closed under the global context"):
            blocks.append([])
            cur = None
        elif line.startswith("Axioms:"):
            cur = []
            blocks.append(cur)
        elif cur is not None:
            m = re.match(r"^([A-Za-z_][A-Za-z0-9_.']*)\s*:", line)
            if m:
                cur.append(m.group(1))
            elif line and not line.startswith(" ") and not line.startswith("\t"):
                cur = None
    axioms = sorted({a for b in blocks for a in b})
    res["axioms"] = axioms
    res["bad_axioms"] = [a for a in axioms if a not in AXIOM_ALLOW and a.split(".")[-1] not in AXIOM_ALLOW]
    if missing:
        res["ok"] = False
        res["log"] += "\nmissing Print Assumptions for: %s" % missing
    if len(blocks) < len(printed):
        res["ok"] = False
        res["log"] += "\nPrint Assumptions output incomplete (%d < %d)" % (len(blocks), len(printed))
    if res["bad_axioms"]:
        res["ok"] = False
    if res["ok"]:
        res["discharged"] = res["obligations"]
    return res


# ----------------------------------------------------------------------------------
# harness


def build_harness():
    """rebuild the harness against /repo's current working tree (path dependency)."""
    hdir = os.path.join(VERIF, "harness")
    lock_src = os.path.join(REPO, "Cargo.lock")
    lock_dst = os.path.join(hdir, "Cargo.lock")
    if not os.path.exists(lock_dst):
        import shutil
        shutil.copy(lock_src, lock_dst)
    env = dict(os.environ)
    env["CARGO_NET_OFFLINE"] = "true"
    env["RUSTFLAGS"] = (env.get("RUSTFLAGS", "") + " --cfg " + HOOK_CFG).strip()
    env["CARGO_TARGET_DIR"] = TARGET
    rc, out, secs = sh(["cargo", "build", "--release", "--offline", "--quiet"], cwd=hdir, timeout=1800, env=env)
    if rc != 0:
        # a stale copied lock file can be the reason: refresh it once from /repo and retry
        import shutil
        shutil.copy(lock_src, lock_dst)
        rc, out, secs2 = sh(["cargo", "build", "--release", "--offline", "--quiet"], cwd=hdir, timeout=1800, env=env)
        secs += secs2
    return rc == 0, out, secs


class Harness:
    """line-oriented driver with a no-progress watchdog: a case that does not answer within
    `per_case_timeout` seconds is recorded as ["hang"] and the process is restarted."""

    def __init__(self, per_case_timeout=20.0, mem_kb=4 * 1024 * 1024):
        self.per_case_timeout = per_case_timeout
        self.mem_kb = mem_kb
        self.p = None

    def _start(self):
        cmd = "ulimit -v %d; exec %s" % (self.mem_kb, HARNESS_BIN)
        self.p = subprocess.Popen(["bash", "-c", cmd], stdin=subprocess.PIPE, stdout=subprocess.PIPE,
                                  stderr=subprocess.DEVNULL)

    def _kill(self):
        if self.p is not None:
            try:
                self.p.kill()
                self.p.wait(timeout=5)
            except Exception:
                pass
            self.p = None

    def run(self, cases, max_hangs=4):
        """cases: list of [op, input]; returns list of result trees.  After `max_hangs` hangs / crashes in this
        shard the remaining cases are answered ["not-run"] (every hang costs the whole watchdog time; the hangs
        already recorded are disagreements of their own)."""
        results = []
        idx = 0
        n = len(cases)
        hangs = 0
        while idx < n:
            if hangs >= max_hangs:
                results.extend([["not-run"]] * (n - idx))
                break
            self._start()
            p = self.p
            pending = cases[idx:]
            got = []
            done = threading.Event()

            def writer():
                try:
                    for c in pending:
                        p.stdin.write((json.dumps(c) + "\n").encode())
                    p.stdin.close()
                except Exception:
                    pass

            def reader():
                try:
                    for line in p.stdout:
                        got.append(line)
                except Exception:
                    pass
                done.set()

            tw = threading.Thread(target=writer, daemon=True)
            tr = threading.Thread(target=reader, daemon=True)
            tw.start()
            tr.start()
            last = -1
            last_t = time.time()
            while not done.is_set():
                done.wait(0.05)
                if len(got) != last:
                    last = len(got)
                    last_t = time.time()
                elif time.time() - last_t > self.per_case_timeout:
                    break
            hung = not done.is_set()
            self._kill()
            tr.join(timeout=5)
            for line in got:
                results.append(json.loads(line.decode()))
            idx += len(got)
            if idx < n and (hung or True):
                # the case at idx did not answer: hang (watchdog) or the process died (abort / OOM)
                results.append(["hang"] if hung else ["crash"])
                idx += 1
                hangs += 1
        return results


def run_harness(cases, per_case_timeout=20.0):
    """run cases over several harness processes in parallel, keeping order"""
    if not cases:
        return []
    nshards = min(NPROC, max(1, len(cases) // 50))
    shards = [cases[i::nshards] for i in range(nshards)]
    with ThreadPoolExecutor(max_workers=nshards) as ex:
        outs = list(ex.map(lambda sh_: Harness(per_case_timeout).run(sh_), shards))
    res = [None] * len(cases)
    for k, o in enumerate(outs):
        for j, r in enumerate(o):
            res[k + j * nshards] = r
    return res


# ----------------------------------------------------------------------------------
# in-Coq runner


def run_in_coq(prop, module, fn, case_trees, shard_size=400, timeout=900, tag="cases"):
    """case_trees: list of trees (each `[op, input, sdk_result]`); evaluates
    `map fn cases` by vm_compute in shards over parallel coqc; returns list of verdict trees."""
    if not case_trees:
        return []
    d = os.path.join(CACHE, "cases")
    os.makedirs(d, exist_ok=True)
    shards = [case_trees[i:i + shard_size] for i in range(0, len(case_trees), shard_size)]
    files = []
    for k, sh_cases in enumerate(shards):
        name = "%s_%s_%d" % (tag, prop, k)
        path = os.path.join(d, name + ".v")
        with open(path, "w") as fh:
            fh.write("Require Import Ommx.Tree Ommx.%s.\nFrom Coq Require Import String List ZArith.\n" % module)
            fh.write("Import ListNotations.\nOpen Scope string_scope.\n")
            fh.write("Set Printing Depth 1000000.\nSet Printing Width 1000000.\n")
            fh.write("Definition cases : list tree := [\n")
            fh.write(";\n".join(to_coq(c) for c in sh_cases))
            fh.write("\n].\nEval vm_compute in (map %s cases).\n" % fn)
        files.append(path)

    def one(path):
        rc, out, secs = sh(["timeout", str(timeout), "coqc", "-noglob", "-Q", os.path.join(COQ, "theories"), "Ommx",
                            "-Q", os.path.join(COQ, "gen"), "OmmxGen", path], cwd=d, timeout=timeout + 30)
        return rc, out

    with ThreadPoolExecutor(max_workers=NPROC) as ex:
        outs = list(ex.map(one, files))
    verdicts = []
    for (rc, out), sh_cases, path in zip(outs, shards, files):
        if rc != 0:
            raise RuntimeError("coqc failed on %s:\n%s" % (path, out[-3000:]))
        vs = parse_coq_tree_list(out)
        if len(vs) != len(sh_cases):
            raise RuntimeError("verdict count mismatch in %s: %d vs %d" % (path, len(vs), len(sh_cases)))
        verdicts += vs
    for path in files:
        for ext in (".v", ".vo", ".vok", ".vos", ".glob"):
            q = path[:-2] + ext
            if os.path.exists(q) and ext != ".v":
                os.remove(q)
    return verdicts


def eval_in_coq(imports, expr_list_name, body, tag, timeout=900):
    """general escape hatch: write a .v with `body`, Eval vm_compute in `expr_list_name`
    (a list tree), return parsed trees."""
    d = os.path.join(CACHE, "cases")
    os.makedirs(d, exist_ok=True)
    path = os.path.join(d, tag + ".v")
    with open(path, "w") as fh:
        fh.write("Require Import Ommx.Tree %s.\nFrom Coq Require Import String List ZArith.\n" % " ".join(imports))
        fh.write("Import ListNotations.\nOpen Scope string_scope.\n")
        fh.write("Set Printing Depth 1000000.\nSet Printing Width 1000000.\n")
        fh.write(body)
        fh.write("\nEval vm_compute in (%s).\n" % expr_list_name)
    rc, out, secs = sh(["timeout", str(timeout), "coqc", "-noglob", "-Q", os.path.join(COQ, "theories"), "Ommx",
                        "-Q", os.path.join(COQ, "gen"), "OmmxGen", path], cwd=d, timeout=timeout + 30)
    if rc != 0:
        raise RuntimeError("coqc failed on %s:\n%s" % (path, out[-3000:]))
    vo = path[:-2] + ".vo"
    for ext in (".vo", ".vok", ".vos", ".glob"):
        q = path[:-2] + ext
        if os.path.exists(q):
            os.remove(q)
    return parse_coq_tree_list(out)


# ----------------------------------------------------------------------------------
# known findings


def load_known(prop):
    p = os.path.join(VERIF, "known_findings.json")
    if not os.path.exists(p):
        return []
    data = json.load(open(p))
    return [e for e in data if e.get("property") == prop and e.get("status") == "known"]


# ----------------------------------------------------------------------------------
# evidence, replays, reporting


def tree_hash(t):
    return hashlib.sha256(json.dumps(t, sort_keys=True).encode()).hexdigest()[:16]


def write_json(path, obj):
    os.makedirs(os.path.dirname(path), exist_ok=True)
    tmp = path + ".tmp"
    with open(tmp, "w") as fh:
        json.dump(obj, fh, indent=1, sort_keys=False)
        fh.write("\n")
    os.replace(tmp, path)


def write_replay(prop, payload):
    h = tree_hash(payload)
    path = os.path.join(VERIF, "replays", "%s-%s.json" % (prop, h))
    write_json(path, payload)
    return path


def pretty_num(t):
    """render number trees for humans (F bits -> float repr)"""
    if is_f(t):
        return from_bits(t)
    if isinstance(t, list):
        if len(t) == 3 and t[0] == "q" and isinstance(t[1], int) and isinstance(t[2], int):
            return "%d/%d" % (t[1], t[2]) if t[2] != 1 else t[1]
        return [pretty_num(x) for x in t]
    return t
