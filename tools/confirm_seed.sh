#!/bin/bash
# confirm_seed.sh Cxx [name]: re-verify an agent's seeded change in its scratch worktree /tmp/wt/Cxx, then
# store it under /verif/seeded/<name>/ (patch.diff, demo, confirm.log). Does not touch /repo.
# (no `git stash`: the stash is shared by all worktrees of a repository)
set -u
P=$1; NAME=${2:-$P-agent}
WT=${WT_ROOT:-/tmp/wt}/$P
OUT=/verif/seeded/$NAME
mkdir -p $OUT
cd $WT || exit 2
LOG=$OUT/confirm.log
: > $LOG
DEMO=$(ls rust/ommx/tests/seeded*_${P}*.rs 2>/dev/null | head -1)
echo "demo: $DEMO" >> $LOG
git diff -- . ':!BRIEF.txt' ':!patch.diff' > $OUT/patch.diff
echo "== with change: lib tests" >> $LOG
timeout 3000 cargo test -p ommx --lib --offline 2>&1 | grep -E "^test result|FAILED|panicked" | head -5 >> $LOG
T=$(basename ${DEMO%.rs})
echo "== with change: demo" >> $LOG
timeout 3000 cargo test -p ommx --test $T --offline 2>&1 | grep -E "^test result|FAILED" | head -8 >> $LOG
git apply -R $OUT/patch.diff
echo "== reverted: demo" >> $LOG
timeout 3000 cargo test -p ommx --test $T --offline 2>&1 | grep -E "^test result|FAILED" | head -5 >> $LOG
git apply $OUT/patch.diff
cp $DEMO $OUT/ 2>/dev/null
cat $LOG
