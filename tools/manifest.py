#!/usr/bin/env python3
"""Regenerates MANIFEST.json from the table below (kept in one place so it stays valid)."""
import json
import os

V = os.path.dirname(os.path.dirname(os.path.abspath(__file__)))
COMMON_NOTE = ("Trusted: Coq 8.16.1 kernel + vm_compute (no native_compute, no extraction); hand-written Gallina model "
               "(no Rust is verified directly: the model is tied to /repo only by the correspondence on the cases run); "
               "f64 decoding Num.v:f64_of_bits; harness (harness/src), tools/common.py, tools/check.py and the generators. ")
TECH = "machine-checked proof in Coq of an executable model + in-Coq differential correspondence with the SDK"

CLAIMS = {
 "C01": ("7.1", "Theorems (closed under the global context) about a Gallina model of Evaluate::evaluate for all five function variants: value = denotation for every valuation agreeing with the state, used-id set = occurring ids, failure iff an occurring id has no value, representation independence, comparator soundness. Tie to /repo: SDK and model run on the same generated cases; the model runs inside Coq (vm_compute); exact because all numbers are small dyadic rationals.",
         "Rounding on general floats is not covered by a theorem (planned: float layer)."),
 "C02": ("7.2", "Theorems: for every ordered pair of the seven operand kinds that the operator table defines, the modelled sum / difference / product / negation denotes the polynomial sum / difference / product / negation of the operands (for every dropping test that drops only exact zeros), commutation corollaries, term-iterator sum, and the residual theorem for the accumulate-and-drop merge for an ARBITRARY dropping test (what is lost is a list of accumulated coefficients that passed the test). Correspondence: all 7x7x3 operator combinations (+neg, iterators) on un-normalised operands incl. a near-epsilon stream; the compiled operator table is compared with the model's.",
         "Quadratic operands without duplicated (row,column) positions (hypothesis owf, shown necessary by an Example); the SDK's own threshold test (|c|<=eps) is covered by the residual theorems and by correspondence, the composite exactness theorems assume tiny_exact."),
 "C03": ("7.3", "Theorems on the model of partial_evaluate (Linear/Quadratic/Polynomial/Function): the result denotes the original at every valuation agreeing with the fixed part; pe-then-evaluate = evaluate at the union; two steps = at once; (linear case) no fixed id remains and returned ids are fixed ids that occurred. Correspondence at function level (all variants, random splits; thorough: all 2^n splits) with a checker that no fixed variable occurs in the SDK's result.",
         "Instance-level commutation (constraints, removed constraints, dependencies, substituted_value) is tied by correspondence via the C05 model (planned theorem C03_instance); id-set lemmas for Quadratic/Polynomial are checked by the runner, not yet proved."),
 "C05": ("7.5", "Theorems on the model of Instance::evaluate: objective = value of the objective; every active and removed constraint reported once in order with value, equality, metadata, removal reason; feasible_relaxed <=> all active hold and feasible <=> all active and removed hold under the exact tolerance rule (|f|<1e-6, f<1e-6 with the exact binary64 value of the literal); state completion (kept values, every defined variable valued, vacant => nearest-to-zero point of the bound, proved to be in the bound and of minimal magnitude); rejection on bound violation / missing used variable. Correspondence on the whole Solution message incl. ulp-neighbours of both tolerances.",
         "Dependent-variable values in the reported state are characterised through eval_deps (see C04)."),
}

CLAIMS["C14"] = ("7.14", "Theorems by induction over arbitrary relax/restore histories of the model state machine: active + removed is conserved as a multiset of (id, function, equality, metadata) records; ids stay unique (each id in exactly one list); nothing else of the instance changes; the reason is recorded; an operation fails iff the id is not in the expected list and then changes nothing; feasible_relaxed <=> all active hold, feasible <=> all constraints hold, hence overall feasibility is invariant under every history. Correspondence: histories observed after every step (result, both lists, full evaluation judged by the C05 model); thorough: all histories of length <= 4 over 3 ids + 1 unknown id.",
         "Per-constraint value invariance follows from conservation plus C05_constraints (values depend only on the constraint and the state); it is checked on every step by the runner.")
CLAIMS["C20"] = ("7.20", "proof (partial): theorems C20_layers, C20_get(_first/_unknown/_first_match), C20_manifest_accept/reject, C20_descriptors_by_kind, C20_annotations_* hold for all operation sequences and annotation histories of a list-state-machine model of Builder/Artifact/annotations; the archive bytes (tar, JSON manifest, sha256, protobuf, RFC3339) are not modelled and enter only as hypotheses (digest injective on the stored blobs, decode.encode = id, parse.render = id) that the correspondence run re-checks on every case. Correspondence: real local OCI archives built with Builder and reopened with Artifact::from_oci_archive; every getter x every stored digest + one unknown digest; independent sha256 and RFC3339 re-computation in Python; non-OMMX archives.",
         "Identical blobs share a digest, so only the first layer's kind and annotations are reachable by digest (observation, not a violation). -0.0 in map values is read back as +0.0 by prost (identified with 0, DESIGN 3.2). ocipkg, tar, sha256, file system: exhibited by correspondence only.")

CLAIMS["C16"] = ("7.16", "proof: for all valid intervals of every shape (finite, half-infinite, unbounded, degenerate, sign-crossing) the model's sum, product (with 0*inf=NaN and NaN-ignoring min/max), n-th power for every n, and non-zero scaling return a valid interval containing the pointwise result; evaluate_bound returns a valid enclosure of denote f over the whole box for every function message; as_integer_bound keeps every integer; content_factor is positive, integralising, 1 on the zero function and divides every positive integralising rational (17 theorems, closed under the global context). Correspondence: exact equality of SDK and model intervals plus exact sample-point enclosure on dyadic inputs; relative-2^-52 comparison for content_factor on fractions with denominators <= 60.",
         "Not modelled: endpoint rounding (the code does not round outward; a labelled rounded-stream TEST only), u8 exponent truncation above 255, Rational64::approximate_float and i64 overflow in content_factor, -0.0. Bound*0.0 on infinite intervals panics in the code and is excluded by the k<>0 hypothesis, as the property states. The exact stream demands interval equality with the model, so a tighter-but-correct future interval would be reported (clause 'interval').")
CLAIMS["C19"] = ("7.19", "For the QPLIB reader model: the objective is 1/2 x'Q0x + b0'x + q0 from the listed lower-triangle entries (diagonal halved), with default and non-default b0 and the sense; exactly one <=0 constraint per finite side, g - c_u with id i and -g + c_l with id m+i; the infinity threshold, the variable-type rules, the error line-number discipline and the head-line error classes are proved for all inputs (11 theorems). Two-phase correspondence: Coq renders the text from an abstract model with an independent writer, the SDK loads it, Coq judges the instance against meaning(M) and against the model reader, on all 120 type codes and one fault per error class (incl. negative counts).",
         "Not proved: load.render = meaning (Tier B; checked per case); error class at deep positions. Exact-decimal literals (no f64 rounding on the cases run); single separators in entry lines. Observations outside the letter of the property (index 0 / out-of-range index / short entry lines panic, repeated separators rejected, 4-letter type code accepted) are probed with VERIF_C19_PROBE=1 and recorded in DESIGN.md, not asserted.")

CLAIMS["C09"] = ("7.9", "Theorems on the model of penalty_method / uniform_penalty_method (for every dropping test that drops only exact zeros): no active constraint remains; every constraint of the input, already removed ones included, is kept in order with its record; one parameter per constraint with ids next_id.. (pairwise distinct, above every decision-variable id), tagged with the constraint id; variables, sense, dependencies, hints carried over; objective = f + sum_c p_c*g_c^2 (uniform: f + p*sum g_c^2) for every valuation of variables and weights. Correspondence: the SDK's parametric instance is checked structurally and its objective compared as a formal polynomial in x and the weights with the expected one recomputed for the SDK's own (checked-fresh) parameter ids.",
         "Hypothesis iwf: quadratic messages without duplicated (row,col) positions. The 'fix:' commit d4411b9 made the SDK keep previously removed constraints.")
CLAIMS["C10"] = ("7.10", "Theorems on the model of with_parameters / From<Instance>: objective and every active constraint of the result denote the parametric function at (x,p) with ids, equalities, metadata unchanged; variables, sense, removed constraints, hints, dependencies unchanged; supplied values recorded; a missing declared parameter is an error, and with all parameters present the only failure is a malformed quadratic message; Instance -> ParametricInstance -> Instance with no parameters is the same problem. Correspondence: complete / extra / missing-each assignments and round trips, whole instances compared.",
         "")
CLAIMS["C11"] = ("7.11", "Theorems on the model of as_pubo_format / as_qubo_format, for ANY number of variables and all 2^n assignments at once: for every binary valuation sum_S c_S prod x_i = objective (QUBO: + offset); keys are distinct strictly increasing sets / pairs i<=j; no stored coefficient is zero; refusal iff active constraints remain, maximisation, a used non-binary variable, or (QUBO) an entering term with > 2 distinct variables. Stated for every pair of enter/leave tests that only discard exact zeros; the SDK's |c|>eps / |v|<eps tests are run in the correspondence (near-epsilon stream), which also sweeps the SDK's dictionary over all 2^n assignments (n<=10).",
         "")
CLAIMS["C12"] = ("7.12", "Theorems: for EVERY K>=1 (no width bound) the bit patterns of length log2_up(K+1) weighted by 1,2,..,2^(n-2),K-2^(n-1)+1 reach exactly 0..K; the model of log_encode returns, for an integer variable with finite bound, n fresh binaries (ids next_id.., kind binary, bound [0,1]) and a linear expression whose values over all bit assignments are exactly the integers ceil(l)..floor(u); a single-integer range gives a constant and no variables; success iff known id, integer kind, finite bound containing an integer. Correspondence: every width 1..64 (thorough 1..4096), random and fractional bounds, widths to 2^40, every error condition under a watchdog (instance unchanged on error).",
         "float log2/ceil of the SDK is modelled by N.log2_up (validated by the correspondence on all sampled widths). The 'fix:' commit 91d0376 made infinite bounds an error instead of a hang.")

CLAIMS["C07"] = ("7.7", "Both ties. Translator: the message schema is regenerated on every run from proto/*.proto (own proto3 reader cross-checked against protoc's descriptor set), from the #[prost] attributes / Rust types / enums of ommx.v1.rs and from the serialized descriptors in *_pb2.py, as three closed Coq terms; the obligations schemas_agree (rust = proto = python in field numbers, names, types, labels, enum values), schema_wf and schema_supported are re-proved each run. Hand-written model + theorems (closed under the global context, coqchk: no axioms): varint and record round trip; codec_roundtrip, codec_unknown_fields, codec_unset_oneof for EVERY well-formed schema, hence the regenerated one; comparator soundness. Correspondence: prost and protoc agree with the model on generated values of all 31 message types and 5 enums (every field set/unset, maps, oneofs, extremes, unknown fields, unpacked and merged encodings, legacy fields, the stored artifact) and on content by field name via prost Debug. When an obligation fails the check searches a concrete failing value (else reports no-failing-input-found).",
         "Python: static schema only (no protobuf runtime in the sandbox). Not proved: decoding of arbitrary non-model encodings (codec_decode_any_encoding; exercised by the protoc / unpacked / merge streams). Trusted: translate_schema.py (self-cross-checked against protoc), Codec.v as a model of prost, tools/gen/wire.py (text printer, Debug reader), protoc 3.21.12. -0.0 is identified with +0.0 for prost re-encodings only, and counted.")

CLAIMS["C06"] = ("7.6", "proof (partial): theorems on the compressed sample representation — the value stored by Samples::map for sample id k is the function of the state stored for k for any partition into entries; a table grouped by value returns for every id the value it was given (grouping independence) — on an executable model of evaluate_samples / SampleSet::get / Samples / SampledValues. The composite statement (get k of the evaluated set = single evaluation) is not yet one theorem: the runner checks it on every case at model level (clause 'MODEL:') and against the SDK: for every submitted id, SampleSet::get(id) and Instance::evaluate(state_id) are both judged against the C05 model's single evaluation (objective, per-constraint values and metadata, both flags, values of defined variables), key sets of all tables, best_feasible*.",
         "In-bound states only (evaluate_samples does not check bounds; evaluate does). The 'fix:' commit bb6a295 made evaluate_samples complete states that omit unused variables.")
CLAIMS["C15"] = ("7.15", "Theorems: as_minimization yields sense minimise, leaves variables/constraints/removed constraints/dependencies untouched, is the identity on minimisation problems, negates the objective otherwise, is idempotent, and a maximisation problem and its conversion rank all assignments identically; best(ids) returns a candidate id that no candidate strictly beats under the set's sense and fails exactly when there is no candidate; candidates are exactly the ids flagged true in the table that is read, which is the current field or the older field when feasible_relaxed is empty; the runner's checker (any unbeaten candidate) is exactly that property. Correspondence: as_min on both senses; best on 1-8 samples with ties, both senses, current and legacy field usage, directly and after an encode/decode round trip (thorough: all 2^n x 2^n feasibility patterns, n<=4).",
         "The code also negates for an unspecified sense (outside 'either sense'); modelled as the code does.")

PENDING = {
}


def main():
    props = [json.loads(l) for l in open(os.path.join(V, "properties.jsonl"))]
    checks = []
    na = []
    for p in props:
        pid = p["id"]
        if pid in CLAIMS and os.path.exists(os.path.join(V, "tools", "props", pid.lower() + ".py")):
            ref, text, note = CLAIMS[pid]
            checks.append({
                "property_id": pid,
                "quick_cmd": "python3 tools/check.py %s --tier quick" % pid,
                "thorough_cmd": "python3 tools/check.py %s --tier thorough" % pid,
                "evidence_file": "/verif/evidence/%s.json" % pid,
                "replay_cmd_template": "python3 tools/check.py %s --replay {path}" % pid,
                "engine": "coq-model+correspondence",
                "level_claimed": {"category": "proof", "text": text, "design_ref": ref},
                "level_note": COMMON_NOTE + note,
                "technique": TECH,
            })
        else:
            na.append({"property_id": pid,
                       "reason": PENDING.get(pid, "not yet claimed: model/check under construction (DESIGN.md section 7); no other technique is substituted")})
    m = {
        "version": 1,
        "setup_cmd": "make -C /verif setup",
        "hooks": {"guard": "ommx_verif",
                  "enable": "RUSTFLAGS='--cfg ommx_verif' (set by tools/common.py; no source hook is currently needed: the harness uses only public API)",
                  "baseline_off_cmd": "cd /repo && cargo test --workspace --no-fail-fast --offline",
                  "source_commits": [], "add_only": True},
        "engines": [{"name": "coq-model+correspondence", "path": "/verif/coq",
                     "serves_properties": [c["property_id"] for c in checks],
                     "kind_free_text": "Rocq/Coq 8.16 development (theories = executable model + lemmas, props = property theorems, gen = files regenerated from /repo) and a Rust harness with a path dependency on /repo/rust/ommx; cases are judged inside Coq by vm_compute"}],
        "checks": checks,
        "notes": "see DESIGN.md; known_findings.json lists the fix: commits made in /repo",
        "not_applicable": na,
    }
    json.dump(m, open(os.path.join(V, "MANIFEST.json"), "w"), indent=1)
    print("claimed:", [c["property_id"] for c in checks])


if __name__ == "__main__":
    main()
