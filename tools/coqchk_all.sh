#!/bin/bash
# Independent re-check of every compiled property file and everything it depends on (coqchk), with the
# list of axioms of the whole context.  ~1.5 min.  Expected: "Axioms: <none>".
cd "$(dirname "$0")/../coq" || exit 2
mods=""
for f in props/C*.v; do b=$(basename "$f" .v); mods="$mods OmmxProps.$b"; done
exec timeout 7200 coqchk -silent -o -Q theories Ommx -Q props OmmxProps -Q gen OmmxGen $mods
