#!/usr/bin/env python3
"""Run the registered checks against a seeded change:  tools/seeded.py seeded/<name> [--tier quick]
Applies seeded/<name>/patch.diff to /repo (git apply), runs the check(s) of the property named in
meta.json, records exit status and VIOLATION lines in seeded/<name>/result.json, and restores /repo
(git checkout -- . ; files the patch added are removed).  /repo must be clean before."""
import json
import os
import subprocess
import sys
import time

V = os.path.dirname(os.path.dirname(os.path.abspath(__file__)))
REPO = "/repo"


def sh(cmd, **kw):
    return subprocess.run(cmd, shell=isinstance(cmd, str), stdout=subprocess.PIPE, stderr=subprocess.STDOUT, **kw)


def main():
    d = os.path.abspath(sys.argv[1])
    tier = "quick"
    if "--tier" in sys.argv:
        tier = sys.argv[sys.argv.index("--tier") + 1]
    meta = json.load(open(os.path.join(d, "meta.json")))
    props = meta["property"] if isinstance(meta["property"], list) else [meta["property"]]
    extra = meta.get("also_run", [])
    st = sh(["git", "-C", REPO, "status", "--porcelain"]).stdout.decode().strip()
    if st:
        print("refusing: /repo is not clean:\n" + st)
        return 2
    patch = os.path.join(d, "patch.diff")
    reverse = meta.get("reverse", False)
    r = sh(["git", "-C", REPO, "apply"] + (["-R"] if reverse else []) + [patch])
    if r.returncode != 0:
        print("patch does not apply:\n" + r.stdout.decode())
        return 2
    results = {}
    try:
        for p in props + extra:
            t0 = time.time()
            r = sh(["python3", os.path.join(V, "tools", "check.py"), p, "--tier", tier], cwd=V,
                   env=dict(os.environ, VERIF_SHRINK_ROUNDS=os.environ.get("VERIF_SHRINK_ROUNDS", "2")))
            out = r.stdout.decode()
            vio = [l for l in out.split("\n") if l.startswith("VIOLATION")]
            clauses = []
            for l in vio:
                try:
                    path = l.split("replay=")[1].split()[0]
                    rp = json.load(open(path))
                    clauses.append({"clause": rp.get("clause"), "broken": rp.get("broken"),
                                    "input": rp.get("readable", {}).get("input") if rp.get("readable") else None})
                except Exception:
                    pass
            results[p] = {"exit": r.returncode, "violations": vio, "replays": clauses,
                          "summary": out.strip().split("\n")[-1][:400], "wall_s": round(time.time() - t0, 1)}
            print(p, "exit", r.returncode, "|", len(vio), "VIOLATION lines |", results[p]["summary"][:160])
    finally:
        sh(["git", "-C", REPO, "checkout", "--", "."])
        sh(["git", "-C", REPO, "clean", "-fdq", "--", "rust/ommx/tests", "rust/ommx/src", "proto", "python"])
        sh(['git', '-C', V, 'checkout', '--', 'evidence'])
        # replays written during a seeded run are not findings of the unchanged tree
        rd = os.path.join(V, "replays")
        for fn in os.listdir(rd):
            if fn.endswith(".json"):
                os.remove(os.path.join(rd, fn))
    caught = [p for p in props if results.get(p, {}).get("exit") == 1]
    json.dump({"tier": tier, "seed": os.environ.get("VERIF_SEED", "default"), "ran_at": time.strftime("%Y-%m-%dT%H:%M:%S"), "results": results,
               "caught_by": caught, "detected": bool(caught)},
              open(os.path.join(d, os.environ.get("SEEDED_RESULT", "result.json")), "w"), indent=1)
    print("DETECTED" if caught else "MISSED", meta.get("name", os.path.basename(d)))
    return 0


if __name__ == "__main__":
    sys.exit(main())
