#!/usr/bin/env python3
"""Build the whole Coq development (full .vo build) and the harness, offline."""
import os
import sys
sys.path.insert(0, os.path.dirname(os.path.abspath(__file__)))
import common as C

what = sys.argv[1] if len(sys.argv) > 1 else "all"
rc = 0
if what in ("all", "coq"):
    r, out, secs = C.coq_make([])
    print(out[-3000:])
    print("coq build: rc=%d %.0fs" % (r, secs))
    rc |= r
if what in ("all", "harness"):
    ok, out, secs = C.build_harness()
    print(out[-3000:])
    print("harness build: ok=%s %.0fs" % (ok, secs))
    rc |= 0 if ok else 1
sys.exit(1 if rc else 0)
