#!/usr/bin/env python3
"""Build the whole Coq development (full .vo build) and the harness, offline."""
import os
import sys
sys.path.insert(0, os.path.dirname(os.path.abspath(__file__)))
import common as C

what = sys.argv[1] if len(sys.argv) > 1 else "all"
rc = 0
if what in ("all", "coq"):
    # build everything that builds (-k): a check rebuilds and audits exactly the targets it needs,
    # so one broken file must not take the other properties down with it
    C.coq_makefile()
    r, out, secs = C.sh(["timeout", "3000", "make", "-k", "-j%d" % C.NPROC], cwd=C.COQ, timeout=3100)
    print(out[-3000:])
    print("coq build: rc=%d %.0fs" % (r, secs))
    core = all(os.path.exists(os.path.join(C.COQ, "theories", f + ".vo")) for f in ("Num", "Poly", "Msg", "Eval", "Tree"))
    rc |= 0 if core else 1
if what in ("all", "harness"):
    ok, out, secs = C.build_harness()
    print(out[-3000:])
    print("harness build: ok=%s %.0fs" % (ok, secs))
    rc |= 0 if ok else 1
sys.exit(1 if rc else 0)
