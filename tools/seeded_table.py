#!/usr/bin/env python3
"""Prints the markdown table of seeded changes (seeded/*/meta.json + result.json [+ history.json])."""
import json
import os

V = os.path.dirname(os.path.dirname(os.path.abspath(__file__)))


def main():
    rows = []
    d0 = os.path.join(V, "seeded")
    for name in sorted(os.listdir(d0)):
        d = os.path.join(d0, name)
        mp = os.path.join(d, "meta.json")
        if not os.path.exists(mp):
            continue
        m = json.load(open(mp))
        rp = os.path.join(d, "result.json")
        r = json.load(open(rp)) if os.path.exists(rp) else None
        hist = []
        hp = os.path.join(d, "history.json")
        if os.path.exists(hp):
            hist = json.load(open(hp))
        prop = m["property"] if isinstance(m["property"], str) else ",".join(m["property"])
        if r is None:
            status, clause = "not run", ""
        else:
            status = "DETECTED" if r.get("detected") else "MISSED"
            clause = ""
            for p in r.get("caught_by", []):
                reps = r["results"][p].get("replays") or []
                cl = [x.get("clause") or x.get("broken") or "" for x in reps]
                cl = [c for c in cl if c]
                clause = "%s %s: %s" % (p, r.get("tier", "quick"), (cl[0] if cl else r["results"][p]["summary"])[:110])
        first = ""
        if hist:
            first = "first run: %s; " % hist[0]
        what = m.get("change") or m.get("origin", "")
        rows.append("| `%s` | %s | %s | %s | %s%s |" % (name, prop, what.replace("|", "/")[:170],
                                                    m.get("needs", "").replace("|", "/")[:170], first, (status + " — " + clause).strip(" —")))
    print("| seeded change | prop | what it changes | what it needs to manifest | outcome (check, tier: clause) |")
    print("|---|---|---|---|---|")
    for r in rows:
        print(r)


if __name__ == "__main__":
    main()
