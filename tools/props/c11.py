"""C11 — QUBO/PUBO export reproduces the objective on every binary assignment."""
from common import f64
from gen import poly as G
from gen import inst as GI

PROP = "C11"
RUNNER = ("RunTransform", "run_C11")
COQ_TARGETS = ["theories/RunTransform.vo"]
AUTHORITY = ("C11_* (coq/props/C11.v): for every binary valuation the exported dictionary sums to the objective; keys canonical; "
             "no zero coefficient; refusal conditions; C11_pubo_evaluation / C11_qubo_evaluation: the dictionary reproduces the objective "
             "reported by Instance::evaluate at every state that is 0/1 on the binaries; export defined <=> no active constraint, "
             "not maximisation, used variables binary")
RULE = ("binary instances, objective degree <= 4 (PUBO) / <= 2 (QUBO) over <= 8 variables in any representation (repeated ids inside "
        "a monomial, x_i^2, split / cancelling / zero terms, near-epsilon coefficients); the runner compares the dictionary with the "
        "model's as a formal square-free polynomial, checks canonical distinct keys and non-zero coefficients, and independently "
        "evaluates the SDK's dictionary on ALL 2^n assignments (n <= 10) against the exact objective; refusal streams: active "
        "constraint, maximisation, a used non-binary variable, QUBO term with > 2 distinct ids. non-trivial = objective has a "
        "monomial with a repeated id or degree >= 2")
TRUSTED = ["hand-written model coq/theories/Transform.v (as_pubo, as_qubo) (tied by this correspondence only)"]
ASSUMPTIONS = ["small dyadic coefficients"]
PLANNED = []
SHARD = 100


def bin_instance(rng, max_deg, n_vars=None):
    n_vars = n_vars or rng.randint(1, 8)
    pool = G.ids_pool(rng, n_vars, big=0.1)
    dvs = [GI.dv(i, 1, rng.choice([None, (0.0, 1.0)])) for i in pool]
    # an unused non-binary variable is fine
    if rng.random() < 0.3:
        dvs.append(GI.dv(max(pool) + 7, 3, None))
    p = G.rand_poly(rng, pool, max_deg=max_deg, max_terms=8, maxnum=6, maxexp=1)
    fn = G.render(rng, p, pool)
    if fn[0] == "unset":
        fn = None
    return [1, [fn] if fn else [], dvs, [], [], [], [], [], []], pool


def gen(rng, tier):
    n = 120 if tier == "quick" else 2000
    cases = []
    for k in range(n):
        inst, pool = bin_instance(rng, rng.choice([1, 2, 3, 4]))
        cases.append({"op": "as_pubo", "input": inst, "stream": "pubo"})
        inst, pool = bin_instance(rng, rng.choice([0, 1, 2, 2]))
        cases.append({"op": "as_qubo", "input": inst, "stream": "qubo"})
        r = rng.random()
        inst, pool = bin_instance(rng, 2)
        if r < 0.12:
            inst[3] = [GI.constraint(1, 2, ["const", f64(0.0)])]
            tag = "refuse/constraint"
        elif r < 0.24:
            inst[0] = 2
            tag = "refuse/max"
        elif r < 0.36:
            inst[2][0][1] = rng.choice([2, 3])
            tag = "refuse/nonbinary"   # refused only if that variable is used
        elif r < 0.48:
            inst, pool = bin_instance(rng, 3, n_vars=4)
            tag = "qubo/degree3"
        elif r < 0.55:
            inst[0] = 0
            tag = "sense-unspecified"
        else:
            continue
        cases.append({"op": "as_pubo", "input": inst, "stream": tag})
        cases.append({"op": "as_qubo", "input": inst, "stream": tag})
    # several monomials collapsing onto ONE binary key (x1^2 x2, x1 x2^2, x1 x2 / x, x^2, x^3 / repeated constants) such
    # that a proper PREFIX of their coefficients cancels exactly and a later one makes the total non-zero (and the
    # variants: total zero, cancellation only at the end, no cancellation)
    for _ in range(12 if tier == "quick" else 200):
        dvs = [GI.dv(i, 1, None) for i in (1, 2, 3)]
        c = G.dyadic(rng, 6, 1, nonzero=True)
        d = G.dyadic(rng, 6, 1, nonzero=True)
        groups = [[[1, 1, 2], [1, 2, 2], [1, 2]], [[3], [3, 3], [3, 3, 3]], [[], [], []], [[2, 1], [1, 2], [2, 2, 1, 1]]]
        g = rng.choice(groups)
        pattern = rng.choice([[c, -c, d], [c, d, -c], [c, -c, d, -d], [c, d, -(c + d)], [c, -c]])
        terms = [[list(g[k % len(g)]), f64(v)] for k, v in enumerate(pattern)]
        extra = [[[rng.choice([1, 2, 3])], f64(G.dyadic(rng, 4, 1, nonzero=True))]] if rng.random() < 0.6 else []
        pos = rng.randint(0, len(terms))
        fn = ["poly", terms[:pos] + extra + terms[pos:]]       # the order inside the group is kept
        cases.append({"op": "as_pubo", "input": [1, [fn], dvs, [], [], [], [], [], []], "stream": "prefix-cancel"})
        if all(len(set(t[0])) <= 2 for t in fn[1]):
            cases.append({"op": "as_qubo", "input": [1, [fn], dvs, [], [], [], [], [], []], "stream": "prefix-cancel"})
    # near-epsilon coefficients (enter test |c| > eps) and exact cancellations down to +-t (leave test |v| < eps)
    for t in (0.0, 2.0 ** -53, -2.0 ** -53, 2.0 ** -52, -2.0 ** -52, 3 * 2.0 ** -53, -3 * 2.0 ** -53, 2.0 ** -51):
        for c in (2.0 ** -52, 1.5 * 2.0 ** -52, 2.0 ** -53, -2.0 ** -52, 2.0 ** -51):
            dvs = [GI.dv(i, 1, None) for i in (1, 2, 3)]
            fn = ["poly", [[[1, 2], f64(c)], [[2, 2, 3], f64(1.0)], [[3], f64(2.0 ** -40)], [[3, 3], f64(-(2.0 ** -40) + t)],
                           [[], f64(c)], [[1], f64(0.5)], [[1, 1], f64(-0.5 + 0.0)]]]
            inst = [1, [fn], dvs, [], [], [], [], [], []]
            cases.append({"op": "as_pubo", "input": inst, "stream": "threshold"})
            fnq = ["poly", [[[1, 2], f64(c)], [[3], f64(2.0 ** -40)], [[3, 3], f64(-(2.0 ** -40) + t)],
                            [[], f64(c)], [[1], f64(0.5)], [[1, 1], f64(-0.5)], [[1, 2, 3], f64(2.0 ** -53)]]]
            cases.append({"op": "as_qubo", "input": [1, [fnq], dvs, [], [], [], [], [], []], "stream": "threshold"})
    return cases


def nontrivial(case):
    inst = case["input"]
    if not inst[1]:
        return False
    fn = inst[1][0]
    if fn[0] == "poly":
        return any(len(ids) >= 2 for ids, _ in fn[1])
    return fn[0] == "quad"
