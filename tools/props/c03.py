"""C03 — partial evaluation commutes with evaluation (functions; constraints and instances via inst ops)."""
import itertools
from common import f64
from gen import poly as G
from gen import inst as GI

PROP = "C03"
RUNNER = ("RunC03i", "run_C03i")
COQ_TARGETS = ["theories/RunC03i.vo"]
SHARD = 150
AUTHORITY = ("C03_fn / C03_then_eval / C03_two_steps (coq/props/C03.v): the model's partially evaluated function denotes the "
             "original at every valuation agreeing with the fixed part; C03_instance / C03_instance_state: objective, constraint "
             "records, flags and every recorded variable value of evaluate(pe I s1, s2) equal those of evaluate(I, s1 u s2)")
RULE = ("random polynomials (degree<=4) in every variant/rendering; partial_evaluate on random subsets of the ids "
        "(incl. empty, all, ids not occurring); pe_steps on splits (s1, s2) of a covering dyadic state: two steps in both "
        "orders vs at once, and evaluate(pe f s1, s2) vs evaluate(f, s1 u s2) (thorough: all 2^n splits for n<=6); "
        "near-epsilon coefficients; inst_pe_steps: valid instances (active + removed constraints, dependency functions, "
        "irrelevant variables, any representation) with a random split of an in-bound covering state: the partially evaluated "
        "instance (incl. substituted_value bookkeeping and the returned ids) and BOTH evaluations (remainder at s2, original "
        "at s1 u s2) are judged against the model, whole Solutions. non-trivial = the fixed part meets the function's ids")
TRUSTED = ["hand-written model coq/theories/PEval.v of evaluate.rs partial_evaluate impls (tied by this correspondence only)"]
ASSUMPTIONS = ["small dyadic numbers: f64 arithmetic of the SDK is exact"]
PLANNED = []


def gen(rng, tier):
    n = 250 if tier == "quick" else 3000
    cases = []
    for k in range(n):
        pool = G.ids_pool(rng, rng.randint(1, 6))
        p = G.rand_poly(rng, pool, max_deg=rng.choice([0, 1, 1, 2, 2, 2, 3, 4]))
        fn = G.render(rng, p, pool)
        ids = sorted(G.fn_ids(fn))
        fixed = [i for i in pool if rng.random() < 0.5]
        st = G.rand_state(rng, fixed)
        cases.append({"op": "partial_evaluate", "input": [fn, st], "stream": "pe/" + fn[0]})
        # splits of a covering state
        full = G.rand_state(rng, set(ids) | set(pool))
        allids = [e[0] for e in full]
        if tier == "thorough" and len(allids) <= 6 and k % 10 == 0:
            masks = list(itertools.product([0, 1], repeat=len(allids)))
        else:
            masks = [[rng.randint(0, 1) for _ in allids] for _ in range(2)]
        for m in masks:
            s1 = [e for e, b in zip(full, m) if b]
            s2 = [e for e, b in zip(full, m) if not b]
            cases.append({"op": "pe_steps", "input": [fn, s1, s2], "stream": "steps/" + fn[0]})
    # a Quadratic whose entries carry explicit zeros (it still names their variables) next to a linear part: fixing the
    # linear variables first leaves a "degree 0" function that still mentions variables; then fix one of those
    for k in range(10 if tier == "quick" else 150):
        pool = G.ids_pool(rng, 5)
        a, b, c, d, e = pool
        zero_entries = rng.choice([[(c, d)], [(c, d), (d, c)], [(c, c), (c, d)]])
        rows = [r for r, _ in zero_entries]
        cols = [cc for _, cc in zero_entries]
        vals = [f64(rng.choice([0.0, -0.0])) for _ in zero_entries]
        lin = [[[a, f64(G.dyadic(rng, 4, 1, nonzero=True))], [b, f64(G.dyadic(rng, 4, 1, nonzero=True))]], f64(G.dyadic(rng, 4, 1))]
        fn = ["quad", [rows, cols, vals, [lin]]]
        va, vb, vc, vd = (f64(G.dyadic(rng, 4, 1)) for _ in range(4))
        for s1, s2 in (([[a, va], [b, vb]], [[c, vc], [d, vd]]), ([[c, vc], [d, vd]], [[a, va], [b, vb]]),
                       ([[a, va], [b, vb], [c, vc]], [[d, vd]]), ([[a, va]], [[b, vb], [c, vc], [d, vd]])):
            cases.append({"op": "pe_steps", "input": [fn, s1, s2], "stream": "steps/zero-entry"})
        inst = [1, [fn], [GI.dv(i, 3, None) for i in pool], [GI.constraint(3, 2, fn)], [[[GI.constraint(9, 1, fn)], "r", []]], [], [], [], []]
        cases.append({"op": "inst_pe_steps", "input": [inst, [[[a, va], [b, vb]], [[c, vc]]], [[d, vd], [e, f64(0.0)]]],
                      "stream": "inst/zero-entry"})
    m = 120 if tier == "quick" else 2000
    for k in range(m):
        inst, info = GI.rand_instance(rng, allow_unset=False)
        full = GI.rand_state_for(rng, info, include_irrelevant=0.7, extra=0.0)
        if info["dep_keys"] and rng.random() < 0.35:
            # the fixed part also assigns a DEPENDENT variable (a state over all decision variables, with a stale value for it):
            # evaluation reports the value of its dependency function, whether or not the stale value was fixed first
            # (only for a dependent variable that NO other dependency function reads: with a chain, the at-once evaluation of
            #  the SDK itself depends on the iteration order of the dependency map -- the stale value may or may not be
            #  overwritten before it is read --, so "the" value at the combined assignment is not defined; see DESIGN 0.2)
            read_by_deps = set()
            for _, dfn in inst[5]:
                read_by_deps |= G.fn_ids(dfn)
            for dkey in info["dep_keys"]:
                if dkey not in read_by_deps and rng.random() < 0.7:
                    full.append([dkey, f64(GI.value_in(rng, info["kinds"][dkey], info["bounds"][dkey]))])
        nsteps = rng.choice([1, 1, 2, 2, 3])
        mask = [rng.randint(0, nsteps) for _ in full]
        steps = [[e for e, b in zip(full, mask) if b == k + 1] for k in range(nsteps)]
        last = [e for e, b in zip(full, mask) if b == 0]
        cases.append({"op": "inst_pe_steps", "input": [inst, steps, last], "stream": "inst/%d" % nsteps})
    # near-epsilon coefficients: products with values landing around the dropping threshold
    for e in (-51, -52, -53):
        for m in (1.0, 1.5, 0.75):
            c = 2.0 ** e * m
            fn = ["poly", [[[1, 2], f64(c)], [[2], f64(-c * 2)], [[3], f64(1.0)], [[1, 2], f64(2.0 ** -60)]]]
            cases.append({"op": "partial_evaluate", "input": [fn, [[1, f64(2.0)]]], "stream": "threshold"})
            fnq = ["quad", [[1, 3], [2, 3], [f64(c), f64(1.0)], [[[[2, f64(-c * 2)]], f64(0.0)]]]]
            cases.append({"op": "partial_evaluate", "input": [fnq, [[1, f64(2.0)]]], "stream": "threshold"})
            cases.append({"op": "partial_evaluate", "input": [fnq, [[1, f64(1.0)]]], "stream": "threshold"})
    return cases


def nontrivial(case):
    if case["op"] == "inst_pe_steps":
        return any(len(st) > 0 for st in case["input"][1])
    ids = G.fn_ids(case["input"][0])
    return any(e[0] in ids for e in case["input"][1])
