"""C12 — log-encoding covers exactly the integer range."""
from common import f64
from gen import poly as G
from gen import inst as GI

PROP = "C12"
RUNNER = ("RunTransform", "run_C12")
COQ_TARGETS = ["theories/RunTransform.vo"]
PER_CASE_TIMEOUT = 10.0
AUTHORITY = ("C12_cover (coq/props/C12.v): for EVERY width the coefficients 1,2,..,2^(n-2), K-2^(n-1)+1 reach exactly 0..K; "
             "the runner checks the SDK's coefficients, constant and registered binaries against the model for the SDK's own new ids; "
             "C12_path_eval / C12_path_cover: after log_encode + substitute, evaluation at any bit assignment reports x in "
             "[ceil l, floor u] with the original objective / constraints at that x, and every integer of the range is reached")
RULE = ("instances with an integer variable [l,u] among other variables (non-contiguous ids): every width 1..64 (quick) / 1..4096 "
        "(thorough) at random offsets, the same widths with fractional outward slack on both sides (total slack below / at / above 1), "
        "random |l|,|u| <= 2^20, fractional bounds, sampled widths up to 2^40; every error condition: "
        "unknown id, kind binary/continuous/semi-*, no bound, -inf / +inf / both infinite (under a 10 s watchdog), NaN bound, no "
        "integer in the bound, single-integer range; after an error the instance must be unchanged. non-trivial = width >= 2")
TRUSTED = ["hand-written model coq/theories/Transform.v (log_encode); float log2/ceil is modelled by N.log2_up (validated here)"]
ASSUMPTIONS = ["bounds are integers or dyadic fractions with |value| <= 2^41"]
PLANNED = []
SHARD = 150
INF = float("inf")


def inst_with(rng, kind, bound, target=5):
    others = [i for i in G.ids_pool(rng, rng.randint(0, 3), big=0.1) if i != target]
    # other variables may already be fixed (substituted_value, as partial_evaluate leaves them): they still own their ids
    fixed = rng.random() < 0.3
    dvs = [GI.dv(i, rng.choice([1, 2, 3]), GI.rand_bound(rng, 3),
                 (rng.choice([0.0, 1.0, 2.5]) if fixed and (i == max(others) or rng.random() < 0.5) else None)) for i in others]
    dvs.insert(rng.randint(0, len(dvs)), GI.dv(target, kind, bound, None, GI.meta(rng, "n")))
    obj = ["lin", [[[target, f64(1.0)]], f64(0.0)]]
    return [1, [obj], dvs, [], [], [], [], [], []]


def gen(rng, tier):
    cases = []
    maxw = 64 if tier == "quick" else 4096
    for w in range(0, maxw + 1):
        lo = rng.randint(-50, 50)
        cases.append({"op": "log_encode", "input": [inst_with(rng, 2, (float(lo), float(lo + w))), 5], "stream": "width"})
    # every small integer width with fractional outward slack on both sides (total slack below, at and above 1):
    # the number of bits must follow the INTEGER width floor(u) - ceil(l), not u - l
    for w in range(0, (maxw if tier == "quick" else 300) + 1):
        combos = [(0.75, 0.75), (0.5, 0.5)] + [(rng.choice([0.0, 0.25, 0.5, 0.75]), rng.choice([0.0, 0.25, 0.5, 0.75]))
                                               for _ in range(2)]
        for fl, fh in combos:
            lo = rng.randint(-50, 50)
            cases.append({"op": "log_encode", "input": [inst_with(rng, 2, (lo - fl, lo + w + fh)), 5], "stream": "width-frac"})
    # end points just inside / outside an integer (the rounding is ceil / floor, no tolerance)
    for _ in range(40 if tier == "quick" else 600):
        lo = rng.randint(-20, 20)
        w = rng.randint(0, 9)
        dl = rng.choice([0.0, 2.0 ** -30, -(2.0 ** -30), 2.0 ** -21, -(2.0 ** -21), 2.0 ** -19])
        du = rng.choice([0.0, 2.0 ** -30, -(2.0 ** -30), 2.0 ** -21, -(2.0 ** -21), -(2.0 ** -19)])
        cases.append({"op": "log_encode", "input": [inst_with(rng, 2, (lo + dl, lo + w + du)), 5], "stream": "near-integer"})
    # the encoded variable has the SMALLEST id and every larger one is fixed (the fresh ids must still be above them)
    for w in (1, 2, 3, 6, 7):
        for nfix in (1, 2, 3):
            dvs = [GI.dv(5, 2, (0.0, float(w)))] + [GI.dv(5 + k, rng.choice([1, 2, 3]), (0.0, 3.0), float(k % 2)) for k in range(1, nfix + 1)]
            rng.shuffle(dvs)
            cases.append({"op": "log_encode", "input": [[1, [["lin", [[[5, f64(1.0)]], f64(0.0)]]], dvs, [], [], [], [], [], []], 5],
                          "stream": "fixed-above"})
    # other encoded ids than 5 (0, large ids) among variables listed in any order
    for t in (0, 1, 2 ** 32 + 7, 2 ** 62, 2 ** 63 - 1, 2 ** 63, 2 ** 63 + 5, 2 ** 64 - 10):
        for w in (1, 2, 3, 6):
            cases.append({"op": "log_encode", "input": [inst_with(rng, 2, (0.0, float(w)), target=t), t], "stream": "target-id"})
    n = 150 if tier == "quick" else 4000
    for _ in range(n):
        lo = rng.randint(-2 ** 20, 2 ** 20)
        hi = rng.randint(lo, 2 ** 20)
        fl = rng.choice([0.0, 0.25, 0.5, 0.75])
        fh = rng.choice([0.0, 0.25, 0.5, 0.75])
        cases.append({"op": "log_encode", "input": [inst_with(rng, 2, (lo - fl, hi + fh)), 5], "stream": "random"})
    for _ in range(40 if tier == "quick" else 400):
        k = rng.randint(13, 40)
        w = rng.choice([2 ** k, 2 ** k - 1, 2 ** k + 1, rng.randint(2 ** (k - 1), 2 ** k)])
        lo = rng.randint(-1000, 1000)
        cases.append({"op": "log_encode", "input": [inst_with(rng, 2, (float(lo), float(lo + w))), 5], "stream": "wide"})
    # errors
    for _ in range(6 if tier == "quick" else 40):
        cases.append({"op": "log_encode", "input": [inst_with(rng, 2, (0.0, 3.0)), 424242], "stream": "err/unknown"})
        for kind in (1, 3, 4, 5, 0):
            cases.append({"op": "log_encode", "input": [inst_with(rng, kind, (0.0, 3.0)), 5], "stream": "err/kind"})
        cases.append({"op": "log_encode", "input": [inst_with(rng, 2, None), 5], "stream": "err/nobound"})
        # an instance that defines no variable at all: the id is unknown, which is an error (not a panic)
        cases.append({"op": "log_encode", "input": [[1, [], [], [], [], [], [], [], []], rng.choice([0, 5, 2 ** 62])], "stream": "err/empty-instance"})
        for b in ((0.0, INF), (-INF, 3.0), (-INF, INF), (float("nan"), 3.0), (0.0, float("nan"))):
            cases.append({"op": "log_encode", "input": [inst_with(rng, 2, b), 5], "stream": "err/nonfinite"})
        for b in ((0.25, 0.75), (2.5, 2.75), (-0.5, -0.25), (3.0, 1.0)):
            cases.append({"op": "log_encode", "input": [inst_with(rng, 2, b), 5], "stream": "err/empty"})
        for b in ((2.0, 2.0), (1.5, 2.25), (-0.75, 0.5)):
            cases.append({"op": "log_encode", "input": [inst_with(rng, 2, b), 5], "stream": "single"})
    return cases


def nontrivial(case):
    inst = case["input"][0]
    for v in inst[2]:
        if v[0] == 5 and v[2]:
            from common import from_bits
            lo, hi = from_bits(v[2][0][0]), from_bits(v[2][0][1])
            return hi - lo >= 2 and hi - lo < 1e300
    return False
