"""C18 — writing an instance as MPS and reading it back returns the same problem.

Two phases: Coq (`RunC18.write_C18`) produces the writer model's text for every generated instance; the
harness writes the instance with the SDK (`mps::write_file`, gzip), re-reads that file with `mps::load_file`
and also loads the model's text; Coq (`RunC18.run_C18`) checks that the model text handed to the SDK is
`write_mps I`, runs the reader model on both texts and compares all four results with the original."""
import common as C
from gen import mps as G
from props.c17 import render_all

PROP = "C18"
RUNNER = ("RunC18", "run_C18")
COQ_TARGETS = ["theories/RunC18.vo"]
SHARD = 120
AUTHORITY = ("C18_load_write (coq/props/C18.v): load (write I) is the same problem as I for every well-formed linear I; "
             "C18_refuses_* / C18_domain for the writer model; the comparator same_problem checks "
             "sense, objective, per-ID (equality kind, function) and the value domains of the used variables against "
             "the original instance, for SDK-write->SDK-read, model-write->SDK-read, SDK-write->model-read, "
             "model-write->model-read")
RULE = ("linear instances: 1-6 variables (continuous / integer / binary; bound absent / finite / half-infinite / "
        "(-inf,inf) / negative / [0,1] / fixed), 0-5 constraints (= 0 / <= 0, constant-only included), functions "
        "rendered as Constant / Linear / Quadratic-with-empty-quadratic-part / Polynomial messages, non-contiguous and "
        "large ids, unsorted variable lists, both senses, unused variables; dup stream: Linear messages repeating a variable id; nonlinear stream: a quadratic / polynomial "
        "objective or constraint (incl. a zero-coefficient degree-2 monomial) that must be refused naming the "
        "offender; undefined-id stream. non-trivial = instance has a constraint or a bound; distinct by (op,input)")
TRUSTED = ["hand-written writer model (Mps.v write_mps) and reader model (Mps.v load_lines), tied to the code by this correspondence only",
           "Rust's `{}` formatting of small dyadic f64 = exact decimal expansion (Mps.print_num)"]
ASSUMPTIONS = ["coefficients, constants and bounds are small dyadic rationals or +-inf",
               "out of scope by the property's wording and not generated: variables used only with zero coefficients, "
               "(a variable whose repeated terms cancel to 0 everywhere is not written and is left out of the domain comparison), binary variables with a bound outside [0,1], "
               "semi-continuous / semi-integer kinds, unspecified sense or equality"]
PLANNED = []   # C18_load_write (Tier B) is proved: coq/theories/MpsWriteRoundTrip.v
PER_CASE_TIMEOUT = 20.0


def gen(rng, tier):
    n = 420 if tier == "quick" else 9000
    insts = []
    for k in range(n):
        r = k % 10
        if r < 7:
            insts.append((G.gen_instance(rng), "linear"))
        elif r == 7:
            insts.append((G.gen_instance(rng, nonlinear=rng.choice(["objective", "constraint", "both"])), "nonlinear"))
        elif r == 8:
            ins = G.gen_instance(rng)
            # a function uses an id that is not defined
            ins[1] = [G.lin([(77, 1.5)], 0.0)]
            insts.append((ins, "undefined-id"))
        else:
            # a Linear message that repeats a variable id (the entry written is the sum)
            insts.append((G.gen_instance(rng, dup=True), "dup"))
    body_inputs = [[ins] for ins, _ in insts]
    batches = render_all_write(body_inputs)
    cases = []
    for (ins, stream), lines in zip(insts, batches):
        if not (isinstance(lines, list) and all(isinstance(x, str) for x in lines)) or \
                (lines and lines[0] == "badcase"):
            raise RuntimeError("Coq writer model rejected a generated instance: %r" % (lines,))
        cases.append({"op": "mps_cross", "input": [ins, lines], "stream": stream})
    return cases


def render_all_write(inputs, shard=150):
    from concurrent.futures import ThreadPoolExecutor

    def one(kb):
        k, batch = kb
        body = "Definition cases : list tree := [\n" + ";\n".join(C.to_coq(c) for c in batch) + "\n]."
        out = C.eval_in_coq(["Ommx.RunC18"], "map write_C18 cases", body, "write_C18_%d" % k)
        if len(out) != len(batch):
            raise RuntimeError("write: count mismatch")
        return out
    batches = [inputs[i:i + shard] for i in range(0, len(inputs), shard)]
    with ThreadPoolExecutor(max_workers=C.NPROC) as ex:
        outs = list(ex.map(one, enumerate(batches)))
    res = []
    for o in outs:
        res += o
    return res


def nontrivial(case):
    ins = case["input"][0]
    return len(ins[3]) > 0 or any(d[2] for d in ins[2])
