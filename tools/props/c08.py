"""C08 — validation accepts exactly the well-formed instances; typed view keeps content."""
import copy
import itertools
from common import f64
from gen import poly as G
from gen import inst as GI

PROP = "C08"
RUNNER = ("RunC08", "run_C08")
COQ_TARGETS = ["theories/RunC08.vo"]
AUTHORITY = ("C08_validate_iff / C08_parse_iff (coq/props/C08.v): the model accepts exactly the declaratively well-formed messages; "
             "the runner requires the SDK's error (variant, payload, context path) to be one the model allows")
RULE = ("well-formed instances (all kinds, absent / finite / infinite bounds, active + removed constraints, dependencies, one-hot and "
        "SOS1 hints) and every single-fault mutation at every position: duplicated variable / constraint id (within active, within "
        "removed, across), undefined variable in objective / each constraint / each removed constraint / dependency key, unset "
        "sense, missing or unset objective, per constraint unset equality / missing / unset function, removed constraint without "
        "constraint, per variable unset kind and each invalid bound shape (NaN, +inf lower, -inf upper, lower > upper), unset "
        "dependency function, each hint slot undefined or repeated; faults also in pairs (the order of checks decides the report); "
        "validate(), ParametricInstance::validate(), Instance::try_from with ParseError variant + payload + context path, and the "
        "typed components on success. non-trivial = mutated cases")
TRUSTED = ["hand-written model coq/theories/Validate.v of validate* and the Parse impls (tied by this correspondence only)"]
ASSUMPTIONS = ["where hash-map iteration order decides which of several violations is reported, any of them is accepted"]
PLANNED = []
SHARD = 150
NAN = float("nan")
INF = float("inf")


def base_instance(rng):
    inst, info = GI.rand_instance(rng, allow_unset=False, n_vars=rng.randint(2, 5), n_cons=rng.randint(1, 3),
                                  n_removed=rng.randint(0, 2))
    if not inst[1]:
        inst[1] = [["const", f64(0.0)]]
    for c in inst[3]:
        if not c[2]:
            c[2] = [["const", f64(1.0)]]
    for r in inst[4]:
        if not r[0][0][2]:
            r[0][0][2] = [["lin", [[], f64(0.0)]]]
    cids = [c[0] for c in inst[3]]
    vids = [v[0] for v in inst[2]]
    if rng.random() < 0.6:
        oh = [[rng.choice(cids), rng.sample(vids, rng.randint(0, min(3, len(vids))))] for _ in range(rng.randint(0, 2))]
        so = [[rng.choice(cids), rng.sample(cids, rng.randint(0, len(cids))), rng.sample(vids, rng.randint(0, min(2, len(vids))))]
              for _ in range(rng.randint(0, 1))]
        inst[7] = [[oh, so]]
    return inst, info


_BAD = [0]


def bad_fn(v=None):
    """a function using the undefined id 987654, cycling through the places an id can occur in: a linear term, a quadratic
    row only, a quadratic column only, the linear part of a quadratic, a polynomial monomial (with and without company)"""
    _BAD[0] += 1
    k = _BAD[0] % 6
    u = 987654
    w = v if v is not None else u
    if k == 0:
        return ["lin", [[[u, f64(1.0)]], f64(0.0)]]
    if k == 1:
        return ["quad", [[u], [w], [f64(1.0)], []]]
    if k == 2:
        return ["quad", [[w], [u], [f64(2.0)], [[[[w, f64(1.0)]], f64(0.0)]]]]
    if k == 3:
        return ["quad", [[w], [w], [f64(1.0)], [[[[u, f64(1.0)]], f64(0.5)]]]]
    if k == 4:
        return ["poly", [[[w, u, w], f64(1.0)], [[], f64(1.0)]]]
    return ["poly", [[[w], f64(1.0)], [[u], f64(0.0)]]]          # even with an explicit zero coefficient the id is used


def mutations(inst):
    """yield (name, mutator) pairs; a mutator edits a deep copy in place"""
    out = []
    nv, nc, nr = len(inst[2]), len(inst[3]), len(inst[4])
    for k in range(nv):
        out.append(("dup-var@%d" % k, lambda m, k=k: m[2].append(copy.deepcopy(m[2][k]))))
        for kind in (0, 9):
            out.append(("kind@%d" % k, lambda m, k=k, kind=kind: m[2][k].__setitem__(1, kind)))
        for b in ((NAN, 1.0), (0.0, NAN), (INF, INF), (-INF, -INF), (2.0, 1.0)):
            out.append(("bound@%d" % k, lambda m, k=k, b=b: m[2][k].__setitem__(2, [[f64(b[0]), f64(b[1])]])))
    out.append(("sense0", lambda m: m.__setitem__(0, 0)))
    out.append(("sense9", lambda m: m.__setitem__(0, 9)))
    out.append(("obj-none", lambda m: m.__setitem__(1, [])))
    out.append(("obj-unset", lambda m: m.__setitem__(1, [["unset"]])))
    out.append(("obj-undef", lambda m: m.__setitem__(1, [bad_fn(m[2][0][0] if m[2] else None)])))
    for k in range(nc):
        out.append(("c-eq@%d" % k, lambda m, k=k: m[3][k].__setitem__(1, 0)))
        out.append(("c-eq9@%d" % k, lambda m, k=k: m[3][k].__setitem__(1, 9)))
        out.append(("c-fn-none@%d" % k, lambda m, k=k: m[3][k].__setitem__(2, [])))
        out.append(("c-fn-unset@%d" % k, lambda m, k=k: m[3][k].__setitem__(2, [["unset"]])))
        out.append(("c-undef@%d" % k, lambda m, k=k: m[3][k].__setitem__(2, [bad_fn(m[2][0][0] if m[2] else None)])))
        out.append(("c-dup@%d" % k, lambda m, k=k: m[3].append(copy.deepcopy(m[3][k]))))
    for k in range(nr):
        out.append(("r-none@%d" % k, lambda m, k=k: m[4][k].__setitem__(0, [])))
        out.append(("r-eq@%d" % k, lambda m, k=k: m[4][k][0][0].__setitem__(1, 0)))
        out.append(("r-fn-none@%d" % k, lambda m, k=k: m[4][k][0][0].__setitem__(2, [])))
        out.append(("r-fn-unset@%d" % k, lambda m, k=k: m[4][k][0][0].__setitem__(2, [["unset"]])))
        out.append(("r-undef@%d" % k, lambda m, k=k: m[4][k][0][0].__setitem__(2, [bad_fn(m[2][0][0] if m[2] else None)])))
        out.append(("r-dup@%d" % k, lambda m, k=k: m[4].append(copy.deepcopy(m[4][k]))))
        if nc:
            out.append(("r-dup-active@%d" % k, lambda m, k=k: m[4][k][0][0].__setitem__(0, m[3][0][0])))
    out.append(("dep-undef", lambda m: m[5].append([987655, ["const", f64(1.0)]])))
    out.append(("dep-fn-undef", lambda m: m[5].append([m[2][-1][0], bad_fn(m[2][0][0])])))
    out.append(("dep-unset", lambda m: m[5].append([m[2][0][0], ["unset"]])))

    def hint(m):
        if not m[7]:
            m[7] = [[[], []]]
        return m[7][0]
    cid = inst[3][0][0] if nc else 1
    vid = inst[2][0][0]
    out.append(("oh-undef-c", lambda m: hint(m)[0].append([424242, [vid]])))
    out.append(("oh-undef-v", lambda m: hint(m)[0].append([cid, [vid, 987656]])))
    out.append(("oh-rep-v", lambda m: hint(m)[0].append([cid, [vid, vid]])))
    out.append(("sos-undef-b", lambda m: hint(m)[1].append([424243, [], [vid]])))
    out.append(("sos-undef-m", lambda m: hint(m)[1].append([cid, [424244], [vid]])))
    out.append(("sos-rep-m", lambda m: hint(m)[1].append([cid, [cid, cid], [vid]])))
    out.append(("sos-undef-v", lambda m: hint(m)[1].append([cid, [cid], [987657]])))
    out.append(("sos-rep-v", lambda m: hint(m)[1].append([cid, [], [vid, vid]])))
    if nr:
        rid = inst[4][0][0][0][0]
        out.append(("oh-removed-c", lambda m: hint(m)[0].append([rid, [vid]])))
    return out


def to_parametric(rng, inst, info):
    usable = [i for i in info["usable"]]
    rng.shuffle(usable)
    params = usable[:rng.randint(0, min(2, len(usable)))]
    dvs = [v for v in inst[2] if v[0] not in params]
    plist = [[p, [], [], [], []] for p in params]
    return [inst[0], inst[1], dvs, plist, inst[3], inst[4], [], inst[7], inst[8]], params


def gen(rng, tier):
    nb = 12 if tier == "quick" else 300
    cases = []
    for b in range(nb):
        inst, info = base_instance(rng)
        for op in ("validate", "typed_parse"):
            cases.append({"op": op, "input": inst, "stream": op + "/valid"})
        # an explicit bound that equals the all-zero Bound message is a bound ([0,0]: fixed), not an absent one
        if inst[2]:
            for lo in (0.0, -0.0):
                m = copy.deepcopy(inst)
                m[2][rng.randrange(len(m[2]))][2] = [[f64(lo), f64(0.0)]]
                cases.append({"op": "typed_parse", "input": m, "stream": "typed/zero-bound"})
        muts = mutations(inst)
        for name, mu in muts:
            m = copy.deepcopy(inst)
            mu(m)
            cases.append({"op": "validate", "input": m, "stream": "validate/" + name.split("@")[0]})
            cases.append({"op": "typed_parse", "input": m, "stream": "typed/" + name.split("@")[0]})
        # the same instance with every function made variable-free (constant / empty linear / absent quadratic part), as
        # after fixing all variables: the uniqueness rules do not depend on any id being used
        m0 = copy.deepcopy(inst)
        consts = [["const", f64(1.5)], ["lin", [[], f64(0.0)]], ["quad", [[], [], [], []]], ["poly", []], ["const", f64(0.0)]]
        m0[1] = [consts[b % len(consts)]]
        for j, c in enumerate(m0[3]):
            c[2] = [consts[(b + j + 1) % len(consts)]]
        for j, r in enumerate(m0[4]):
            r[0][0][2] = [consts[(b + j + 2) % len(consts)]]
        m0[5] = []
        m0[7] = []
        for op in ("validate", "typed_parse"):
            cases.append({"op": op, "input": m0, "stream": op + "/valid-no-ids-used"})
        for name, mu in mutations(m0):
            if name.split("@")[0] in ("dup-var", "c-dup", "r-dup", "r-dup-active"):
                m = copy.deepcopy(m0)
                mu(m)
                cases.append({"op": "validate", "input": m, "stream": "validate/no-ids-used/" + name.split("@")[0]})
                cases.append({"op": "typed_parse", "input": m, "stream": "typed/no-ids-used/" + name.split("@")[0]})
        # pairs
        npairs = 25 if tier == "quick" else 60
        for _ in range(npairs):
            (n1, m1), (n2, m2) = rng.sample(muts, 2)
            m = copy.deepcopy(inst)
            try:
                m1(m)
                m2(m)
            except Exception:
                continue
            cases.append({"op": "typed_parse", "input": m, "stream": "typed/pair"})
            cases.append({"op": "validate", "input": m, "stream": "validate/pair"})
        # parametric
        pinst, params = to_parametric(rng, inst, info)
        cases.append({"op": "pvalidate", "input": pinst, "stream": "pvalidate/valid"})
        if params and pinst[2]:
            pm = copy.deepcopy(pinst)
            pm[3].append([pm[2][0][0], [], [], [], []])      # parameter id equal to a variable id
            cases.append({"op": "pvalidate", "input": pm, "stream": "pvalidate/joint-dup"})
            pm = copy.deepcopy(pinst)
            pm[3] = pm[3][1:]                                  # a used parameter is no longer declared
            cases.append({"op": "pvalidate", "input": pm, "stream": "pvalidate/undeclared"})
        if pinst[3]:
            pm = copy.deepcopy(pinst)
            pm[3].append(copy.deepcopy(pm[3][0]))             # two parameters with the same id
            cases.append({"op": "pvalidate", "input": pm, "stream": "pvalidate/dup-param"})
        if pinst[2]:
            pm = copy.deepcopy(pinst)
            pm[2].append(copy.deepcopy(pm[2][0]))             # two decision variables with the same id
            cases.append({"op": "pvalidate", "input": pm, "stream": "pvalidate/dup-var"})
        if pinst[4]:
            pm = copy.deepcopy(pinst)
            pm[4][0][2] = [bad_fn(pm[2][0][0] if pm[2] else None)]   # an undefined id inside an ACTIVE constraint
            cases.append({"op": "pvalidate", "input": pm, "stream": "pvalidate/constraint-undef"})
            pm = copy.deepcopy(pinst)
            pm[4].append(copy.deepcopy(pm[4][0]))             # duplicated active constraint id
            cases.append({"op": "pvalidate", "input": pm, "stream": "pvalidate/dup-constraint"})
        if pinst[5] and pinst[4]:
            pm = copy.deepcopy(pinst)
            pm[5][0][0][0][0] = pm[4][0][0]                   # a removed constraint carrying an active id
            cases.append({"op": "pvalidate", "input": pm, "stream": "pvalidate/removed-dup-active"})
        pm = copy.deepcopy(pinst)
        if pm[5]:
            pm[5][0][0][0][2] = [bad_fn()]                     # removed constraints are NOT checked for used ids
            cases.append({"op": "pvalidate", "input": pm, "stream": "pvalidate/removed-undef"})
        pm = copy.deepcopy(pinst)
        pm[1] = [bad_fn()]
        cases.append({"op": "pvalidate", "input": pm, "stream": "pvalidate/undef"})
        if pm[4]:
            pm = copy.deepcopy(pinst)
            pm[4].append(copy.deepcopy(pm[4][0]))
            cases.append({"op": "pvalidate", "input": pm, "stream": "pvalidate/dup-constr"})
    return cases


def nontrivial(case):
    return "valid" not in case.get("stream", "")
