"""C09 — penalty methods keep every constraint and build f + weighted squared violations."""
from common import f64
from gen import poly as G
from gen import inst as GI

PROP = "C09"
RUNNER = ("RunTransform", "run_C09")
COQ_TARGETS = ["theories/RunTransform.vo"]
AUTHORITY = ("C09_* (coq/props/C09.v): the model's parametric objective denotes f + sum_c p_c * g_c^2 (uniform: f + p * sum g_c^2); "
             "the runner recomputes the expected objective for the SDK's own (checked-fresh) parameter ids; C09_penalty_eval / "
             "C09_uniform_penalty_eval: with the weights fixed, EVALUATION at x gives f(x) + sum_k w_k g_k(x)^2, no active constraint, "
             "the former constraints reported in order, feasible_relaxed always true")
RULE = ("valid instances (0-3 active, 0-2 previously removed constraints, constant / absent / unset constraint functions, degree <= 2, "
        "non-contiguous ids, zero constraints, either sense, dependencies) through penalty_method and uniform_penalty_method; "
        "compared: no active constraint, every input constraint kept (id, function, equality, metadata) in order, fresh distinct "
        "parameter ids disjoint from variable ids, subscripts = [constraint id], objective as a formal polynomial in x and the "
        "weight parameters, carried-over variables/sense/dependencies/hints. non-trivial = >=1 active constraint with a variable")
TRUSTED = ["hand-written model coq/theories/Transform.v of penalty_method / uniform_penalty_method (tied by this correspondence only)"]
ASSUMPTIONS = ["small dyadic coefficients (exact f64 arithmetic)", "quadratic functions without duplicated (row,col) positions"]
PLANNED = []
SHARD = 150


def gen(rng, tier):
    n = 150 if tier == "quick" else 2500
    cases = []
    for k in range(n):
        inst, info = GI.rand_instance(rng, max_deg=2, allow_unset=(rng.random() < 0.05), rich=True)
        for op in ("penalty", "uniform_penalty"):
            cases.append({"op": op, "input": inst, "stream": op})
    # zero constraints, and only previously removed ones
    for _ in range(10):
        inst, info = GI.rand_instance(rng, n_cons=0, n_removed=rng.randint(0, 2), allow_unset=False, rich=True)
        for op in ("penalty", "uniform_penalty"):
            cases.append({"op": op, "input": inst, "stream": op + "/no-active"})
    return cases


def nontrivial(case):
    return any(c[2] and G.fn_ids(c[2][0]) for c in case["input"][3])
