"""C16 — interval bounds enclose every attainable value (Bound::{new,add,mul,pow,scale,
as_integer_bound,contains,intersection,nearest_to_zero}, Function::evaluate_bound,
Function::content_factor)."""
import math
import random
import struct
from fractions import Fraction

from common import f64, from_bits
from gen import poly as G

PROP = "C16"
RUNNER = ("RunC16", "run_C16")
COQ_TARGETS = ["theories/RunC16.vo"]
SHARD = 300
AUTHORITY = ("C16_add / C16_mul / C16_pow / C16_scale / C16_function / C16_integer / C16_content "
             "(coq/props/C16.v): for valid operands the model returns a valid interval that contains the "
             "pointwise result of every pair of member points; the model's interval is therefore the answer the "
             "SDK must give on exactly representable inputs; C16_evaluated_in_bounds: every value reported by Instance::evaluate "
             "lies in evaluate_bound over the instance box")
RULE = ("exact stream: operands over the full grid of endpoint classes {-inf,-3,-1/2,0,1/2,3,+inf}^2 (all valid "
        "pairs, every pair of operands for + and x) and random dyadic endpoints k/2^a (|k|<=8,a<=2) incl. -0.0, "
        "exponents 0..6 (and 7, 255 on unit intervals), scalars dyadic non-zero (and 0 on finite intervals); sample "
        "points = corners, faces, interior, far points of infinite sides, images computed exactly in Coq; "
        "evaluate_bound: polynomials of degree<=4 in all five representations (normalised or not), boxes with "
        "finite/half-infinite/whole/degenerate/missing entries, corner+interior states; as_integer_bound: dyadic "
        "endpoints and endpoints at 1e-6 +- ulps around 0 (exact float subtraction); content_factor: rational "
        "coefficients p/q, q<=60 in all representations (SDK gets the nearest f64). rounded stream (TEST, not theorem): "
        "random non-dyadic floats, endpoints within relative 2^-40 of the exact model endpoints and exact images of sample "
        "points enclosed up to that slack; panic points outside the property (0 * infinite interval, as_integer_bound of an "
        "interval without integer, quadratic with unequal array lengths) agree with the model's None. non-trivial = not both operands equal / function has "
        "a variable; distinct by (op,input)")
TRUSTED = ["hand-written model coq/theories/Bound.v of bound.rs:21-361 and v1_ext/function.rs:189-233 (tied to the "
           "code by this correspondence only)",
           "f64 -> exact rational decoding in Num.v (f64_of_bits)"]
ASSUMPTIONS = ["exact stream: all endpoints/coefficients/points are small dyadic rationals so every f64 operation of the "
               "SDK is exact and intervals are compared for equality",
               "float rounding of endpoints is not modelled (the code does not round outward): on the rounded stream the "
               "SDK's endpoints are only TESTED to be within relative 2^-40 of the exact model endpoints",
               "u8 truncation of exponents above 255 and Rational64::approximate_float / i64 overflow in content_factor are "
               "not modelled (DESIGN 3.4); content_factor is compared on the intended fraction p/q, q<=60",
               "scaling by exactly 0 is outside the property (Bound * 0.0 with an infinite endpoint is NaN and panics); the "
               "theorem keeps k<>0"]
PLANNED = []

INF = float("inf")
GRID = [-INF, -3.0, -0.5, 0.0, 0.5, 3.0, INF]


def nextafter(x, up):
    return math.nextafter(x, INF if up else -INF)


def grid_bounds():
    out = []
    for l in GRID:
        for u in GRID:
            if l != INF and u != -INF and l <= u:
                out.append((l, u))
    return out


def dy(rng, maxnum=8, maxexp=2):
    return rng.randint(-maxnum, maxnum) / float(2 ** rng.randint(0, maxexp))


def rand_bound(rng, maxnum=8, maxexp=2):
    """valid bound with endpoint classes {-inf, negative, 0, positive, +inf}"""
    r = rng.random()
    if r < 0.08:
        return (-INF, INF)
    if r < 0.22:
        return (-INF, rng.choice([0.0, dy(rng, maxnum, maxexp)]))
    if r < 0.36:
        return (rng.choice([0.0, dy(rng, maxnum, maxexp)]), INF)
    if r < 0.44:
        c = rng.choice([0.0, 0.0, dy(rng, maxnum, maxexp)])
        return (c, c)
    a, b = dy(rng, maxnum, maxexp), dy(rng, maxnum, maxexp)
    if rng.random() < 0.25:
        a = 0.0
    l, u = min(a, b), max(a, b)
    if rng.random() < 0.05 and l == 0.0:
        l = -0.0
    return (l, u)


def bt(b):
    return [f64(b[0]), f64(b[1])]


def points(rng, b, n=4):
    """dyadic sample points of a bound: corners, near-corners, interior, far out on infinite sides"""
    l, u = b
    c = []
    if l != -INF:
        c += [l, l + 0.25, l + 1.0]
    if u != INF:
        c += [u, u - 0.25, u - 1.0]
    if l != -INF and u != INF:
        c += [(l + u) / 2, (3 * l + u) / 4]
    if l == -INF:
        base = u if u != INF else 0.0
        c += [base - 7.5, base - 1024.0]
    if u == INF:
        base = l if l != -INF else 0.0
        c += [base + 7.5, base + 1024.0]
    c += [0.0, 1.0, -1.0]
    c = [x + 0.0 for x in c if l <= x <= u]
    seen = []
    for x in c:
        if x not in seen:
            seen.append(x)
    corners = [x for x in seen if x in (l, u)]
    rest = [x for x in seen if x not in corners]
    rng.shuffle(rest)
    return (corners + rest)[:n]


def pairs(rng, bx, by, n=6):
    px, py = points(rng, bx, 4), points(rng, by, 4)
    ps = [(x, y) for x in px for y in py]
    corner = [(x, y) for x, y in ps if x in bx and y in by]
    rest = [p for p in ps if p not in corner]
    rng.shuffle(rest)
    return [[f64(x), f64(y)] for x, y in (corner + rest)[:n]]


def case(op, inp, stream):
    return {"op": op, "input": inp, "stream": stream}


def rfloat(rng, scale=10.0):
    return rng.uniform(-scale, scale)


def rand_float_bound(rng):
    r = rng.random()
    a, b = rfloat(rng), rfloat(rng)
    l, u = min(a, b), max(a, b)
    if r < 0.15:
        l = -INF
    elif r < 0.3:
        u = INF
    return (l, u)


# ---------------------------------------------------------------------------------
# rational-coefficient functions (content_factor): one abstract polynomial rendered twice,
# once with f64 coefficients (SDK) and once with [p, q] pairs (model)


def render_rat(rng, mons, pool, split=0.0):
    """mons: list of (ids tuple, Fraction); returns (f64 tree, rational tree).  With probability `split` per term a
    coefficient is spread over two entries of the same monomial (legal where the message allows repeats: terms of a
    Linear / of a Quadratic's linear part, monomials of a Polynomial; never a quadratic (row, column) position)"""
    d = max([len(m) for m, _ in mons] or [0])
    opts = ["poly"]
    if d <= 2:
        opts.append("quad")
    if d <= 1:
        opts.append("lin")
    if d == 0 and len(mons) <= 1:
        opts.append("const")
        if not mons:
            opts.append("unset")
    variant = rng.choice(opts + opts[-2:])
    terms = list(mons)
    if rng.random() < 0.3 and variant in ("poly", "quad", "lin") and pool:
        k = rng.randint(0, {"poly": max(d, 1), "quad": 2, "lin": 1}[variant])
        m = tuple(sorted(rng.choice(pool) for _ in range(k)))
        if all(m != mm for mm, _ in terms):
            terms.append((m, Fraction(0)))
    if split > 0:
        out = []
        for m, c in terms:
            ok_here = variant == "poly" or (len(m) == 1 and variant in ("lin", "quad"))
            if ok_here and c != 0 and rng.random() < split:
                a = c * rng.choice([Fraction(1, 2), Fraction(2), Fraction(-1), Fraction(1, 4)])
                out += [(m, a), (m, c - a)]
            else:
                out.append((m, c))
        terms = out
    rng.shuffle(terms)

    def build(num):
        if variant == "unset":
            return ["unset"]
        if variant == "const":
            return ["const", num(terms[0][1] if terms else Fraction(0))]

        def lin(ts):
            const = sum((c for m, c in ts if len(m) == 0), Fraction(0))
            return [[[m[0], num(c)] for m, c in ts if len(m) == 1], num(const)]
        if variant == "lin":
            return ["lin", lin(terms)]
        if variant == "quad":
            rows, cols, vals = [], [], []
            for (m, c), sw in zip(terms, swaps):
                if len(m) == 2:
                    r, cc = (m[1], m[0]) if sw else m
                    rows.append(r)
                    cols.append(cc)
                    vals.append(num(c))
            rest = [(m, c) for m, c in terms if len(m) < 2]
            return ["quad", [rows, cols, vals, [lin(rest)] if (rest or keep_lin) else []]]
        return ["poly", [[perm(m, k), num(c)] for k, (m, c) in enumerate(terms)]]

    swaps = [rng.random() < 0.5 for _ in terms]
    keep_lin = rng.random() < 0.3
    perms = [rng.random() for _ in terms]

    def perm(m, k):
        ids = list(m)
        random.Random(perms[k]).shuffle(ids)
        return ids
    return (build(lambda c: f64(c.numerator / c.denominator)),
            build(lambda c: [c.numerator, c.denominator] if c.denominator != 1 else c.numerator))


def rand_frac(rng):
    q = rng.randint(1, 60)
    p = rng.randint(-40, 40)
    return Fraction(p, q)


# ---------------------------------------------------------------------------------


def gen(rng, tier):
    quick = tier == "quick"
    cases = []
    GB = grid_bounds()

    # Bound::new on every class of endpoint, NaN included
    ends = [float("nan"), -INF, INF, -2.5, -0.0, 0.0, 1.0, 4.0]
    for l in ends:
        for u in ends:
            cases.append(case("bound_new", [f64(l), f64(u)], "new/grid"))

    # full grid of endpoint classes for + and x
    for bx in GB:
        for by in GB:
            for op in ("bound_add", "bound_mul"):
                cases.append(case(op, [bt(bx), bt(by), "exact", pairs(rng, bx, by, 5)], "grid/" + op))
    # grid x exponents, grid x scalars
    for bx in GB:
        for n in range(0, 7):
            cases.append(case("bound_pow", [bt(bx), n, "exact", [f64(x) for x in points(rng, bx, 5)]], "grid/bound_pow"))
        for k in (-2.0, -0.25, 0.5, 3.0):
            cases.append(case("bound_scale", [bt(bx), f64(k), "exact", [f64(x) for x in points(rng, bx, 5)]], "grid/bound_scale"))
        if bx[0] != -INF and bx[1] != INF:
            cases.append(case("bound_scale", [bt(bx), f64(0.0), "exact", [f64(x) for x in points(rng, bx, 3)]], "grid/bound_scale0"))
        for c in (-1.5, 0.0, 2.0):
            cases.append(case("bound_add_scalar", [bt(bx), f64(c), "exact", [f64(x) for x in points(rng, bx, 4)]], "grid/bound_add_scalar"))
        cases.append(case("nearest_to_zero", [bt(bx)], "grid/nearest_to_zero"))
        cases.append(case("as_integer_bound", [bt(bx), list(range(-5, 6))], "grid/as_integer_bound"))
        for by in GB:
            cases.append(case("bound_intersection", [bt(bx), bt(by)], "grid/intersection"))
    # outside the property, kept to pin the panic points of the model: scaling an interval with an
    # infinite endpoint by exactly 0 (NaN endpoint -> unwrap panics; model None)
    for bx in GB:
        if bx[0] == -INF or bx[1] == INF:
            cases.append(case("bound_scale", [bt(bx), f64(0.0), "exact", []], "outside-property/scale0-infinite"))
    # malformed quadratic (array lengths differ): the term iterator asserts -> panic; model None
    for rows, cols, vals in ([[1], [1, 2], [1.0, 2.0]], [[1, 2], [1, 2], [1.0]], [[1, 2], [1], [1.0]]):
        fn = ["quad", [rows, cols, [f64(v) for v in vals], []]]
        cases.append(case("evaluate_bound", [fn, [[1, bt((0.0, 1.0))]], "exact", []], "malformed/evaluate_bound/quad-lengths"))
    # large exponents on intervals where powers stay exact
    for bx in [(-1.0, 1.0), (-1.0, 0.0), (0.0, 1.0), (-1.0, -1.0), (-INF, INF), (-INF, 0.0), (0.0, INF), (-0.5, 1.0), (-2.0, 1.0)]:
        for n in (7, 8, 20, 21, 254, 255):
            cases.append(case("bound_pow", [bt(bx), n, "exact", [f64(x) for x in points(rng, bx, 4) if abs(x) <= 2]], "bigexp/bound_pow"))

    n = 250 if quick else 6000
    for _ in range(n):
        bx, by = rand_bound(rng), rand_bound(rng)
        cases.append(case("bound_add", [bt(bx), bt(by), "exact", pairs(rng, bx, by)], "dyadic/bound_add"))
        bx, by = rand_bound(rng), rand_bound(rng)
        cases.append(case("bound_mul", [bt(bx), bt(by), "exact", pairs(rng, bx, by)], "dyadic/bound_mul"))
        bx = rand_bound(rng)
        cases.append(case("bound_pow", [bt(bx), rng.randint(0, 6), "exact", [f64(x) for x in points(rng, bx, 5)]], "dyadic/bound_pow"))
        bx = rand_bound(rng)
        k = G.dyadic(rng, 8, 2, nonzero=True)
        cases.append(case("bound_scale", [bt(bx), f64(k), "exact", [f64(x) for x in points(rng, bx, 5)]], "dyadic/bound_scale"))
        bx = rand_bound(rng)
        cases.append(case("bound_add_scalar", [bt(bx), f64(dy(rng)), "exact", [f64(x) for x in points(rng, bx, 4)]], "dyadic/bound_add_scalar"))
        bx = rand_bound(rng)
        cases.append(case("as_integer_bound", [bt(bx), list(range(-9, 10))], "dyadic/as_integer_bound"))
        bx = rand_bound(rng)
        cases.append(case("nearest_to_zero", [bt(bx)], "dyadic/nearest_to_zero"))
        bx, by = rand_bound(rng), rand_bound(rng)
        cases.append(case("bound_intersection", [bt(bx), bt(by)], "dyadic/intersection"))
        bx = rand_bound(rng)
        v = rng.choice(points(rng, bx, 6) + [dy(rng), dy(rng)])
        cases.append(case("bound_contains", [bt(bx), f64(v), f64(rng.choice([0.0, 0.25, 0.5, 1.0]))], "dyadic/contains"))

    # tolerance boundaries where the float subtraction/addition is exact (endpoint 0 or infinite)
    for tol in (1e-6, 1e-7, 1e-9):
        near = [tol, nextafter(tol, True), nextafter(tol, False), 2 * tol, tol / 2]
        for t in near:
            for s in (1.0, -1.0):
                for bx in [(0.0, 0.0), (0.0, INF), (-INF, 0.0), (-INF, INF), (0.0, 1.0), (-1.0, 0.0)]:
                    cases.append(case("bound_contains", [bt(bx), f64(s * t), f64(tol)], "boundary/contains"))
    t6 = 1e-6
    for a in (t6, nextafter(t6, True), nextafter(t6, False), 2 * t6, t6 / 2, 0.0, -t6, -nextafter(t6, True), -nextafter(t6, False)):
        for bx in [(a, 3.0), (a, INF), (-3.0, a), (-INF, a), (a, 1.0), (-1.0, a)]:
            if bx[0] <= bx[1]:
                cases.append(case("as_integer_bound", [bt(bx), list(range(-4, 5))], "boundary/as_integer_bound"))
    # endpoints far beyond the 64-bit integer range (every binary64 of that size is an integer): nothing may be lost
    for bx in [(0.0, 1e19), (-3e19, 5.0), (1e19, 2e19), (2.0 ** 63, 2.0 ** 63 + 4096.0), (-(2.0 ** 64), -(2.0 ** 63)),
               (-1e300, 1e300), (2.0 ** 62, 2.0 ** 70)]:
        cases.append(case("as_integer_bound", [bt(bx), [0, 5, 2 ** 62, 2 ** 63, 10 ** 19, -(2 ** 63)]], "boundary/as_integer_bound_huge"))
    # intervals without any integer: Bound::new inside as_integer_bound fails (panic), model None
    for bx in [(0.25, 0.75), (-0.75, -0.25), (1.5, 1.5), (2.25, 2.5)]:
        cases.append(case("as_integer_bound", [bt(bx), list(range(-4, 5))], "boundary/as_integer_bound_empty"))

    # evaluate_bound
    m = 350 if quick else 8000
    for k in range(m):
        pool = G.ids_pool(rng, rng.randint(1, 5))
        p = G.rand_poly(rng, pool, max_deg=rng.choice([0, 1, 1, 2, 2, 3, 4, 4]), max_terms=6)
        fn = G.render(rng, p, pool)
        ids = sorted(G.fn_ids(fn) | set(pool))
        box = {}
        for i in ids:
            r = rng.random()
            if r < 0.15:
                continue                      # missing = whole line
            if r < 0.75:
                a, b = dy(rng, 8, 1), dy(rng, 8, 1)
                if rng.random() < 0.2:
                    a = 0.0
                if rng.random() < 0.15:
                    b = a
                box[i] = (min(a, b), max(a, b))
            else:
                box[i] = rand_bound(rng, 8, 1)
        states = []
        for s in range(4):
            st = []
            for i in ids:
                b = box.get(i, (-INF, INF))
                if s == 0:
                    cand = [x for x in b if abs(x) != INF] or points(rng, b, 3)
                    v = cand[0]
                elif s == 1:
                    cand = [x for x in b if abs(x) != INF] or points(rng, b, 3)
                    v = cand[-1]
                else:
                    pts = [x for x in points(rng, b, 8) if abs(x) <= 16]
                    v = rng.choice(pts)
                st.append([i, f64(v)])
            states.append(st)
        bs = [[i, bt(b)] for i, b in box.items()]
        rng.shuffle(bs)
        cases.append(case("evaluate_bound", [fn, bs, "exact", states], "dyadic/evaluate_bound/" + fn[0]))

    # content_factor
    c = 250 if quick else 6000
    for k in range(c):
        pool = G.ids_pool(rng, rng.randint(1, 4), big=0.05)
        nt = rng.randint(0, 5)
        mons = {}
        maxdeg = rng.choice([0, 1, 1, 2, 2, 3])
        for _ in range(nt):
            d = rng.randint(0, maxdeg)
            mono = tuple(sorted(rng.choice(pool) for _ in range(d)))
            fr = rand_frac(rng)
            if rng.random() < 0.3:
                fr = Fraction(rng.randint(-12, 12))
            mons[mono] = fr
        ft, qt = render_rat(rng, sorted(mons.items()), pool)
        cases.append(case("content_factor", [ft, qt], "rational/content_factor/" + ft[0]))

    # rounded stream: a TEST (closeness of endpoints, enclosure up to rounding), not covered by the theorems
    def fpoints(b):
        l, u = b
        lo = l if l != -INF else (u if u != INF else 0.0) - 50.0
        hi = u if u != INF else (l if l != -INF else 0.0) + 50.0
        return [lo, hi, rng.uniform(lo, hi), rng.uniform(lo, hi)]
    r = 120 if quick else 4000
    for _ in range(r):
        bx, by = rand_float_bound(rng), rand_float_bound(rng)
        px, py = fpoints(bx), fpoints(by)
        pp = [[f64(x), f64(y)] for x in px for y in py][:: 3]
        cases.append(case("bound_add", [bt(bx), bt(by), "rounded", pp], "rounded/bound_add"))
        cases.append(case("bound_mul", [bt(bx), bt(by), "rounded", pp], "rounded/bound_mul"))
        cases.append(case("bound_pow", [bt(bx), rng.randint(0, 6), "rounded", [f64(x) for x in px]], "rounded/bound_pow"))
        cases.append(case("bound_scale", [bt(bx), f64(rfloat(rng) or 1.0), "rounded", [f64(x) for x in px]], "rounded/bound_scale"))
    return cases


def nontrivial(c):
    op, inp = c["op"], c["input"]
    if op == "evaluate_bound":
        return len(G.fn_ids(inp[0])) > 0
    if op == "content_factor":
        return inp[0][0] != "unset"
    if op in ("bound_add", "bound_mul", "bound_intersection"):
        return inp[0] != inp[1] or True
    return True
