"""C20 — artifacts return what was stored in them (local OCI archives, no registry)."""
import calendar
import hashlib
import os
import re
import sys
import time

import common as C
from gen import artifact as G

PROP = "C20"
RUNNER = ("RunC20", "run_C20")
COQ_TARGETS = ["theories/Artifact.vo", "theories/RunC20.vo"]
SHARD = 25
PER_CASE_TIMEOUT = 30.0
AUTHORITY = ("C20_layers / C20_get / C20_get_unknown / C20_get_first_match / C20_manifest_reject / C20_descriptors_by_kind / "
             "C20_annotations_* (coq/props/C20.v): on the list model of Builder/Artifact the layers come back in insertion "
             "order under the media type of their kind, a stored digest returns the message and annotations of the first "
             "layer with that blob under its own getter and an error under every other getter, an unknown digest and a "
             "manifest whose artifactType is not application/org.ommx.v1.artifact are errors, and every typed annotation "
             "accessor returns what its setter stored")
RULE = ("sequences of 0..6 add operations over instance / parametric_instance / solution / sample_set with generated "
        "messages (all message fields, unicode / quote / backslash strings, ids up to 2^63, infinite values) and "
        "annotation setter lists (title, authors, created/start/end as RFC3339 with fractions and offsets, license, "
        "dataset, variables/constraints up to 2^64-1, instance/solver digests, org.ommx.user.* keys, repeated setters); "
        "labelled streams: all-kinds, dup-blob (same message twice, different annotations), dup-blob-cross-kind (empty "
        "messages of several kinds), other-overrides (set_other on a typed key with parsable / unparsable values), "
        "authors with commas / empty names, non-ommx (ocipkg-built archive with another artifactType, hand-built "
        "manifest without artifactType), raw-ommx-type. Every typed getter is called on every stored digest and one "
        "unknown digest. non-trivial = at least one layer; distinct by (op,input)")
TRUSTED = ["hand-written model coq/theories/Artifact.v of artifact.rs / artifact/builder.rs / artifact/annotations.rs / "
           "artifact/media_types.rs and of ocipkg's OciArtifactBuilder / OciArchive lookup logic (tied to the code by this "
           "correspondence only)",
           "NOT modelled, exhibited by the correspondence only: tar layout, JSON manifest (serde/oci-spec), sha256, "
           "protobuf bytes (prost), RFC3339 rendering/parsing (chrono), the file system",
           "harness/src/ops/c20.rs + conv.rs tree<->message converters (messages are compared as canonical trees "
           "rendered by the same converter before storing and after reading)",
           "tools/props/c20.py: sha256 and byte length of every stored blob recomputed with Python hashlib from the bytes "
           "the harness encoded; RFC3339 strings re-read by a 20-line Python parser"]
ASSUMPTIONS = ["digest injective on the blobs stored in one archive (hypothesis inj_on of C20_get*; checked on every case by "
               "the runner for sha256)",
               "decode k (stored blob) = stored message (hypothesis wf_op: the protobuf round trip of C07; checked on every "
               "case through the canonical trees)",
               "parse_time (render_time t) = Some t (hypothesis of C20_annotations_time: chrono; observed on every case)",
               "identical blobs share one digest: getters answer with the FIRST layer carrying it (C20_get_first_match); "
               "the second layer's annotations / kind are unreachable by digest — reported as tags dup-blob*, not as violations"]
PLANNED = []

_RFC = re.compile(r"^(\d{4})-(\d\d)-(\d\d)[Tt ](\d\d):(\d\d):(\d\d)(?:\.(\d{1,9}))?(?:([Zz])|([+-])(\d\d):(\d\d))$")


def rfc3339_instant(s):
    m = _RFC.match(s)
    if not m:
        return None
    y, mo, d, h, mi, sec = (int(m.group(i)) for i in range(1, 7))
    nanos = int((m.group(7) or "0").ljust(9, "0"))
    secs = calendar.timegm((y, mo, d, h, mi, sec, 0, 0, 0))
    if m.group(9):
        off = int(m.group(10)) * 3600 + int(m.group(11)) * 60
        secs -= off if m.group(9) == "+" else -off
    return [secs, nanos]


def post(case, r):
    """add the independently computed sha256 / size of every blob and the RFC3339 cross-check"""
    if not (isinstance(r, list) and len(r) == 2 and r[0] == "ok" and isinstance(r[1], list) and len(r[1]) == 6):
        return r
    aux, raw, checked, by_kind, rows, listing = r[1]
    ops = case[1][1]
    new_aux = []
    tcheck = "times-ok"
    for a, o in zip(aux, ops):
        blob = bytes.fromhex(a[0])
        new_aux.append([a[0], "sha256:" + hashlib.sha256(blob).hexdigest(), len(blob), a[1], a[2]])
        inputs = [s[1] for s in o[2] if s[0] in ("created", "start", "end")]
        if len(inputs) != len(a[2]):
            tcheck = "times-bad: count"
        for s, (rendered, secs, nanos) in zip(inputs, a[2]):
            want = rfc3339_instant(s)
            if want is None or want != [secs, nanos] or rfc3339_instant(rendered) != want:
                tcheck = "times-bad: %s -> %s / %d.%09d" % (s, rendered, secs, nanos)
    return ["ok", [new_aux, raw, checked, by_kind, rows, "sha256:" + hashlib.sha256(b"{}").hexdigest(), tcheck, listing]]


def gen(rng, tier):
    return G.gen_cases(rng, 600 if tier == "quick" else 3000)


def nontrivial(case):
    return len(case["input"][1]) > 0


def main(tier, seed, replay):
    import check
    t0 = time.time()
    os.makedirs(os.path.join(C.CACHE, "tmp"), exist_ok=True)
    orig = C.run_harness

    def patched(cases, per_case_timeout=20.0):
        res = orig(cases, per_case_timeout)
        return [post(c, r) for c, r in zip(cases, res)]

    C.run_harness = patched
    try:
        return check.generic_main(sys.modules[__name__], tier, seed, replay, t0)
    finally:
        C.run_harness = orig
        tmp = os.path.join(C.CACHE, "tmp")
        for fn in os.listdir(tmp):
            if fn.startswith("c20-"):
                try:
                    os.remove(os.path.join(tmp, fn))
                except OSError:
                    pass
