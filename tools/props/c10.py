"""C10 — instantiating parameters equals evaluating them."""
from common import f64
from gen import poly as G
from gen import inst as GI

PROP = "C10"
RUNNER = ("RunTransform", "run_C10")
COQ_TARGETS = ["theories/RunTransform.vo"]
AUTHORITY = ("C10_* (coq/props/C10.v): objective and active constraints of the result denote the parametric functions at (x, p); "
             "everything else unchanged; missing parameter <=> error; round trip keeps the problem")
RULE = ("parametric instances made from random valid instances by turning a random subset of the variables that occur in the "
        "objective / constraints into parameters (degree <= 3, any representation); assignments: complete, with unrelated extra "
        "ids, missing each parameter in turn; plus Instance -> ParametricInstance -> with_parameters({}) round trips. "
        "non-trivial = >=1 parameter occurs in a function")
TRUSTED = ["hand-written model coq/theories/Transform.v (with_parameters, of_instance) over PEval.v (tied by this correspondence only)"]
ASSUMPTIONS = ["small dyadic numbers"]
PLANNED = []
SHARD = 150


def to_parametric(rng, inst, info):
    usable = list(info["usable"])
    rng.shuffle(usable)
    k = rng.randint(0, min(3, len(usable)))
    params = usable[:k]
    dvs = [v for v in inst[2] if v[0] not in params]
    plist = [[p, ["w%d" % p] if rng.random() < 0.5 else [], [], [], []] for p in params]
    # deps must not mention parameters: drop deps for simplicity when they do
    deps = [d for d in inst[5] if not (G.fn_ids(d[1]) & set(params)) and d[0] not in params]
    pinst = [inst[0], inst[1], dvs, plist, inst[3], inst[4], deps, inst[7], inst[8]]
    return pinst, params


def gen(rng, tier):
    n = 150 if tier == "quick" else 2500
    cases = []
    for k in range(n):
        inst, info = GI.rand_instance(rng, max_deg=3, rich=True)
        pinst, params = to_parametric(rng, inst, info)
        theta = [[p, f64(G.dyadic(rng, 4, 1))] for p in params]
        rng.shuffle(theta)
        cases.append({"op": "with_parameters", "input": [pinst, theta], "stream": "complete"})
        cases.append({"op": "with_parameters", "input": [pinst, theta + [[900001, f64(1.5)]]], "stream": "extras"})
        for p in params:
            cases.append({"op": "with_parameters", "input": [pinst, [e for e in theta if e[0] != p]], "stream": "missing"})
        if k % 3 == 0:
            cases.append({"op": "of_instance_roundtrip", "input": inst, "stream": "roundtrip"})
    return cases


def nontrivial(case):
    if case["op"] != "with_parameters":
        return True
    pinst = case["input"][0]
    ps = {p[0] for p in pinst[3]}
    fs = ([pinst[1][0]] if pinst[1] else []) + [c[2][0] for c in pinst[4] if c[2]]
    return any(G.fn_ids(f) & ps for f in fs)
