"""C10 — instantiating parameters equals evaluating them."""
from common import f64
from gen import poly as G
import copy
from gen import inst as GI

PROP = "C10"
RUNNER = ("RunC10", "run_C10x")
COQ_TARGETS = ["theories/RunTransform.vo", "theories/RunC10.vo"]
AUTHORITY = ("C10_* (coq/props/C10.v): objective and active constraints of the result denote the parametric functions at (x, p); "
             "everything else unchanged; missing parameter <=> error; round trip keeps the problem; C10_instance: EVALUATING the "
             "instantiated instance at x gives the parametric objective / active constraints at (x, theta), removed constraints as stored")
RULE = ("parametric instances made from random valid instances by turning a random subset of the variables that occur in the "
        "objective / constraints into parameters (degree <= 3, any representation); assignments: complete, with unrelated extra "
        "ids, missing each parameter in turn; plus Instance -> ParametricInstance -> with_parameters({}) round trips. "
        "non-trivial = >=1 parameter occurs in a function")
TRUSTED = ["hand-written model coq/theories/Transform.v (with_parameters, of_instance) over PEval.v (tied by this correspondence only)"]
ASSUMPTIONS = ["small dyadic numbers"]
PLANNED = []
SHARD = 150


def to_parametric(rng, inst, info):
    usable = list(info["usable"])
    rng.shuffle(usable)
    k = rng.randint(0, min(3, len(usable)))
    params = usable[:k]
    dvs = [v for v in inst[2] if v[0] not in params]
    plist = [[p, ["w%d" % p] if rng.random() < 0.5 else [], [], [], []] for p in params]
    # deps must not mention parameters: drop deps for simplicity when they do
    deps = [d for d in inst[5] if not (G.fn_ids(d[1]) & set(params)) and d[0] not in params]
    pinst = [inst[0], inst[1], dvs, plist, inst[3], inst[4], deps, inst[7], inst[8]]
    return pinst, params


def gen(rng, tier):
    n = 150 if tier == "quick" else 2500
    cases = []
    for k in range(n):
        inst, info = GI.rand_instance(rng, max_deg=3, rich=True)
        pinst, params = to_parametric(rng, inst, info)
        theta = [[p, f64(G.dyadic(rng, 4, 1))] for p in params]
        rng.shuffle(theta)
        cases.append({"op": "with_parameters", "input": [pinst, theta], "stream": "complete"})
        # the instantiated instance must evaluate at a state over the decision variables alone
        dep_keys = {d[0] for d in pinst[6]}
        x = [e for e in GI.rand_state_for(rng, info, extra=0.0) if e[0] not in params and e[0] not in dep_keys]
        cases.append({"op": "with_parameters_eval", "input": [pinst, theta, x], "stream": "complete+evaluate"})
        if params and k % 2 == 0:
            # a parameter that occurs with an explicit ZERO coefficient in a Linear objective / constraint /
            # linear part of a Quadratic: it is still a parameter of that function and must be gone afterwards
            q = copy.deepcopy(pinst)
            z = f64(rng.choice([0.0, -0.0]))      # (a non-zero negligible coefficient would not be exact in binary64)
            dv_ids = [e[0] for e in x if e[0] < 777000]
            lin0 = ["lin", [[[params[0], z]] + ([[dv_ids[0], f64(2.0)]] if dv_ids else []) + [[params[-1], f64(1.5)]], f64(1.0)]]
            where = rng.choice(["objective", "constraint", "quad-linear", "quad-zero-entries", "quad-zero-entries"])
            if where == "quad-zero-entries":
                # a Quadratic ALL of whose entries are explicit zeros (so that it "has degree 0") mentioning a parameter, with an
                # absent or term-free linear part: it is still a function of that parameter until instantiated
                xs = dv_ids[:1] or [params[0]]
                qz = ["quad", [[params[0], xs[0]], [xs[0], params[-1]], [z, f64(0.0)],
                               rng.choice([[], [[[], f64(3.0)]]])]]
                if q[4] and rng.random() < 0.5:
                    q[4][0][2] = [qz]
                else:
                    q[1] = [qz]
                cases.append({"op": "with_parameters_eval", "input": [q, theta, x], "stream": "zero-coefficient-parameter/quad"})
            elif where == "objective" or not q[4]:
                q[1] = [lin0]
            elif where == "constraint":
                q[4][0][2] = [lin0]
            else:
                q[4][0][2] = [["quad", [[], [], [], [lin0[1]]]]]
            if where != "quad-zero-entries":
                cases.append({"op": "with_parameters_eval", "input": [q, theta, x], "stream": "zero-coefficient-parameter"})
        cases.append({"op": "with_parameters", "input": [pinst, theta + [[900001, f64(1.5)]]], "stream": "extras"})
        for p in params:
            cases.append({"op": "with_parameters", "input": [pinst, [e for e in theta if e[0] != p]], "stream": "missing"})
        if k % 3 == 0:
            cases.append({"op": "of_instance_roundtrip", "input": inst, "stream": "roundtrip"})
    return cases


def nontrivial(case):
    if case["op"] != "with_parameters":
        return True
    pinst = case["input"][0]
    ps = {p[0] for p in pinst[3]}
    fs = ([pinst[1][0]] if pinst[1] else []) + [c[2][0] for c in pinst[4] if c[2]]
    return any(G.fn_ids(f) & ps for f in fs)
