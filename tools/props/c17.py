"""C17 — MPS files are read as the problem they describe.

Two phases: Python draws abstract LP/MIP models and layouts; Coq (`RunC17.render_C17`) renders each
into free-format MPS text with the independent writer `MpsSpec.render`; the harness loads that text with
the real SDK (plain / gzip / CRLF / file); Coq (`RunC17.run_C17`) re-renders, checks that the lines the
SDK consumed are exactly `render layout M` (with the injected fault, if any), and judges the SDK's
instance against `meaning M` (and the reader model of Mps.v on the same lines)."""
from concurrent.futures import ThreadPoolExecutor

import common as C
from gen import mps as G

PROP = "C17"
RUNNER = ("RunC17", "run_C17")
COQ_TARGETS = ["theories/RunC17.vo"]
SHARD = 120
AUTHORITY = ("C17_load_render (coq/props/C17.v): load (render ly M) is meaning M by names for every well-formed M and layout; C17_row / C17_ranges / C17_bounds / C17_objective (coq/props/C17.v): the reader model gives, for all "
             "numeric values, the constraints, bounds, kinds and objective the MPS conventions prescribe; the "
             "comparator match_spec checks the SDK's instance against MpsSpec.meaning of the abstract model whose "
             "rendering (MpsSpec.render, evaluated in Coq) the SDK loaded; C17_loaded_instance_valid: every loaded instance has "
             "distinct variable ids, distinct constraint ids and only defined ids in use")
RULE = ("abstract models: 1-6 columns, 0-5 rows of types E/L/G/N (free rows with and without entries), RHS present or "
        "absent, positive and negative RANGES on E/L/G, 0-3 BOUNDS statements per column over UP LO FX MI PL FR BV LI UI "
        "(finite, infinite, negative values), integer marker groups, objective constant via the RHS of the objective "
        "row, OBJSENSE absent / MIN / MAX; names foreign, OMMX-tagged (ID recovery), mixed and malformed tags; layouts: "
        "3/5-field lines x comments x blank lines x OBJSENSE inline/own line x tab/space separators; transport plain / "
        "gzip / CRLF / gz file; naming streams: foreign names, SDK names (ids recovered), SDK names with one non-numeric tail, "
        "SDK names with one NON-CANONICAL number (leading zero, plus sign, possibly the number of another column: ordinary names).  fault stream: one injected fault per error class on a rendered text. non-trivial = "
        "model has a constraint row or a bound statement; distinct by (op,input)")
TRUSTED = ["hand-written reader model coq/theories/Mps.v of parser.rs / convert.rs (tied to the code by this correspondence only)",
           "MpsSpec.render / MpsSpec.meaning are the specification (hand-written from the MPS conventions)",
           "decimal <-> f64: rendered numbers are dyadic with few digits, so Rust's f64 parsing is exact"]
ASSUMPTIONS = ["numbers in generated texts are small dyadic rationals printed as plain decimals",
               "out of scope by the property's wording and not generated: `UP 0` without a lower bound, RANGES with R = 0, "
               "RHS entries for undeclared rows, PL after an upper-bound statement on the same column, duplicate "
               "(column,row) entries, fixed-column-format files"]
PLANNED = []   # C17_load_render (Tier B) is proved: coq/theories/MpsRoundTrip.v
PER_CASE_TIMEOUT = 20.0


def coq_render(batch, tag):
    body = "Definition cases : list tree := [\n" + ";\n".join(C.to_coq(c) for c in batch) + "\n]."
    out = C.eval_in_coq(["Ommx.RunC17"], "map render_C17 cases", body, tag)
    if len(out) != len(batch):
        raise RuntimeError("render: count mismatch")
    return out


def render_all(inputs, tag="render_C17", shard=150):
    batches = [inputs[i:i + shard] for i in range(0, len(inputs), shard)]
    with ThreadPoolExecutor(max_workers=C.NPROC) as ex:
        outs = list(ex.map(lambda kb: coq_render(kb[1], "%s_%d" % (tag, kb[0])), enumerate(batches)))
    res = []
    for o in outs:
        res += o
    return res


def gen(rng, tier):
    n = 360 if tier == "quick" else 9000
    models = []
    for k in range(n):
        m, naming = G.gen_model(rng)
        ly = G.gen_layout(rng)
        models.append((m, ly, naming))
    texts = render_all([[m, ly, []] for (m, ly, _) in models])
    cases = []
    for (m, ly, naming), lines in zip(models, texts):
        if not (isinstance(lines, list) and all(isinstance(x, str) for x in lines)) or \
                (lines and lines[0] == "badcase"):
            raise RuntimeError("Coq render rejected a generated model: %r" % (lines,))
        mode = rng.choice(["plain", "plain", "gz", "crlf", "file"])
        cases.append({"op": "c17_load", "input": [m, ly, [], lines, mode],
                      "stream": "valid/%s/%s" % (naming, mode)})
        # fault stream: one fault per class, round robin
        if len(cases) % 2 == 0:
            for cls in rng.sample(G.FAULTS, 3):
                f = G.gen_fault(rng, lines, cls)
                if f is None:
                    continue
                cases.append({"op": "c17_load", "input": [m, ly, f, G.apply_fault(lines, f), "plain"],
                              "stream": "fault/" + cls})
        else:
            # one number respelled (same value, another of the spellings <f64 as FromStr> accepts): still meaning M
            for _ in range(2):
                f = G.gen_restyle(rng, lines)
                if f is not None:
                    cases.append({"op": "c17_load", "input": [m, ly, f, G.apply_fault(lines, f), "plain"],
                                  "stream": "restyle"})
    return cases


def nontrivial(case):
    m = case["input"][0]
    return any(r[1] != "N" for r in m[4]) or len(m[6]) > 0
