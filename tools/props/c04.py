"""C04 — substitution is function composition and dependent variables are recovered."""
from common import f64
from gen import poly as G
from gen import inst as GI

PROP = "C04"
RUNNER = ("RunC04", "run_C04")
COQ_TARGETS = ["theories/RunC04.vo"]
PER_CASE_TIMEOUT = 15.0
AUTHORITY = ("C04_fn (coq/props/C04.v): the substituted function denotes the original under the simultaneous substitution; "
             "C04_deps_*: the dependency pass yields a state extending the given one in which every dependent variable has the "
             "value of its function, independent of the fuel; C04_deps_order_free: any reordering of the dependency map gives the "
             "same values; C04_deps_fails_iff: failure <=> no evaluation order exists (cycle / missing value); C04_instance / "
             "C04_instance_chain: after Instance::substitute (one map or two successive ones) the evaluation reports every replaced "
             "variable with the value of its replacement and objective / constraints with the values of the ORIGINAL functions at "
             "the reported state; C04_penalty_path: the same for the reported state after a penalty conversion and with_parameters")
RULE = ("fn_substitute: functions of degree <= 3 in every representation, 0-4 replacements of degree <= 2 that may mention "
        "replaced variables, unset replacement (panic); inst_substitute: one-step and two-step (chain) substitutions of used "
        "variables by functions of the remaining ones, then evaluation at an in-bound state over the remaining variables "
        "(Solution.state must report every replaced variable through the dependency chain); deps_orders: dependency graphs on "
        "<= 5 dependent variables (chains, diamonds, forests, cycles, self-loops, dangling references), the dependency HashMap "
        "rebuilt 150x to observe distinct iteration orders, every observed order judged, under a 15 s watchdog. "
        "non-trivial = a replaced / dependent variable feeds another one")
TRUSTED = ["hand-written models coq/theories/Subst.v and Inst.v (eval_deps) (tied by this correspondence only)"]
ASSUMPTIONS = ["small dyadic numbers", "states assign no value to dependent variables",
               "replacement functions at instance level mention only remaining variables"]
PLANNED = []
SHARD = 120


def small_fn(rng, ids, max_deg, allow_const=True):
    p = G.rand_poly(rng, ids, max_deg=rng.randint(0 if allow_const else 1, max_deg), max_terms=3, maxnum=3, maxexp=1)
    f = G.render(rng, p, ids)
    if f[0] == "unset":
        f = ["const", f64(1.0)]
    return f


def deps_graph_case(rng):
    """instance with base variables 1,2 and dependent variables 11.. with a random graph shape"""
    nd = rng.randint(1, 5)
    dkeys = [11 + k for k in range(nd)]
    shape = rng.choice(["chain", "dag", "dag", "cycle", "self", "dangling", "forest"])
    deps = []
    for idx, d in enumerate(dkeys):
        earlier = dkeys[:idx]
        if shape == "chain":
            src = ([earlier[-1]] if earlier else []) + [1]
        elif shape in ("dag", "forest"):
            src = rng.sample(earlier, min(len(earlier), rng.randint(0, 2))) + [rng.choice([1, 2])]
        elif shape == "cycle":
            src = [dkeys[(idx + 1) % nd], 1]
        elif shape == "self":
            src = [d if idx == nd - 1 else 1, 2]
        else:  # dangling: refers to a variable that has no value
            src = ([earlier[-1]] if earlier else []) + ([99] if idx == nd // 2 else [1])
        deps.append([d, small_fn(rng, sorted(set(src)), 2, allow_const=False)])
        # make sure every source really occurs (so the graph has the intended edges)
        ids = G.fn_ids(deps[-1][1])
        for sid in src:
            if sid not in ids:
                deps[-1][1] = ["lin", [[[x, f64(1.0)] for x in sorted(set(src))], f64(0.5)]]
                break
    rng.shuffle(deps)
    dvs = [GI.dv(i, 3, None) for i in [1, 2] + dkeys] + ([GI.dv(99, 3, None)] if shape == "dangling" and rng.random() < 0.5 else [])
    obj = ["lin", [[[1, f64(1.0)], [2, f64(-1.0)]], f64(0.0)]]
    inst = [1, [obj], dvs, [], [], deps, [], [], []]
    st = [[1, f64(G.dyadic(rng, 3, 1))], [2, f64(G.dyadic(rng, 3, 1))]]
    return {"op": "deps_orders", "input": [inst, st, 150], "stream": "deps/" + shape}


def penalty_path_case(rng):
    """the QUBO-driver path: substitute an integer variable by a linear expression in binaries (as log_encode + substitute
    do), convert with a penalty method, fix the weights, evaluate: the replaced variable must still be reported.
    Small integers and coefficients k/2 only, linear constraints: every value is exact in binary64."""
    base = rng.choice([0, 3, 10])
    x = base + rng.randint(0, 3)
    ys = [i for i in rng.sample(range(base, base + 9), rng.randint(0, 2)) if i != x]
    bits = [base + 20 + k for k in range(rng.randint(1, 3))]
    dvs = [GI.dv(x, 2, (0.0, 7.0))] + [GI.dv(i, rng.choice([1, 2]), (0.0, float(rng.randint(1, 3)))) for i in ys] + \
          [GI.dv(b, 1, rng.choice([None, (0.0, 1.0)])) for b in bits]
    rng.shuffle(dvs)
    c = lambda: f64(rng.choice([-3, -2, -1, 1, 2, 3]) / rng.choice([1, 1, 2]))
    pool = [x] + ys
    lin = lambda ids: ["lin", [[[i, c()] for i in ids], c()]]
    obj = lin(rng.sample(pool, rng.randint(1, len(pool)))) if rng.random() < 0.6 else \
        ["quad", [[x], [rng.choice(pool)], [c()], [lin(pool)[1]]]]
    cons = [GI.constraint(cid, rng.choice([1, 2]), lin([x] + rng.sample(ys, rng.randint(0, len(ys)))))
            for cid in rng.sample(range(0, 9), rng.randint(1, 2))]
    inst = [rng.choice([1, 2]), [obj], dvs, cons, [], [], [], [], []]
    R = [[x, ["lin", [[[b, f64(float(2 ** k))] for k, b in enumerate(bits)], f64(float(rng.randint(0, 2)))]]]]
    st = [[i, f64(float(rng.randint(0, 1)))] for i in ys] + [[b, f64(float(rng.randint(0, 1)))] for b in bits]
    rng.shuffle(st)
    return {"op": "subst_penalty_eval", "input": [inst, [R], st, rng.randint(0, 1), f64(rng.choice([1.0, 2.0, 0.5]))],
            "stream": "inst/penalty-path"}


def gen(rng, tier):
    n = 200 if tier == "quick" else 2500
    cases = []
    for k in range(n):
        pool = G.ids_pool(rng, rng.randint(1, 5), big=0.05)
        p = G.rand_poly(rng, pool, max_deg=rng.choice([0, 1, 2, 2, 3]), max_terms=4, maxnum=3, maxexp=1)
        f = G.render(rng, p, pool)
        nr = rng.randint(0, min(4, len(pool)))
        keys = rng.sample(pool, nr)
        R = [[i, small_fn(rng, pool, 2)] for i in keys]
        if rng.random() < 0.03 and R:
            R[0][1] = ["unset"]
        cases.append({"op": "fn_substitute", "input": [f, R], "stream": "fn/%d" % nr})
    m = 80 if tier == "quick" else 1000
    for k in range(m):
        inst, info = GI.rand_instance(rng, with_deps=False, allow_unset=False, n_vars=rng.randint(3, 6))
        usable = list(info["usable"])
        if len(usable) < 2:
            continue
        rng.shuffle(usable)
        a = usable[0]
        rest = usable[1:]
        R1 = [[a, small_fn(rng, rest, 2)]]
        replaced = [a]
        # a SIMULTANEOUS map with 2-3 entries (each replacement over the variables that remain)
        if len(rest) >= 3 and rng.random() < 0.4:
            extra_keys = rest[:rng.randint(1, min(2, len(rest) - 2))]
            rest = rest[len(extra_keys):]
            R1 = [[a, small_fn(rng, rest, 2)]] + [[k2, small_fn(rng, rest, 2)] for k2 in extra_keys]
            rng.shuffle(R1)
            replaced += extra_keys
        Rs = [R1]
        if len(rest) >= 2 and rng.random() < 0.5:
            b = rest[0]
            rest2 = rest[1:]
            Rs.append([[b, small_fn(rng, rest2, 1)]])     # chain: a depends on b, b on the others
            replaced.append(b)
        st = [e for e in GI.rand_state_for(rng, info, extra=0.0) if e[0] not in replaced]
        cases.append({"op": "inst_substitute", "input": [inst, Rs, st], "stream": "inst/%d" % len(Rs)})
        # ... then FIX a remaining variable (preferably one a replacement mentions) with partial_evaluate and evaluate the
        # rest through evaluate_samples + get: the replaced variables must still be recovered
        mentioned = set()
        for R in Rs:
            for _, f in R:
                mentioned |= G.fn_ids(f)
        cand = [e for e in st if e[0] in mentioned] or st
        if cand and k % 2 == 0:
            fx = rng.choice(cand)
            sts = []
            for _ in range(rng.randint(1, 3)):
                sts.append([e for e in GI.rand_state_for(rng, info, extra=0.0) if e[0] not in replaced and e[0] != fx[0]])
            samples = [[s_, [7 * j + 1] if j else [0, 2 ** 40 + 1]] for j, s_ in enumerate(sts)]
            cases.append({"op": "subst_pe_samples", "input": [inst, Rs, [fx], samples], "stream": "inst/fix-then-samples"})
    for k in range(60 if tier == "quick" else 600):
        cases.append(deps_graph_case(rng))
    for k in range(40 if tier == "quick" else 400):
        cases.append(penalty_path_case(rng))
    return cases


def nontrivial(case):
    if case["op"] == "fn_substitute":
        ids = G.fn_ids(case["input"][0])
        return any(r[0] in ids for r in case["input"][1])
    if case["op"] in ("inst_substitute", "subst_penalty_eval", "subst_pe_samples"):
        return len(case["input"][1]) >= 1
    return len(case["input"][0][5]) >= 2
