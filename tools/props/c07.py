"""C07 — the wire format matches the published schema and round-trips.

Pipeline (own `main`, two-phase):
  0. translator: regenerate coq/gen/Schema{Proto,Rust,Py}.v + SchemaAgree.v from /repo as it is now
  1. proofs: props/C07.v (re-proves schemas_agree / schema_wf by vm_compute on the regenerated terms,
     restates the wire-layer theorems), hygiene, Print Assumptions audit
  2. harness build (prost structs of the current working tree)
  3. values generated FROM the .proto-derived schema -> Coq model-encode -> prost decode/encode,
     protoc --encode/--decode -> Coq judge (model-decode, content and byte comparison),
     prost `{:?}` content bridge, stored artifact
  4. when a generated obligation fails: targeted search for a concrete failing input
"""
import json
import os
import random
import subprocess
import sys
import time
from concurrent.futures import ThreadPoolExecutor

import common as C
import translate_schema as T
from gen import wire as W

PROP = "C07"
RUNNER = ("RunC07", "run_C07")
COQ_TARGETS = ["theories/RunC07.vo"]
TOP = ["instance", "parametricinstance", "solution", "sampleset", "state", "samples", "parameters", "result"]
AUTHORITY = ("schemas_agree / schema_wf (coq/gen/SchemaAgree.v, re-proved on this run against the regenerated "
             "schemas), C07_varint_roundtrip / C07_records_roundtrip (wire layer), C07_codec_roundtrip / "
             "C07_codec_unknown_fields (schema layer, every well-formed schema, instantiated at the regenerated one): "
             "the model's decode . encode is the normal form, so the expected content is determined")
RULE = ("values are generated from the .proto-derived schema: every top-level message (Instance, ParametricInstance, "
        "Solution, SampleSet, State, Samples, Parameters, Result) under profiles random/all/none/sparse plus every one "
        "of the 31 message types directly; each field set and unset, empty and non-empty repeated and map fields, "
        "each oneof arm and none, extreme scalars (0, 2^64-1, +-2^63, NaN/inf/-0.0 bit patterns, empty and non-ASCII "
        "strings, unknown enum numbers), shuffled field order, injected unknown fields of all four wire types, the "
        "older field usage (Solution.feasible_unrelaxed, SampleSet.feasible_unrelaxed); plus, for a third of the cases, the "
        "model's all-unpacked encoding of the same value read by prost, and a merge stream (concatenation of two "
        "encodings of one type read by prost and by the model). non-trivial = the normal form "
        "has at least one field; distinct by (type, value)")
TRUSTED = ["tools/translate_schema.py (proto3-subset reader cross-checked against protoc's descriptor set on every run, "
           "FileDescriptorProto wire reader, #[prost] attribute reader, name normalisation N1-N8)",
           "hand-written codec model coq/theories/Codec.v: proved to round-trip (CodecProof.v) but tied to prost and to "
           "protoc only by this correspondence (model-encode -> prost/protoc -> model-decode, byte equality on map-free "
           "messages)",
           "tools/gen/wire.py: text-format printer and prost Debug reader used by the content bridge",
           "/usr/bin/protoc 3.21.12 as the third implementation"]
ASSUMPTIONS = ["the Python bindings are covered only statically (schema_py = schema_proto): no protobuf runtime for "
               "Python exists in the sandbox, so their runtime behaviour is not observed",
               "prost's encoder drops an implicit double field holding -0.0 (its default test is `!= 0.0`); protoc "
               "keeps it. -0.0 and +0.0 are identified when judging prost's re-encoding (DESIGN 3.2) and counted",
               "groups (wire types 3/4) and scalar kinds the schema does not use (int32, sint*, fixed*, float) are "
               "outside the codec model (codec_supports is checked on the regenerated schema)"]
PLANNED = ["outside the proved relation `conforming` (coq/theories/CodecAny.v): both arms of a oneof on the wire, the same map key "
           "in two entries, non-canonical scalar payloads (bool written as 2), groups: validated by correspondence only"]

PROTO_DIR = os.path.join(C.REPO, "proto")


# ----------------------------------------------------------------------------------------


def pregen():
    return T.translate(write=True)


def protoc_file_of(ir, tname):
    """which .proto declares the top-level ancestor of message tname (protoc wants the file)"""
    return None


def find_proto_files():
    import glob
    return sorted("ommx/v1/" + os.path.basename(p) for p in glob.glob(os.path.join(PROTO_DIR, "ommx", "v1", "*.proto")))


def protoc(mode, full_name, data, files):
    r = subprocess.run(["/usr/bin/protoc", "-I", PROTO_DIR, "--%s=%s" % (mode, full_name)] + files,
                       input=data, stdout=subprocess.PIPE, stderr=subprocess.PIPE, timeout=60)
    if r.returncode != 0:
        return None, r.stderr.decode("utf-8", "replace")[:400]
    return r.stdout, None


def gen_cases(rng, ir, tier, diffs):
    g = W.Gen(rng, ir)
    cases = []
    n_top = 60 if tier == "quick" else 1500
    n_each = 12 if tier == "quick" else 250

    def add(tname, v, stream):
        cases.append({"type": tname, "value": v, "stream": stream})

    for tname in TOP:
        if tname not in ir["messages"]:
            continue
        for prof in ("all", "none", "sparse"):
            for _ in range(2 if tier == "quick" else 10):
                add(tname, g.msg(tname, profile=prof), "top/" + prof)
        for k in range(n_top):
            v = g.msg(tname)
            r = rng.random()
            if r < 0.2:
                add(tname, W.shuffle_fields(rng, v), "top/shuffled")
            elif r < 0.45:
                add(tname, g.add_unknown(v, tname), "top/unknown")
            else:
                add(tname, v, "top/random")
    for tname in sorted(ir["messages"]):
        for k in range(n_each):
            v = g.msg(tname, profile=rng.choice(["random", "random", "all", "sparse"]))
            if rng.random() < 0.25:
                v = g.add_unknown(v, tname)
            add(tname, v, "each")
        # every single field alone, and every oneof arm alone
        for f in ir["messages"][tname]["fields"]:
            add(tname, g.msg(tname, profile="none", focus={f["num"]}), "single-field")
    # older field usage
    if "solution" in ir["messages"]:
        for _ in range(6 if tier == "quick" else 60):
            v = g.msg("solution")
            fs = [nv for nv in v[1] if nv[0] not in (8, 9)] + [[8, ["b", rng.randint(0, 1)]]]
            add("solution", ["m", sorted(fs)], "legacy")
    if "sampleset" in ir["messages"]:
        for _ in range(6 if tier == "quick" else 60):
            v = g.msg("sampleset")
            fs = [nv for nv in v[1] if nv[0] not in (6, 7)]
            fs.append([6, ["p", [[["u", k], ["b", rng.randint(0, 1)]] for k in rng.sample(range(6), rng.randint(1, 3))]]])
            add("sampleset", ["m", sorted(fs)], "legacy")
    # targeted stream for translator diffs: the named message with the named field set
    for d in diffs:
        if d.get("kind") != "field" or d["message"] not in ir["messages"]:
            continue
        desc = ir["messages"][d["message"]]
        if not any(f["num"] == d["number"] for f in desc["fields"]):
            continue
        for _ in range(40):
            add(d["message"], g.msg(d["message"], profile=rng.choice(["none", "sparse", "random"]),
                                    focus={d["number"]}), "targeted")
    for d in diffs:
        if d.get("kind") == "enum":
            for tname, m in ir["messages"].items():
                for f in m["fields"]:
                    if f["ty"] == ("e", d["enum"]) or list(f["ty"]) == ["e", d["enum"]]:
                        for _ in range(25):
                            add(tname, g.msg(tname, profile="sparse", focus={f["num"]}), "targeted")
    return cases, g


def nontrivial_value(v):
    return len(v[1]) > 0


def main(tier, seed, replay):
    t0 = time.time()
    rng = random.Random(seed)
    violations = []      # (path, suffix)
    notes = []
    stats = {}
    cases = []
    bad_hyg = C.hygiene()

    # ---- 0. translator ------------------------------------------------------------------
    res = None
    try:
        res = pregen()
    except T.TranslatorError as e:
        path = C.write_replay(PROP, {"property": PROP, "broken": "translator:tools/translate_schema.py",
                                     "detail": str(e)})
        violations.append((path, " no-failing-input-found"))
        notes.append("translator failed: %s" % e)
    diffs = []
    if res is not None:
        diffs = [dict(d, side="rust") for d in res["diff_rust"]] + [dict(d, side="python") for d in res["diff_py"]]

        unsup = sorted("%s.%s:%s" % (mn, f["display"], f["ty"][1]) for mn, m in res["proto"]["messages"].items()
                       for f in m["fields"] if not W.supported_field(f))
        if unsup:
            notes.append("the .proto schema uses scalar kinds the codec model does not implement (obligation "
                         "schema_supported fails; these fields are never generated, and a message containing them is "
                         "not decodable by the model): %s" % unsup)

    # ---- 1. proofs ----------------------------------------------------------------------
    rc_run, out_run, _ = C.coq_make(["theories/RunC07.vo"])
    audit = C.audit_props(PROP)
    proof_ok = audit["ok"] and not bad_hyg
    if res is not None and bool(diffs) == audit["ok"]:
        notes.append("translator diff (%d entries) and Coq obligation (%s) disagree" % (len(diffs), audit["ok"]))

    coqchk = None
    if tier == "thorough" and audit["ok"]:
        rc_chk, out_chk, secs_chk = C.sh(["timeout", "900", "coqchk", "-o", "-silent", "-Q", "theories", "Ommx", "-Q", "props",
                                          "OmmxProps", "-Q", "gen", "OmmxGen", "OmmxProps.C07"], cwd=C.COQ, timeout=930)
        coqchk = {"ok": rc_chk == 0 and "Axioms: <none>" in out_chk, "seconds": round(secs_chk, 1),
                  "summary": out_chk[-600:]}
        if not coqchk["ok"]:
            proof_ok = False
            notes.append("coqchk does not accept OmmxProps.C07: " + out_chk[-800:])

    # ---- 2. harness ---------------------------------------------------------------------
    ok_h, out_h, _ = C.build_harness()
    if not ok_h:
        path = C.write_replay(PROP, {"property": PROP, "broken": "correspondence:harness-build", "detail": out_h[-3000:]})
        violations.append((path, " no-failing-input-found"))

    disagreements = []
    counts = {}
    by_stream = {}
    tagcount = {}
    cov = {}
    if res is not None and rc_run == 0 and ok_h:
        ir = res["proto"]
        files = find_proto_files()
        # ---- 3. cases -------------------------------------------------------------------
        if replay:
            payload = json.load(open(replay))
            cases = [] if payload.get("value") is None else [
                {"type": payload["type"], "value": payload["value"], "stream": "replay"}]
            g = None
        else:
            cases, g = gen_cases(rng, ir, tier, diffs)
        # phase 1: model-encode in Coq
        enc = C.run_in_coq(PROP, "RunC07", "run_C07", [["enc", c["type"], c["value"]] for c in cases],
                           shard_size=60 if tier == "quick" else 150, tag="enc")
        for c, e in zip(cases, enc):
            if not (isinstance(e, list) and e and e[0] == "enc"):
                print("MACHINERY ERROR: Coq rejected a generated case: %s %s" % (e, json.dumps(c)[:400]))
                return 2
            c["model_hex"] = e[1]
            c["typed_ext"], c["self"], c["typed"], c["fuel_ok"] = e[2], e[3], e[4], e[5]
            if not c["typed_ext"] or not c["fuel_ok"]:
                print("MACHINERY ERROR: generated value is not typed under the .proto schema: %s" % json.dumps(c)[:600])
                return 2
            if not c["self"]:
                print("MACHINERY ERROR: the model does not round-trip its own encoding (model bug): %s" % json.dumps(c)[:600])
                return 2
        # phase 2a: prost on the model's bytes
        sdk = C.run_harness([["c07_roundtrip", [c["type"], c["model_hex"]]] for c in cases])
        for c, r in zip(cases, sdk):
            c["prost"] = r
        # phase 2b: protoc (third implementation) on a subset
        every = 1 if replay else (3 if tier == "quick" else 4)
        pc = [c for k, c in enumerate(cases) if (k % every == 0 or c["stream"] in ("targeted", "legacy", "single-field"))
              and W.text_ok(c["value"], ir, c["type"])]
        if tier == "quick" and not replay:
            pc = pc[:450]

        def run_protoc(c):
            full = "ommx.v1." + ir["messages"][c["type"]]["display"]
            text = "\n".join(W.to_text(c["value"], ir, c["type"])) + "\n"
            out = {}
            b, e = protoc("encode", full, text.encode("utf-8"), files)
            out["protoc"] = b.hex() if b is not None else ["err", "protoc-encode", e]
            has_unknown = c["stream"] in ("top/unknown",) or not c["typed"]
            if not has_unknown:
                tdec, e = protoc("decode", full, bytes.fromhex(c["model_hex"]), files)
                if tdec is None:
                    out["protoc-of-model"] = ["err", "protoc-decode", e]
                else:
                    b2, e2 = protoc("encode", full, tdec, files)
                    out["protoc-of-model"] = b2.hex() if b2 is not None else ["err", "protoc-reencode", e2]
            return out

        with ThreadPoolExecutor(max_workers=C.NPROC) as ex:
            pouts = list(ex.map(run_protoc, pc))
        for c, o in zip(pc, pouts):
            c["protoc"] = o
        again = [c for c in pc if isinstance(c["protoc"].get("protoc"), str)]
        sdk2 = C.run_harness([["c07_roundtrip", [c["type"], c["protoc"]["protoc"]]] for c in again])
        for c, r in zip(again, sdk2):
            c["prost_of_protoc"] = r

        # phase 2c: an alternative conforming encoding of the same value (every repeated field
        # unpacked), produced by the model, must be read by prost with the same content
        alt = [c for k, c in enumerate(cases) if replay or k % 3 == 1 or c["stream"] in ("targeted", "single-field")]
        aenc = C.run_in_coq(PROP, "RunC07", "run_C07", [["enc_alt", c["type"], c["value"]] for c in alt],
                            shard_size=60 if tier == "quick" else 150, tag="enc_alt")
        for c, e in zip(alt, aenc):
            if not (isinstance(e, list) and e and e[0] == "enc") or not e[3]:
                print("MACHINERY ERROR: the model does not read its own unpacked encoding (model bug): %s %s" % (e, json.dumps(c)[:400]))
                return 2
            c["alt_hex"] = e[1]
        sdk3 = C.run_harness([["c07_roundtrip", [c["type"], c["alt_hex"]]] for c in alt])
        for c, r in zip(alt, sdk3):
            c["alt_prost"] = r
        # phase 2d: merge semantics — the concatenation of two encodings of one type is a valid encoding
        # (last-one-wins for scalars, merge for messages, append for repeated, insert for maps):
        # the model and prost must read it alike
        merged = []
        if not replay:
            by_type = {}
            for c in cases:
                by_type.setdefault(c["type"], []).append(c)
            for tname, cs in sorted(by_type.items()):
                for _ in range(3 if tier == "quick" else 25):
                    a, b = rng.choice(cs), rng.choice(cs)
                    merged.append({"type": tname, "value": None, "stream": "merge",
                                   "stored_hex": a["model_hex"] + b["model_hex"], "parts": [a["value"], b["value"]]})
        elif payload.get("value") is None and payload.get("stored_hex") and payload.get("stream") == "merge":
            merged.append({"type": payload["type"], "value": None, "stream": "merge",
                           "stored_hex": payload["stored_hex"], "parts": payload.get("parts")})
        if merged:
            sdk4 = C.run_harness([["c07_roundtrip", [c["type"], c["stored_hex"]]] for c in merged])
            for c, r in zip(merged, sdk4):
                c["prost"] = r
            mv = C.run_in_coq(PROP, "RunC07", "run_C07",
                              [["stored", c["type"], c["stored_hex"], (c["prost"][:2] if c["prost"] and c["prost"][0] == "ok" else c["prost"])]
                               for c in merged], shard_size=100, tag="merge")
            for c, v in zip(merged, mv):
                c["verdict"] = v

        # phase 2e: the same bytes as the blob of an artifact layer, read back through the typed accessors of
        # ommx::artifact (a layer written by another conforming implementation or a newer schema release):
        # the model's encoding (with its injected unknown fields) and the all-unpacked encoding
        LAYER_TYPES = ("instance", "parametricinstance", "state", "sampleset")
        lay = [c for c in cases if c["type"] in LAYER_TYPES]
        if tier == "quick" and not replay:
            lay = lay[:400]
        sdk5 = C.run_harness([["c07_artifact_foreign", [c["type"], c["model_hex"]]] for c in lay])
        for c, r in zip(lay, sdk5):
            c["art_prost"] = r
        lay_list = [c for c in lay if c["type"] in ("instance", "state")]
        sdk7 = C.run_harness([["c07_artifact_foreign", [c["type"], c["model_hex"], "list"]] for c in lay_list])
        for c, r in zip(lay_list, sdk7):
            c["art_list_prost"] = r
        lay_alt = [c for c in lay if "alt_hex" in c]
        sdk6 = C.run_harness([["c07_artifact_foreign", [c["type"], c["alt_hex"]]] for c in lay_alt])
        for c, r in zip(lay_alt, sdk6):
            c["alt_art_prost"] = r
        stats["artifact_layers_foreign"] = {"model_encoding": len(lay), "unpacked_encoding": len(lay_alt)}

        # phase 3: judge in Coq
        def res_tree(who, r):
            if isinstance(r, str):
                return [who, r]
            if isinstance(r, list) and r and r[0] == "ok":
                return [who, r[1]]
            return [who, r]

        jt = []
        for c in cases:
            rs = [res_tree("prost", c["prost"])]
            if "protoc" in c:
                for who in ("protoc", "protoc-of-model"):
                    if who in c["protoc"]:
                        rs.append(res_tree(who, c["protoc"][who]))
                if "prost_of_protoc" in c:
                    rs.append(res_tree("prost-of-protoc", c["prost_of_protoc"]))
            if "alt_prost" in c:
                rs.append(res_tree("alt-prost", c["alt_prost"]))
            if "art_prost" in c:
                rs.append(res_tree("artifact-prost", c["art_prost"]))
            if "art_list_prost" in c:
                rs.append(res_tree("artifact-listing-prost", c["art_list_prost"]))
            if "alt_art_prost" in c:
                rs.append(res_tree("alt-artifact-prost", c["alt_art_prost"]))
            jt.append(["judge", c["type"], c["value"], rs])
        verdicts = C.run_in_coq(PROP, "RunC07", "run_C07", jt, shard_size=60 if tier == "quick" else 150, tag="judge")
        for c, v in zip(cases, verdicts):
            c["verdict"] = v
        # content bridge: prost's Debug rendering, field by field by proto name
        nbridge = 0
        for c in cases:
            r = c["prost"]
            if c["verdict"][0] == "agree" and isinstance(r, list) and r and r[0] == "ok":
                try:
                    d = W.bridge(W.parse_debug(r[2]), c["value"], ir, c["type"])
                except Exception as e:   # unreadable rendering: the bridge cannot be established
                    d = ["debug rendering unreadable: %s" % e]
                nbridge += 1
                if d:
                    c["verdict"] = ["disagree", "content bridge: prost's decoded struct differs from the value by field name",
                                    d[:5]]
                else:
                    c["verdict"][1].append("bridge")
        stats["bridge_checked"] = nbridge

        # stored artifact
        art_path = os.path.join(C.REPO, "data", "random_lp_instance.ommx")
        art = C.run_harness([["c07_artifact", [art_path]]])[0]
        stored = []
        if isinstance(art, list) and art and art[0] == "ok":
            layers, n_inst = art[1]
            st = [["stored", l[1], l[2], (l[3][:2] if l[3] and l[3][0] == "ok" else l[3])] for l in layers if l[1]]
            sv = C.run_in_coq(PROP, "RunC07", "run_C07", st, tag="stored") if st else []
            for l, v in zip([l for l in layers if l[1]], sv):
                case = {"type": l[1], "value": None, "stream": "stored-artifact", "verdict": v, "stored_hex": l[2],
                        "prost": l[3]}
                # bridge the stored layer too: model-decoded value against prost's rendering
                if v[0] == "agree":
                    dec = C.run_in_coq(PROP, "RunC07", "run_C07", [["dec", l[1], l[2]]], tag="dec")[0]
                    if dec[0] == "ok":
                        case["value"] = dec[1]
                        try:
                            d = W.bridge(W.parse_debug(l[3][2]), dec[1], ir, l[1])
                        except Exception as e:
                            d = ["debug rendering unreadable: %s" % e]
                        if d:
                            case["verdict"] = ["disagree", "content bridge (stored layer)", d[:5]]
                stored.append(case)
            stats["artifact"] = {"layers": len(layers), "ommx_layers_checked": len(stored), "get_instances": n_inst,
                                 "bytes": sum(len(l[2]) // 2 for l in layers)}
            if not stored or n_inst < 1:
                stored.append({"type": "instance", "value": None, "stream": "stored-artifact",
                               "verdict": ["disagree", "stored artifact has no readable instance layer", art]})
        else:
            stored.append({"type": "instance", "value": None, "stream": "stored-artifact", "prost": art,
                           "verdict": ["disagree", "stored artifact cannot be opened", art]})
        allc = cases + stored + merged

        # ---- decide -----------------------------------------------------------------------
        for c in allc:
            k = c["verdict"][0] if isinstance(c["verdict"], list) and c["verdict"] else "malformed"
            counts[k] = counts.get(k, 0) + 1
            s = by_stream.setdefault(c["stream"], {"n": 0, "agree": 0})
            s["n"] += 1
            if k == "agree":
                s["agree"] += 1
                for t in c["verdict"][1]:
                    tagcount[t] = tagcount.get(t, 0) + 1
            elif k == "badcase":
                print("MACHINERY ERROR: Coq decoder rejected a case (%s)" % (c["verdict"],))
                return 2
            else:
                disagreements.append(c)
        clauses = {}
        for c in disagreements:
            key = "%s | %s" % (c["verdict"][1], json.dumps(c["verdict"][2])[:160] if c["verdict"][1].startswith("content") else "")
            clauses[key] = clauses.get(key, 0) + 1
        stats["_clauses"] = clauses
        for k, n in sorted(clauses.items(), key=lambda kv: -kv[1])[:12]:
            print("disagreement x%d: %s" % (n, k))
        disagreements.sort(key=lambda c: len(json.dumps(c.get("value") or c.get("parts"))))
        for c in disagreements[:3]:
            small = shrink(c, ir, files) if c.get("value") is not None and c["stream"] not in ("stored-artifact", "merge") else c
            payload = {"property": PROP, "type": small["type"], "value": small["value"],
                       "message": ir["messages"].get(small["type"], {}).get("display"),
                       "model_bytes": small.get("model_hex"), "prost": small.get("prost"),
                       "protoc": small.get("protoc"), "stored_hex": small.get("stored_hex"), "parts": small.get("parts"),
                       "alt_bytes": small.get("alt_hex"), "alt_prost": small.get("alt_prost"),
                       "artifact_layer": {"get": small.get("art_prost"), "listing": small.get("art_list_prost"),
                                          "get_unpacked": small.get("alt_art_prost")},
                       "verdict": small["verdict"], "clause": small["verdict"][1] if len(small["verdict"]) > 1 else None,
                       "translator_diff": diffs, "stream": small["stream"], "seed": seed, "authority": AUTHORITY,
                       "replay_cmd": "python3 tools/check.py C07 --replay <this file>"}
            path = C.write_replay(PROP, payload)
            violations.append((path, ""))

        # ---- 4. obligation failed but the SDK loop found nothing: model-level witness ------
        if diffs and not disagreements:
            wit = cross_witness(diffs, [c for c in cases if c["stream"] == "targeted"] or cases)
            if wit is not None:
                path = C.write_replay(PROP, dict(wit, property=PROP, translator_diff=diffs, seed=seed,
                                                 authority=AUTHORITY))
                violations.append((path, ""))
        if g is not None:
            cov = {"messages_total": len(ir["messages"]), "messages_reached": len(g.cov_type),
                   "values_per_message_type": dict(sorted(g.cov_type.items())),
                   "fields_total": sum(len(m["fields"]) for m in ir["messages"].values()),
                   "fields_seen_set": sum(1 for v in g.cov_field.values() if v[0] > 0),
                   "fields_seen_unset": sum(1 for v in g.cov_field.values() if v[1] > 0),
                   "enum_values_seen": len(g.cov_enum), "enums_total": len(ir["enums"]),
                   "oneof_arms_and_none_seen": len(g.cov_oneof),
                   "protoc_cases": len(pc)}

    if (not proof_ok) and not any(s == "" for _, s in violations):
        path = C.write_replay(PROP, {"property": PROP,
                                     "broken": "obligation:schemas_agree/schema_wf (coq/gen/SchemaAgree.v) or theorem in props/C07.v",
                                     "translator_diff": diffs, "hygiene": bad_hyg,
                                     "bad_axioms": audit.get("bad_axioms"), "log": audit["log"][-3000:],
                                     "searched": "prost loop, protoc loop, Debug bridge on %d cases incl. targeted; "
                                                 "cross-schema model witness" % len(cases)})
        violations.append((path, " no-failing-input-found"))
    if rc_run != 0 and res is not None:
        notes.append("theories/RunC07.vo does not build:\n" + out_run[-1500:])
        if proof_ok:
            print("MACHINERY ERROR: RunC07.vo does not build\n" + out_run[-2000:])
            return 2

    # ---- evidence -----------------------------------------------------------------------
    distinct = {}
    for c in cases:
        if c.get("verdict") and c["verdict"][0] == "agree":
            distinct[C.tree_hash([c["type"], c["value"]])] = nontrivial_value(c["value"])
    samples = []
    for c in cases[:: max(1, len(cases) // 4)][:4]:
        samples.append({"type": c["type"], "stream": c["stream"], "value": c["value"] if len(json.dumps(c["value"])) < 1500 else "<%d chars>" % len(json.dumps(c["value"])),
                        "model_bytes": c.get("model_hex", "")[:200], "verdict": c.get("verdict")})
    stats["in_theorem_domain"] = {
        "typed (codec_roundtrip applies)": sum(1 for c in cases if c.get("typed")),
        "typed with unknown-field carriers (codec_unknown_fields applies)": sum(1 for c in cases if c.get("typed_ext") and not c.get("typed")),
        "model self round trip checked in Coq": sum(1 for c in cases if c.get("self"))}
    stats.update({"_counts": counts, "_streams": by_stream, "_tags": tagcount, "_disagreements": len(disagreements),
                  "negzero_identified": sum(v for k, v in tagcount.items() if k.endswith("-negzero"))})
    gen_obl = ["schemas_agree", "schema_wf", "schema_supported", "schema_counts_eq"]
    ev = {
        "property_id": PROP, "tier": tier, "seed": seed, "level": "proof",
        "coverage": {
            "obligations": audit["obligations"], "discharged": audit["discharged"],
            "checker_cmd": "tools/translate_schema.py; make -C coq props/C07.vo (coqc 8.16.1) + tools/check.py C07",
            "generated_obligations": gen_obl,
            "trusted_base": TRUSTED + [
                "Coq 8.16.1 kernel + vm_compute (no native_compute)",
                "axioms under Print Assumptions: %s" % (audit["axioms"] or "none (closed under the global context)"),
                "harness (tools/common.py, harness/src) and generators: bound what the correspondence sees"],
            "theorems": audit["theorems"], "examples": audit["examples"],
            "evaluations": len(cases), "distinct_nontrivial": sum(1 for v in distinct.values() if v),
            "rule": RULE, "samples": samples or [{"note": "no cases run"}],
            "correspondence": stats, "type_coverage": cov,
            "translator": None if res is None else {
                "messages": len(res["proto"]["messages"]), "enums": len(res["proto"]["enums"]),
                "fields": sum(len(m["fields"]) for m in res["proto"]["messages"].values()),
                "diff_rust": res["diff_rust"], "diff_python": res["diff_py"], "rewritten": res["changed"],
                "proto_files": res["proto_files"], "py_files": res["py_files"]},
            "planned_not_proven": PLANNED, "hygiene_violations": bad_hyg, "notes": notes, "coqchk": coqchk,
        },
        "assumptions": ASSUMPTIONS, "wall_s": round(time.time() - t0, 1), "violations": len(violations),
    }
    C.write_json(os.path.join(C.VERIF, "evidence", PROP + ".json"), ev)
    for path, suffix in violations:
        print("VIOLATION property=%s replay=%s%s" % (PROP, path, suffix))
    for n in notes:
        print("note: " + n[:600])
    print("%s %s: %d cases, %s, proofs %d/%d, %.1fs" % (PROP, tier, len(cases), counts, audit["discharged"],
                                                       audit["obligations"], time.time() - t0))
    return 1 if violations else 0


# ----------------------------------------------------------------------------------------
# shrinking and the cross-schema witness


def eval_cases(cs, ir, files):
    """prost loop + bridge only (enough to keep a disagreement alive while shrinking)"""
    enc = C.run_in_coq(PROP, "RunC07", "run_C07", [["enc", c["type"], c["value"]] for c in cs], shard_size=100, tag="shr_enc")
    live = []
    for c, e in zip(cs, enc):
        if e[0] == "enc" and e[2] and e[3]:
            c["model_hex"] = e[1]
            live.append(c)
    sdk = C.run_harness([["c07_roundtrip", [c["type"], c["model_hex"]]] for c in live])
    jt = []
    for c, r in zip(live, sdk):
        c["prost"] = r
        jt.append(["judge", c["type"], c["value"], [["prost", r[1] if r and r[0] == "ok" else r]]])
    vs = C.run_in_coq(PROP, "RunC07", "run_C07", jt, shard_size=100, tag="shr_judge") if jt else []
    for c, v in zip(live, vs):
        c["verdict"] = v
        r = c["prost"]
        if v[0] == "agree" and r and r[0] == "ok":
            try:
                d = W.bridge(W.parse_debug(r[2]), c["value"], ir, c["type"])
            except Exception as e:
                d = ["debug rendering unreadable: %s" % e]
            if d:
                c["verdict"] = ["disagree", "content bridge: prost's decoded struct differs from the value by field name", d[:5]]
    return live


def shrink_value(v):
    if v[0] == "m":
        for k in range(len(v[1])):
            yield ["m", v[1][:k] + v[1][k + 1:]]
        for k, (n, x) in enumerate(v[1]):
            for y in shrink_value(x):
                yield ["m", v[1][:k] + [[n, y]] + v[1][k + 1:]]
    elif v[0] == "l":
        for k in range(len(v[1])):
            yield ["l", v[1][:k] + v[1][k + 1:]]
        for k, x in enumerate(v[1]):
            for y in shrink_value(x):
                yield ["l", v[1][:k] + [y] + v[1][k + 1:]]
    elif v[0] == "p":
        for k in range(len(v[1])):
            yield ["p", v[1][:k] + v[1][k + 1:]]
        for k, (kk, x) in enumerate(v[1]):
            for y in shrink_value(x):
                yield ["p", v[1][:k] + [[kk, y]] + v[1][k + 1:]]


def shrink(case, ir, files, rounds=10, batch=120):
    clause = case["verdict"][1]
    if not (clause.startswith("prost") or clause.startswith("content bridge")):
        return case
    cur = case
    for _ in range(rounds):
        cands = []
        for y in shrink_value(cur["value"]):
            cands.append({"type": cur["type"], "value": y, "stream": cur["stream"]})
            if len(cands) >= batch:
                break
        if not cands:
            break
        try:
            live = eval_cases(cands, ir, files)
        except Exception:
            break
        better = next((c for c in live if c.get("verdict") and c["verdict"][0] == "disagree"
                       and c["verdict"][1] == clause), None)
        if better is None:
            break
        cur = better
    return cur


def cross_witness(diffs, pool):
    """a value on which bytes written under the bindings' schema are read differently under the
    published schema — purely in the model (used for the Python side, which cannot be run)"""
    sides = sorted({d["side"] for d in diffs})
    for side in sides:
        which = "rust" if side == "rust" else "py"
        msgs = {d.get("message") for d in diffs if d["side"] == side}
        cs = [c for c in pool if c["type"] in msgs][:80] or pool[:80]
        try:
            out = C.run_in_coq(PROP, "RunC07", "run_C07", [["cross", which, c["type"], c["value"]] for c in cs],
                               shard_size=40, tag="cross")
        except Exception as e:
            print("note: cross-schema witness search failed to run: %s" % str(e)[:300])
            continue
        for c, o in zip(cs, out):
            if o and o[0] == "differs":
                return {"type": c["type"], "value": c["value"], "witness": "cross-schema:" + side,
                        "clause": "bytes written under the %s bindings' schema are read with different content under the "
                                  "published .proto schema (model-level witness)" % side,
                        "bytes_under_binding_schema": o[1], "expected_content": o[2], "content_read_under_proto": o[3]}
    return None
