"""C14 — relaxing and restoring constraints only moves them."""
import itertools
from gen import poly as G
from gen import inst as GI

PROP = "C14"
RUNNER = ("RunC14", "run_C14")
COQ_TARGETS = ["theories/RunC14.vo"]
AUTHORITY = ("C14_* (coq/props/C14.v): by induction over the history, active + removed is conserved as a multiset, ids stay "
             "unique, a failed operation is a no-op, overall feasibility is invariant")
RULE = ("valid instances with 1-3 active and 0-2 removed constraints; histories of relax(id, reason, params) / restore(id) of "
        "length <= 8 over known ids of both lists and unknown ids, observed after EVERY step (result, both lists, full evaluation "
        "at an in-bound state); thorough additionally enumerates all histories of length <= 4 over 3 ids + 1 unknown id. "
        "non-trivial = history has >= 2 successful moves")
TRUSTED = ["hand-written model coq/theories/Relax.v of relax_constraint / restore_constraint (tied by this correspondence only)",
           "evaluation answers are judged against the C05 model (Inst.v)"]
ASSUMPTIONS = ["constraint ids unique across both lists (valid instances)", "small dyadic numbers"]
PLANNED = []
SHARD = 100


def rand_ops(rng, ids, n):
    ops = []
    for _ in range(n):
        i = rng.choice(ids + [9999]) if rng.random() < 0.9 else 424242
        if rng.random() < 0.5:
            ops.append(["relax", i, "" if rng.random() < 0.3 else "why%d" % rng.randint(0, 3),
                        sorted([["a%d" % k, str(rng.randint(0, 9))] for k in range(rng.randint(0, 2))])])
        else:
            ops.append(["restore", i])
    return ops


def gen(rng, tier):
    n = 120 if tier == "quick" else 1500
    cases = []
    for k in range(n):
        inst, info = GI.rand_instance(rng, n_cons=rng.randint(1, 3), n_removed=rng.randint(0, 2), rich=True)
        st = GI.rand_state_for(rng, info)
        ops = rand_ops(rng, info["cids"], rng.randint(1, 8))
        extra = [GI.rand_state_for(rng, info) for _ in range(rng.randint(1, 3))]
        cases.append({"op": "relax_history", "input": [inst, ops, st, extra], "stream": "random"})
    if tier == "thorough":
        inst, info = GI.rand_instance(rng, n_cons=2, n_removed=1)
        st = GI.rand_state_for(rng, info)
        extra = [GI.rand_state_for(rng, info) for _ in range(2)]
        ids = info["cids"] + [777]
        alphabet = [["relax", i, "r", []] for i in ids] + [["restore", i] for i in ids]
        for L in range(1, 5):
            for hist in itertools.product(alphabet, repeat=L):
                cases.append({"op": "relax_history", "input": [inst, list(hist), st, extra], "stream": "exhaustive<=4"})
    return cases


def nontrivial(case):
    return len(case["input"][1]) >= 2
