"""C14 — relaxing and restoring constraints only moves them."""
import itertools
from gen import poly as G
from gen import inst as GI

PROP = "C14"
RUNNER = ("RunC14", "run_C14")
COQ_TARGETS = ["theories/RunC14.vo"]
AUTHORITY = ("C14_* (coq/props/C14.v): by induction over the history, active + removed is conserved as a multiset, ids stay "
             "unique, a failed operation is a no-op, overall feasibility is invariant")
RULE = ("valid instances with 1-3 active and 0-2 removed constraints; histories of relax(id, reason, params) / restore(id) of "
        "length <= 8 over known ids of both lists and unknown ids, observed after EVERY step (result, both lists, full evaluation "
        "at an in-bound state); thorough additionally enumerates all histories of length <= 4 over 3 ids + 1 unknown id. "
        "non-trivial = history has >= 2 successful moves")
TRUSTED = ["hand-written model coq/theories/Relax.v of relax_constraint / restore_constraint (tied by this correspondence only)",
           "evaluation answers are judged against the C05 model (Inst.v)"]
ASSUMPTIONS = ["constraint ids unique across both lists (valid instances)", "small dyadic numbers"]
PLANNED = []
SHARD = 100


def rand_ops(rng, ids, n):
    ops = []
    for _ in range(n):
        i = rng.choice(ids + [9999]) if rng.random() < 0.9 else 424242
        if rng.random() < 0.5:
            ops.append(["relax", i, "" if rng.random() < 0.3 else "why%d" % rng.randint(0, 3),
                        sorted([["a%d" % k, str(rng.randint(0, 9))] for k in range(rng.randint(0, 2))])])
        else:
            ops.append(["restore", i])
    return ops


def gen(rng, tier):
    n = 120 if tier == "quick" else 1500
    cases = []
    for k in range(n):
        inst, info = GI.rand_instance(rng, n_cons=rng.randint(1, 3), n_removed=rng.randint(0, 2), rich=True)
        st = GI.rand_state_for(rng, info)
        ops = rand_ops(rng, info["cids"], rng.randint(1, 8))
        extra = [GI.rand_state_for(rng, info) for _ in range(rng.randint(1, 3))]
        cases.append({"op": "relax_history", "input": [inst, ops, st, extra], "stream": "random"})
    # residuals between the bound tolerance 1e-7 and the feasibility tolerance 1e-6 (2^-21), just below 1e-7 (2^-24) and
    # above 1e-6 (2^-19), on <= 0 and = 0 constraints, either sign: a constraint is judged with the SAME tolerance whether it is
    # active or relaxed (exact dyadic values: every float operation is exact)
    from common import f64 as _f64
    for k in range(12 if tier == "quick" else 150):
        ids = rng.sample(range(1, 30), 3)
        dvs = [GI.dv(i, 3, (-10.0, 10.0)) for i in ids]
        lin = lambda i, c: ["lin", [[[i, _f64(1.0)]], _f64(c)]]
        cids = rng.sample(range(1, 40), 3)
        cons = [GI.constraint(cids[0], 2, lin(ids[0], -1.0)), GI.constraint(cids[1], 1, lin(ids[1], -2.0)),
                GI.constraint(cids[2], 2, lin(ids[2], 0.0))]
        rng.shuffle(cons)
        nrem = rng.randint(0, 2)
        inst = [rng.choice([1, 2]), [lin(ids[0], 0.0)], dvs, cons[nrem:],
                [[[c], "why", []] for c in cons[:nrem]], [], [], [], []]
        d = lambda: rng.choice([2.0 ** -21, 2.0 ** -21, -(2.0 ** -21), 2.0 ** -24, 2.0 ** -19, 0.0])
        mk = lambda: [[ids[0], _f64(1.0 + d())], [ids[1], _f64(2.0 + d())], [ids[2], _f64(d())]]
        ops = rand_ops(rng, cids, rng.randint(2, 6))
        cases.append({"op": "relax_history", "input": [inst, ops, mk(), [mk() for _ in range(3)]], "stream": "near-tolerance"})
    if tier == "thorough":
        inst, info = GI.rand_instance(rng, n_cons=2, n_removed=1)
        st = GI.rand_state_for(rng, info)
        extra = [GI.rand_state_for(rng, info) for _ in range(2)]
        ids = info["cids"] + [777]
        alphabet = [["relax", i, "r", []] for i in ids] + [["restore", i] for i in ids]
        for L in range(1, 5):
            for hist in itertools.product(alphabet, repeat=L):
                cases.append({"op": "relax_history", "input": [inst, list(hist), st, extra], "stream": "exhaustive<=4"})
    return cases


def nontrivial(case):
    return len(case["input"][1]) >= 2
