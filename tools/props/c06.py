"""C06 — sample-set evaluation agrees with evaluating each sample alone."""
import itertools
from common import f64
from gen import poly as G
from gen import inst as GI

PROP = "C06"
RUNNER = ("RunSamples", "run_C06")
COQ_TARGETS = ["theories/RunSamples.vo"]
AUTHORITY = ("C06_get_evaluate_samples / C06_get_state (coq/props/C06.v: get k of the evaluated sample set = the single "
             "evaluation of state k, for every partition) and the C05 model: for every submitted id the runner checks SampleSet::get(id) and "
             "Instance::evaluate(state_id) against the model's single evaluation, and the tables against the model's sample set")
RULE = ("valid instances (active + removed constraints, dependencies, substituted and irrelevant variables) x Samples messages "
        "with 1-8 arbitrary non-contiguous sample ids, random partitions of the ids into entries (thorough: every set partition "
        "for <= 5 ids), the same state stored in several entries, states omitting variables the problem does not use, extra "
        "undefined entries; per id: get(id) vs evaluate(state_id) vs model (objective, per-constraint values and metadata, both "
        "flags, values of defined variables); key sets of all tables; best_feasible*. non-trivial = >= 2 sample ids")
TRUSTED = ["hand-written model coq/theories/Samples.v of evaluate_samples / SampleSet::get / Samples / SampledValues "
           "(tied by this correspondence only)", "single evaluations are judged against the C05 model (Inst.v)"]
ASSUMPTIONS = ["in-bound states (evaluate_samples does not check bounds, evaluate does)", "equalities are specified",
               "states assign no value to dependent variables", "small dyadic numbers"]
PLANNED = []
SHARD = 60


def partitions(ids):
    if not ids:
        yield []
        return
    first, rest = ids[0], ids[1:]
    for p in partitions(rest):
        for k in range(len(p)):
            yield p[:k] + [[first] + p[k]] + p[k + 1:]
        yield [[first]] + p


def make_samples(rng, info, ids, blocks):
    ents = []
    pool_states = []
    for b in blocks:
        if pool_states and rng.random() < 0.25:
            st = rng.choice(pool_states)      # the same state stored in a separate entry
        else:
            st = GI.rand_state_for(rng, info, include_irrelevant=rng.choice([0.0, 0.5, 1.0]))
            pool_states.append(st)
        ents.append([st, b])
    if rng.random() < 0.15:
        # an entry that lists no sample id at all (legal: it contributes no sample)
        ents.append([GI.rand_state_for(rng, info, include_irrelevant=1.0), []])
    rng.shuffle(ents)
    return ents


def gen(rng, tier):
    n = 100 if tier == "quick" else 1200
    cases = []
    for k in range(n):
        inst, info = GI.rand_instance(rng, allow_unset=False)
        nid = rng.randint(1, 8)
        r_ids = rng.random()
        if r_ids < 0.6:
            ids = rng.sample(range(0, 50), nid)
        elif r_ids < 0.85:
            ids = rng.sample(range(10 ** 6, 10 ** 6 + 100), nid)
        else:
            ids = rng.sample([0, 1, 2 ** 31, 2 ** 32, 2 ** 32 + 1, 2 ** 53 + 1, 2 ** 62, 2 ** 63 - 1, 2 ** 63, 2 ** 63 + 5], nid)
        if tier == "thorough" and nid <= 5 and k % 6 == 0:
            parts = list(partitions(ids))
        else:
            parts = []
            for _ in range(2):
                rng.shuffle(ids)
                cut = sorted(rng.sample(range(1, nid), rng.randint(0, nid - 1))) if nid > 1 else []
                parts.append([ids[a:b] for a, b in zip([0] + cut, cut + [nid])])
        for p in parts:
            cases.append({"op": "eval_samples", "input": [inst, make_samples(rng, info, ids, p)], "stream": "samples/%d" % min(nid, 5)})
    # constraint values exactly on the feasibility tolerance 1e-6 and its binary64 neighbours, for an inequality and an
    # equality, active and removed: the flags of every sample must be those of evaluating its state alone
    import math
    T = 1e-6
    vals = [T, math.nextafter(T, 1.0), math.nextafter(T, 0.0), -T, math.nextafter(-T, -1.0), math.nextafter(-T, 0.0), 0.0]
    for removed in (False, True):
        for eq in (1, 2):
            c = GI.constraint(4, eq, ["lin", [[[1, f64(1.0)]], f64(0.0)]])
            inst = [1, [["lin", [[[1, f64(1.0)]], f64(0.0)]]], [GI.dv(1, 3, (-1.0, 1.0)), GI.dv(2, 3, (-1.0, 1.0))],
                    [] if removed else [c], [[[c], "why", []]] if removed else [], [], [], [], []]
            samples = [[[[1, f64(v)], [2, f64(0.5)]], [10 + k]] for k, v in enumerate(vals)]
            cases.append({"op": "eval_samples", "input": [inst, samples], "stream": "tolerance"})
    return cases


def nontrivial(case):
    return sum(len(e[1]) for e in case["input"][1]) >= 2
