"""C01 — evaluating a function returns the polynomial's mathematical value."""
from gen import poly as G

PROP = "C01"
RUNNER = ("RunC01", "run_C01")
COQ_TARGETS = ["theories/RunC01.vo"]
AUTHORITY = ("C01_sound / C01_missing (coq/props/C01.v): the model's value is the value of the represented "
             "polynomial for every valuation agreeing with the state, and evaluation fails iff an occurring id has no value")
RULE = ("dyadic stream: random polynomials (degree<=4, <=8 monomials, ids from a pool of <=6 incl. ids up to 2^62) "
        "rendered in every variant able to hold them, normalised or not (split/repeated/zero terms, swapped "
        "row/column, absent linear part, unsorted monomial ids); state covers all ids (+extras); missing stream "
        "removes each occurring id in turn. non-trivial = function has >=1 term with a variable; distinct by (op,input)")
TRUSTED = ["hand-written model coq/theories/Eval.v of evaluate.rs:25-255 (tied to the code by this correspondence only)",
           "f64 -> exact rational decoding in Num.v (f64_of_bits)"]
ASSUMPTIONS = ["all coefficients/values are small dyadic rationals so every f64 operation of the SDK is exact; "
               "rounding on general floats is not covered by a theorem (see planned_not_proven)"]
PLANNED = ["C01_rounding_bound (float layer, Tier B)"]


def gen(rng, tier):
    n = 400 if tier == "quick" else 6000
    cases = []
    for k in range(n):
        pool = G.ids_pool(rng, rng.randint(1, 6))
        p = G.rand_poly(rng, pool, max_deg=rng.choice([0, 1, 1, 2, 2, 2, 3, 4]))
        fn = G.render(rng, p, pool)
        ids = G.fn_ids(fn)
        st = G.rand_state(rng, ids, extra=pool if rng.random() < 0.5 else None)
        cases.append({"op": "evaluate", "input": [fn, st], "stream": "dyadic/" + fn[0]})
        # representation stream: further renderings of the same polynomial at the same state
        for _ in range(2):
            g = G.render(rng, p, pool, normal=False)
            st2 = G.rand_state(rng, G.fn_ids(g) | ids)
            cases.append({"op": "evaluate", "input": [g, st2], "stream": "repr/" + g[0]})
        # missing-variable stream
        if ids and k % 2 == 0:
            for drop in sorted(ids)[:3]:
                st3 = [e for e in st if e[0] != drop]
                cases.append({"op": "evaluate", "input": [fn, st3], "stream": "missing/" + fn[0]})
    return cases


def nontrivial(case):
    return len(G.fn_ids(case["input"][0])) > 0
