"""C01 — evaluating a function returns the polynomial's mathematical value."""
from common import f64
from gen import poly as G

PROP = "C01"
RUNNER = ("RunC01", "run_C01")
COQ_TARGETS = ["theories/RunC01.vo"]
AUTHORITY = ("C01_sound / C01_missing (coq/props/C01.v): the model's value is the value of the represented "
             "polynomial for every valuation agreeing with the state, and evaluation fails iff an occurring id has no value; "
             "C01_rounding_bound / C01_rounding_binary64: the evaluation with every operation rounded (relative error <= u) is "
             "within ((1+u)^K - 1) * sum|c|prod|x| of the exact value; the SDK equals the 53-bit round-to-nearest-even evaluation")
RULE = ("float stream: lin/quad/poly messages with arbitrary 53-bit binary64 coefficients and values, compared bit for bit "
        "with the model's rounded evaluation and against the proved bound; dyadic stream: random polynomials (degree<=4, <=8 monomials, ids from a pool of <=6 incl. ids up to 2^62) "
        "rendered in every variant able to hold them, normalised or not (split/repeated/zero terms, swapped "
        "row/column, absent linear part, unsorted monomial ids); state covers all ids (+extras); missing stream "
        "removes each occurring id in turn. non-trivial = function has >=1 term with a variable; distinct by (op,input)")
TRUSTED = ["hand-written models coq/theories/Eval.v (exact) and FEval.v / F64.v (rounded, order of operations of evaluate.rs:25-255) "
           "(tied to the code by this correspondence only)",
           "f64 -> exact rational decoding in Num.v (f64_of_bits)"]
ASSUMPTIONS = ["dyadic streams: all coefficients/values are small dyadic rationals so every f64 operation of the SDK is exact",
               "float stream: arbitrary 53-bit mantissas, exponents in [-24,24] (values [-8,8]), so that no intermediate is "
               "subnormal or overflows; there the SDK must equal the model's round-to-nearest-even evaluation bit for bit"]
PLANNED = []


def rand_f64(rng, emin=-24, emax=24, p_small=0.2):
    """an arbitrary finite binary64 of moderate magnitude: full 52-bit random mantissa"""
    if rng.random() < p_small:
        return float(rng.randint(-9, 9))
    m = 1.0 + rng.getrandbits(52) / float(2 ** 52)
    return (-1.0 if rng.random() < 0.5 else 1.0) * m * 2.0 ** rng.randint(emin, emax)


def float_case(rng):
    """a function message with arbitrary binary64 coefficients at a state with arbitrary values"""
    pool = G.ids_pool(rng, rng.randint(1, 5))
    kind = rng.choice(["lin", "quad", "quad", "poly", "poly"])
    nt = rng.randint(1, 8)
    if kind == "lin":
        fn = ["lin", [[[rng.choice(pool), f64(rand_f64(rng))] for _ in range(nt)], f64(rand_f64(rng))]]
    elif kind == "quad":
        pos = []
        for _ in range(nt):
            rc = (rng.choice(pool), rng.choice(pool))
            if rc not in pos:                      # the schema forbids duplicated (row, column) positions
                pos.append(rc)
        rows = [r for r, _ in pos]
        cols = [c for _, c in pos]
        vals = [f64(rand_f64(rng)) for _ in pos]
        lin = None
        if rng.random() < 0.7:
            lin = [[[rng.choice(pool), f64(rand_f64(rng))] for _ in range(rng.randint(0, 4))], f64(rand_f64(rng))]
        fn = ["quad", [rows, cols, vals, [lin] if lin is not None else []]]
    else:
        terms = [[[rng.choice(pool) for _ in range(rng.randint(0, 4))], f64(rand_f64(rng))] for _ in range(nt)]
        fn = ["poly", terms]
    st = [[i, f64(rand_f64(rng, -8, 8))] for i in sorted(G.fn_ids(fn))]
    return fn, st


def gen(rng, tier):
    n = 400 if tier == "quick" else 6000
    cases = []
    for k in range(n // 2):
        fn, st = float_case(rng)
        cases.append({"op": "evaluate_f", "input": [fn, st], "stream": "float/" + fn[0]})
    for k in range(n):
        pool = G.ids_pool(rng, rng.randint(1, 6))
        if rng.random() < 0.08:
            # the extreme legal ids (u64::MAX and neighbours, 2^63): no id value may act as a sentinel
            pool = sorted(set(pool[:-1]) | {rng.choice([2 ** 64 - 1, 2 ** 64 - 1, 2 ** 64 - 2, 2 ** 63, 2 ** 63 - 1])})
        p = G.rand_poly(rng, pool, max_deg=rng.choice([0, 1, 1, 2, 2, 2, 3, 4]))
        fn = G.render(rng, p, pool)
        ids = G.fn_ids(fn)
        st = G.rand_state(rng, ids, extra=pool if rng.random() < 0.5 else None)
        cases.append({"op": "evaluate", "input": [fn, st], "stream": "dyadic/" + fn[0]})
        # representation stream: further renderings of the same polynomial at the same state
        for _ in range(2):
            g = G.render(rng, p, pool, normal=False)
            st2 = G.rand_state(rng, G.fn_ids(g) | ids)
            cases.append({"op": "evaluate", "input": [g, st2], "stream": "repr/" + g[0]})
        # missing-variable stream
        if ids and k % 2 == 0:
            for drop in sorted(ids)[:3]:
                st3 = [e for e in st if e[0] != drop]
                cases.append({"op": "evaluate", "input": [fn, st3], "stream": "missing/" + fn[0]})
    # a factor is missing from the state while the OTHER factor of the same term has the value (+/-)0: the evaluation must
    # still fail (no short-circuit on a zero partial product), in every message kind and for either factor
    for k in range(12 if tier == "quick" else 120):
        a, b = rng.sample(range(0, 12), 2)
        zero = f64(rng.choice([0.0, -0.0]))
        c = f64(G.dyadic(rng, 4, 1, nonzero=True))
        for fn in (["quad", [[a], [b], [c], []]], ["quad", [[b], [a], [c], [[[], f64(1.0)]]]],
                   ["poly", [[[a, b], c]]], ["poly", [[[b, a, a], c], [[], f64(0.5)]]],
                   ["quad", [[a, a], [b, a], [c, c], []]]):
            cases.append({"op": "evaluate", "input": [fn, [[a, zero]]], "stream": "missing/zero-partner"})
            cases.append({"op": "evaluate", "input": [fn, [[a, zero], [b, f64(2.0)]]], "stream": "dyadic/zero-partner"})
    # every placement of the largest legal id in a quadratic message (row, column, diagonal, linear part only)
    M = 2 ** 64 - 1
    for j in (3, M - 1):
        for rows, cols in (([M], [j]), ([j], [M]), ([M], [M]), ([M, j], [j, M]), ([j, M], [j, j]), ([M, M], [j, M])):
            for lin in ([], [[[[j, f64(1.0)]], f64(0.5)]], [[[[M, f64(2.0)]], f64(0.0)]]):
                fn = ["quad", [rows, cols, [f64(2.0)] * len(rows), lin]]
                st = [[M, f64(4.0)], [j, f64(0.5)]]
                cases.append({"op": "evaluate", "input": [fn, st], "stream": "maxid/quad"})
                cases.append({"op": "evaluate", "input": [fn, [e for e in st if e[0] != M]], "stream": "maxid/missing"})
    return cases


def nontrivial(case):
    return len(G.fn_ids(case["input"][0])) > 0
