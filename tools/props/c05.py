"""C05 — a Solution faithfully reports the evaluated problem."""
import math
from common import f64, from_bits
from gen import poly as G
from gen import inst as GI

PROP = "C05"
RUNNER = ("RunC05", "run_C05")
COQ_TARGETS = ["theories/RunC05.vo"]
AUTHORITY = ("C05_* (coq/props/C05.v): the model's Solution has the objective's value, every active and removed constraint "
             "once with value/equality/metadata/reason, flags = all-hold, completed state; rejection exactly by the listed causes "
             "(C05_succeeds_iff: evaluation returns a solution <=> eval_ok, seven explicit conditions with a proved decision procedure)")
RULE = ("random valid instances (all kinds, absent/finite/half-infinite/infinite bounds, 0-3 active and 0-2 removed constraints "
        "with metadata, absent/constant/unset functions, dependencies, irrelevant and substituted variables, non-contiguous ids) "
        "x states: in-bound; out of bound by 2^-20 (rejected) and 2^-30 (accepted) on a random variable; exactly at / one ulp "
        "beyond bound+-1e-7 for lower=0; missing a used variable; extra undefined entries; constraint values at 1e-6 and its "
        "ulp-neighbours, both signs, both equality kinds; unspecified equality. non-trivial = instance has >=1 constraint "
        "with a variable term or a dependency")
TRUSTED = ["hand-written model coq/theories/Inst.v of Instance::evaluate / check_bound / eval_dependencies / is_feasible "
           "(tied by this correspondence only)"]
ASSUMPTIONS = ["small dyadic numbers (exact f64 arithmetic); variable values are never within 1e-9 of bound+-1e-7 except in "
               "the lower=0 boundary stream where the float subtraction is exact",
               "states assign no value to dependent variables (keys of decision_variable_dependency)"]
PLANNED = []

TOL6 = 1e-6
TOL7 = 1e-7


def boundary_cases(rng):
    out = []
    # constraint values around the feasibility tolerance, constant functions (exact)
    vals = [TOL6, math.nextafter(TOL6, 0.0), math.nextafter(TOL6, 1.0), -TOL6, math.nextafter(-TOL6, 0.0),
            math.nextafter(-TOL6, -1.0), 0.0, 2.0 ** -20, -(2.0 ** -20), 5e-7, -5e-7]
    for v in vals:
        for eq in (1, 2, 0, 3):
            for where in ("active", "removed"):
                c = GI.constraint(7, eq, ["const", f64(v)])
                c2 = GI.constraint(9, 2, ["lin", [[[1, f64(1.0)]], f64(v - 1.0)]])
                dvs = [GI.dv(1, 3, None)]
                cons = [c, c2] if where == "active" else [c2]
                rem = [] if where == "active" else [[[c], "r", []]]
                inst = [1, [["lin", [[[1, f64(2.0)]], f64(0.5)]]], dvs, cons, rem, [], [], [], []]
                out.append([inst, [[1, f64(1.0)]]])
    # variable values around bound +- 1e-7 with lower = 0 / upper = 0 (exact float subtraction)
    for v in [-TOL7, math.nextafter(-TOL7, -1.0), math.nextafter(-TOL7, 0.0), 0.0, -2.0 ** -20, -2.0 ** -30]:
        inst = [1, [["lin", [[[1, f64(1.0)]], f64(0.0)]]], [GI.dv(1, 3, (0.0, 4.0))], [], [], [], [], [], []]
        out.append([inst, [[1, f64(v)]]])
        inst = [1, [["lin", [[[1, f64(1.0)]], f64(0.0)]]], [GI.dv(1, 3, (-4.0, 0.0))], [], [], [], [], [], []]
        out.append([inst, [[1, f64(-v)]]])
    # implicit bounds: a binary variable without an explicit bound is [0,1]; other kinds are unbounded
    for kind in (1, 2, 3):
        for v in (2.0, -1.0, 1.0 + 2.0 ** -20, 1.0 + 2.0 ** -30, -(2.0 ** -20), -(2.0 ** -30), 0.0, 1.0, 0.5, -TOL7):
            inst = [1, [["lin", [[[4, f64(1.0)]], f64(0.0)]]], [GI.dv(4, kind, None)],
                    [GI.constraint(2, 2, ["lin", [[[4, f64(2.0)]], f64(0.0)]])], [], [], [], [], []]   # exact for every v
            out.append([inst, [[4, f64(v)]]])
    # a used variable that occurs ONLY as the column (second) factor of quadratic entries whose row partner is 0 in the
    # state, and is itself missing from the state: must be rejected (objective / constraint / removed constraint)
    for where in ("objective", "constraint", "removed"):
        for zero in (0.0, -0.0):
            q = ["quad", [[1, 1], [2, 3], [f64(2.0), f64(-1.0)], [[[[1, f64(1.0)]], f64(0.5)]]]]
            obj = [q] if where == "objective" else [["const", f64(0.0)]]
            cons = [GI.constraint(4, 2, q)] if where == "constraint" else []
            rem = [[[GI.constraint(6, 1, q)], "why", []]] if where == "removed" else []
            inst = [1, obj, [GI.dv(1, 3, (-4.0, 4.0)), GI.dv(2, 2, (-4.0, 4.0)), GI.dv(3, 3, None)], cons, rem, [], [], [], []]
            out.append([inst, [[1, f64(zero)], [2, f64(1.0)]]])          # 3 is missing, its partner 1 is zero
            out.append([inst, [[1, f64(zero)], [3, f64(1.0)]]])          # 2 is missing
            out.append([inst, [[1, f64(1.0)], [2, f64(1.0)]]])           # 3 is missing, partner non-zero
    # invalid bounds
    for b in [(1.0, 0.0), (float("inf"), float("inf")), (float("-inf"), float("-inf")), (float("nan"), 1.0)]:
        inst = [1, [["const", f64(1.0)]], [GI.dv(1, 3, b)], [], [], [], [], [], []]
        out.append([inst, []])
    return out


def gen(rng, tier):
    n = 300 if tier == "quick" else 5000
    cases = []
    for k in range(n):
        r = rng.random()
        # the bound-violation streams use values with ~30 significant bits: keep those instances linear
        # (dependency functions may be quadratic whatever max_deg says: none in those instances)
        inst, info = GI.rand_instance(rng, max_deg=1 if r < 0.25 else 2, with_deps=(r >= 0.25))
        st = GI.rand_state_for(rng, info)
        cases.append({"op": "inst_evaluate", "input": [inst, st], "stream": "valid"})
        if r < 0.25 and info["usable"]:
            # bound violation on one variable with a finite endpoint
            i = rng.choice(info["usable"])
            lo, hi = GI.eff_bound(info["kinds"][i], info["bounds"][i])
            if lo > -GI.INF:
                for d, tag in ((2.0 ** -20, "out-far"), (2.0 ** -30, "out-near")):
                    st2 = [[e[0], f64(lo - d)] if e[0] == i else e for e in st]
                    cases.append({"op": "inst_evaluate", "input": [inst, st2], "stream": tag})
            if hi < GI.INF:
                st2 = [[e[0], f64(hi + 2.0 ** -20)] if e[0] == i else e for e in st]
                cases.append({"op": "inst_evaluate", "input": [inst, st2], "stream": "out-far"})
        elif r < 0.5 and info["used"]:
            drop = rng.choice(sorted(info["used"]))
            st2 = [e for e in st if e[0] != drop]
            cases.append({"op": "inst_evaluate", "input": [inst, st2], "stream": "missing"})
    for b in boundary_cases(rng):
        cases.append({"op": "inst_evaluate", "input": b, "stream": "boundary"})
    return cases


def nontrivial(case):
    inst = case["input"][0]
    for c in inst[3]:
        if c[2] and G.fn_ids(c[2][0]):
            return True
    return len(inst[5]) > 0
