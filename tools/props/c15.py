"""C15 — sense-aware operations select the right optimum."""
import itertools
from common import f64
from gen import poly as G
from gen import inst as GI

PROP = "C15"
RUNNER = ("RunSamples", "run_C15")
COQ_TARGETS = ["theories/RunSamples.vo"]
AUTHORITY = ("C15_* (coq/props/C15.v): as_minimization facts and ranking; best = a candidate feasible in the requested sense that "
             "no candidate strictly beats (a constrained observable judged by a checker), failure iff no candidate; C15_as_min_eval: "
             "evaluating the converted instance = evaluating the original with the objective negated, same records / flags / ranking")
RULE = ("as_min: random instances of either sense (+ unspecified sense, unset objective -> panic); best: sample sets with 1-8 sample "
        "ids, objective values from a small set (ties), grouped into entries, both senses (+0 and an invalid sense), feasibility "
        "patterns in the current fields (feasible_relaxed + feasible) and in the legacy 1.6.0 usage (feasible + feasible_unrelaxed, "
        "feasible_relaxed empty), directly and after an encode/decode round trip; thorough: all 2^n x 2^n patterns for n <= 4; "
        "missing objectives. non-trivial = >= 2 candidates")
TRUSTED = ["hand-written models coq/theories/Transform.v (as_min) and Samples.v (best, feasible ids, legacy fallbacks)"]
ASSUMPTIONS = ["finite objective values (total_cmp = numeric order)"]
PLANNED = []
SHARD = 300


def sv_group(rng, pairs):
    groups = {}
    for k, v in pairs:
        groups.setdefault(v, []).append(k)
    ents = [[f64(v), ks] for v, ks in groups.items()]
    rng.shuffle(ents)
    return ents


def best_case(rng, ids, fe, fr, sense, legacy, wire, drop_obj=None):
    vals = [rng.choice([-2.0, -0.5, 0.0, 0.5, 1.0, 3.0]) for _ in ids]
    pairs = [(k, v) for k, v in zip(ids, vals) if k != drop_obj]
    objs = [sv_group(rng, pairs)]
    m_fe = [[k, int(b)] for k, b in zip(ids, fe)]
    m_fr = [[k, int(b)] for k, b in zip(ids, fr)]
    if legacy:
        # 1.6.0 usage: `feasible` = feasibility w.r.t. remaining constraints, `feasible_unrelaxed` = all constraints
        inp = [objs, m_fr, [], m_fe, sense, int(wire)]
    else:
        inp = [objs, m_fe, m_fr, [], sense, int(wire)]
    return {"op": "best", "input": inp, "stream": "best/" + ("legacy" if legacy else "current")}


def gen(rng, tier):
    cases = []
    n = 120 if tier == "quick" else 1500
    for k in range(n):
        sense = rng.choice([1, 2, 1, 2, 0]) if rng.random() < 0.95 else rng.choice([1, 2])
        inst, info = GI.rand_instance(rng, sense=sense, allow_unset=(rng.random() < 0.05), rich=True)
        cases.append({"op": "as_min", "input": inst, "stream": "as_min/%d" % sense})
    m = 300 if tier == "quick" else 3000
    for k in range(m):
        nid = rng.randint(1, 8)
        ids = rng.sample(range(0, 40), nid)
        fe = [rng.random() < 0.5 for _ in ids]
        fr = [b or rng.random() < 0.4 for b in fe]     # feasible for all => feasible for remaining
        sense = rng.choice([1, 2, 1, 2, 0, 7])
        drop = rng.choice(ids) if rng.random() < 0.1 else None
        cases.append(best_case(rng, ids, fe, fr, sense, rng.random() < 0.4, rng.random() < 0.5, drop))
    if tier == "thorough":
        for nid in (1, 2, 3, 4):
            ids = list(range(10, 10 + nid))
            for fe in itertools.product([0, 1], repeat=nid):
                for fr in itertools.product([0, 1], repeat=nid):
                    for sense in (1, 2):
                        cases.append(best_case(rng, ids, fe, fr, sense, rng.random() < 0.5, True))
    return cases


def nontrivial(case):
    if case["op"] == "as_min":
        return case["input"][0] == 2
    return sum(len(e[1]) for e in case["input"][0][0]) >= 2 if case["input"][0] else False
