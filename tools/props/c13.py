"""C13 — integer-slack conversions preserve the feasible set."""
from fractions import Fraction
from common import f64
from gen import poly as G
from gen import inst as GI
from props.c16 import render_rat

PROP = "C13"
RUNNER = ("RunC13", "run_C13")
COQ_TARGETS = ["theories/RunC13.vo"]
AUTHORITY = ("C13_* (coq/props/C13.v): for every integer point of the box the inequality holds iff some integer slack inside the "
             "introduced bounds satisfies the new equality; always / never cases; rejections leave the instance unchanged; "
             "C13_convert_instance / C13_add_instance: the same equivalence through Instance::evaluate (same objective, state extended "
             "by the slack, other records identical, feasibility flags equivalent)")
RULE = ("an inequality f <= 0 of degree <= 2 over <= 3 integer / binary variables with small integer boxes, coefficients in three "
        "streams: integers, quarters (both exact in f64), rationals p/q with q <= 60 (the SDK gets the nearest f64, the model the "
        "intended fraction; functions then compared coefficient-wise within 2^-40, slack bounds exactly); among other constraints "
        "and variables; both conversions; limits max_integer_range small and large, slack upper bounds 1..8; rejections: unknown "
        "constraint id, equality constraint, a continuous variable in the constraint, range above the limit, infeasible "
        "(lower bound > 0), always satisfied (moved to removed). non-trivial = a slack variable was introduced")
TRUSTED = ["hand-written model coq/theories/Slack.v over Bound.v (C16) (tied by this correspondence only)"]
ASSUMPTIONS = ["bounded integer / binary variables; slack_upper_bound >= 1",
               "the SDK's float bound of a*f is within 1e-6 of the exact one (absorbed by as_integer_bound)"]
PLANNED = []
SHARD = 120
DENS = [1, 2, 3, 4, 5, 6, 8, 10, 12, 15, 20, 30, 60]


def coef(rng, stream):
    if stream == "int":
        return Fraction(rng.choice([-4, -3, -2, -1, 1, 2, 3, 4]))
    if stream == "quarter":
        return Fraction(rng.choice([-6, -5, -3, -2, -1, 1, 2, 3, 5, 6]), 4)
    return Fraction(rng.choice([-7, -5, -3, -2, -1, 1, 2, 3, 5, 7]), rng.choice(DENS))


def _unf64(t):
    import struct
    return struct.unpack("<d", struct.pack("<Q", t["f"]))[0]


def _imul(a, b):
    ps = [a[0] * b[0], a[0] * b[1], a[1] * b[0], a[1] * b[1]]
    return (min(ps), max(ps))


def _ipow(a, n):
    if n % 2 == 0 and a[0] < 0 < a[1]:
        return (Fraction(0), max(a[0] ** n, a[1] ** n))
    ps = [a[0] ** n, a[1] ** n]
    return (min(ps), max(ps))


def exact_interval_ends(mons, box):
    """end points of the interval of f over the box in exact rationals, computed both with naive products and with
    powers for repeated ids (whichever the SDK does): used only to keep the rational stream away from a decision that
    hinges on an end point being exactly 0, where the nearest-f64 coefficients decide differently than the fractions"""
    ends = []
    for powers in (False, True):
        lo = hi = Fraction(0)
        for m, c in mons:
            cur = (Fraction(1), Fraction(1))
            if powers:
                for i in sorted(set(m)):
                    cur = _imul(cur, _ipow(box[i], m.count(i)))
            else:
                for i in m:
                    cur = _imul(cur, box[i])
            t = _imul((c, c), cur)
            lo += t[0]
            hi += t[1]
        ends += [lo, hi]
    return ends


def slack_case(rng, stream):
    while True:
        out = _slack_case(rng, stream)
        if stream != "rational" or out[4]:
            return out[:4]


def _slack_case(rng, stream):
    nv = rng.randint(1, 3)
    ids = rng.sample(range(0, 9), nv)
    dvs = []
    for i in ids:
        if rng.random() < 0.35:
            dvs.append(GI.dv(i, 1, rng.choice([None, (0.0, 1.0)])))
        else:
            lo = rng.randint(-3, 2)
            if rng.random() < 0.12:
                dvs.append(GI.dv(i, 2, None))          # absent bound of an integer variable = unbounded
            else:
                dvs.append(GI.dv(i, 2, (float(lo), float(lo + rng.randint(0, 4)))))
    mons = {}
    for _ in range(rng.randint(1, 4)):
        d = rng.choice([1, 1, 2])
        m = tuple(sorted(rng.choice(ids) for _ in range(d)))
        mons[m] = coef(rng, stream)
    if rng.random() < 0.8:
        c0 = coef(rng, stream) * rng.choice([1, 2, 3, 6])
        mons[()] = c0
    box = {}
    unbounded = False
    for d in dvs:
        b = d[2][0] if d[2] else None
        if b is None and d[1] != 1:
            unbounded = True
            box[d[0]] = (Fraction(-10 ** 9), Fraction(10 ** 9))
            continue
        box[d[0]] = (Fraction(0), Fraction(1)) if b is None else (Fraction(_unf64(b[0])), Fraction(_unf64(b[1])))
    well_conditioned = all(e != 0 for e in exact_interval_ends(sorted(mons.items()), box))
    # un-normalised spellings (repeated ids in a linear part, repeated monomials of a polynomial) for the exact streams
    ft, qt = render_rat(rng, sorted(mons.items()), ids, split=0.35 if stream != "rational" else 0.0)
    if ft[0] == "unset":
        ft, qt = ["const", f64(0.0)], ["const", 0]
    cid = 7
    eq = 2
    fault = rng.random()
    tag = "normal"
    # a further variable that is not integer / binary (continuous, semi-integer, semi-continuous), with varying id: the
    # slack gets the id after the largest defined one, wherever that one is listed
    xid = rng.choice([20, 20, 9, 12, 1000, 2 ** 40 + 3])
    extra_dv = GI.dv(xid, rng.choice([3, 3, 4, 5]), (0.0, 5.0))
    if fault < 0.06:
        eq = 1
        tag = "equality"
    elif fault < 0.12 and ft[0] in ("lin", "poly"):
        # a continuous variable inside the constraint
        if ft[0] == "lin":
            ft[1][0].append([xid, f64(1.0)])
            qt[1][0].append([xid, 1])
        else:
            ft[1].append([[xid], f64(1.0)])
            qt[1].append([[xid], 1])
        tag = "continuous"
    elif fault < 0.12 and ft[0] == "quad":
        # a continuous variable inside a quadratic entry (whatever the linear part is, present or absent)
        ft[1][0].append(xid)
        ft[1][1].append(ids[0])
        ft[1][2].append(f64(1.0))
        qt[1][0].append(xid)
        qt[1][1].append(ids[0])
        qt[1][2].append(1)
        tag = "continuous"
    cons = [GI.constraint(3, 1, ["lin", [[[ids[0], f64(1.0)]], f64(0.0)]]), GI.constraint(cid, eq, ft, GI.meta(rng, "c"))]
    rng.shuffle(cons)
    if tag != "continuous" and rng.random() < 0.4:
        # the variable with the (usually) largest id is already FIXED (substituted_value, as partial_evaluate leaves it): it
        # still owns its id, the slack must get a new one
        extra_dv[3] = [f64(float(rng.randint(0, 5)))]
    all_dvs = dvs + [extra_dv]
    if rng.random() < 0.5:
        rng.shuffle(all_dvs)
    inst = [1, [["lin", [[[ids[0], f64(1.0)]], f64(0.0)]]], all_dvs, cons,
            [[[GI.constraint(11, 2, ["const", f64(-1.0)])], "old", []]] if rng.random() < 0.3 else [], [], [], [], []]
    target = cid if fault >= 0.18 or fault < 0.12 else 4242
    if target != cid:
        tag = "unknown-id"
    q = [qt] if stream == "rational" else []
    return inst, target, q, tag, well_conditioned


def pure_quadratic_cases(rng, n):
    """inequalities that are Quadratic messages WITHOUT linear part (c * x_a * x_b <= 0, as Quadratic::from_iter builds
    them and partial evaluation leaves them), over integer / binary variables or with one continuous factor"""
    out = []
    for _ in range(n):
        a, b, z = rng.sample(range(0, 9), 3)
        kb = rng.choice([2, 2, 1, 3, 3])
        dvs = [GI.dv(a, 2, (float(rng.randint(-2, 0)), float(rng.randint(1, 3)))),
               GI.dv(b, kb, (0.0, 1.0) if kb == 1 else (float(rng.randint(-2, 0)), float(rng.randint(0, 2)))),
               GI.dv(z, rng.choice([2, 3]), (0.0, 4.0))]
        rng.shuffle(dvs)
        rows, cols = ([a], [b]) if rng.random() < 0.5 else ([b], [a])
        vals = [f64(float(rng.choice([-2, -1, 1, 2, 3])))]
        if rng.random() < 0.3:
            rows.append(a)
            cols.append(a)
            vals.append(f64(float(rng.choice([-1, 1]))))
        ft = ["quad", [rows, cols, vals, []]]
        cons = [GI.constraint(7, 2, ft)]
        inst = [1, [["lin", [[[a, f64(1.0)]], f64(0.0)]]], dvs, cons, [], [], [], [], []]
        tag = "continuous" if kb == 3 else "normal"
        out.append({"op": "convert_slack", "input": [inst, 7, 100000, []], "stream": "convert/pure-quad/" + tag})
        out.append({"op": "add_slack", "input": [inst, 7, rng.choice([1, 2, 4, 3]), []], "stream": "add/pure-quad/" + tag})
    return out


def gen(rng, tier):
    n = 150 if tier == "quick" else 2500
    cases = pure_quadratic_cases(rng, 20 if tier == "quick" else 300)
    for k in range(n):
        stream = rng.choice(["int", "quarter", "rational"])
        inst, target, q, tag = slack_case(rng, stream)
        mx = rng.choice([100000, 100000, 3, 1, 2, 4, 5, 6, 8, 12, 24])
        cases.append({"op": "convert_slack", "input": [inst, target, mx, q], "stream": "convert/%s/%s" % (stream, tag)})
        ub = rng.choice([1, 2, 4, 8, 3, 5])
        # (an unbounded variable is outside the add-slack clause: the coefficient -L/U would be infinite; for the
        #  conversion it is the "slack range above the limit" rejection)
        if not any(d[1] == 2 and not d[2] for d in inst[2]):
            cases.append({"op": "add_slack", "input": [inst, target, ub, q], "stream": "add/%s/%s" % (stream, tag)})
    return cases


def nontrivial(case):
    return "normal" in case.get("stream", "")
