"""C19 — QPLIB files are read as the problem they describe.

Two-phase flow: Python generates abstract QP models + layouts + single faults (tools/gen/qplib.py);
Coq renders the text with the independent writer `QplibSpec.render_fault` (RunC19.render_C19);
the harness feeds that text to `ommx::qplib::load_file`; Coq (RunC19.run_C19) recomputes the
text, runs the model reader of Qplib.v on it and judges the SDK's instance against `meaning M`
and against the model reader (or the SDK's error against the expected line number / class)."""
import os
import sys
from concurrent.futures import ThreadPoolExecutor

import common as C
from gen import qplib as G

PROP = "C19"
RUNNER = ("RunC19", "run_C19")
COQ_TARGETS = ["theories/RunC19.vo", "theories/QplibProofs.vo"]
SHARD = 60
AUTHORITY = ("C19_load_render_all (load (render ly M) = meaning M for every well-formed M and layout) / C19_objective / C19_constraint_sides / C19_infinity / C19_var_types / C19_errors "
             "(coq/props/C19.v) about the reader model coq/theories/Qplib.v; the expected instance is "
             "`meaning M` of the independent spec coq/theories/QplibSpec.v, checked equal to the model "
             "reader's result on every rendered text")
RULE = ("abstract QP models with <= 5 variables and <= 4 constraints for every one of the 120 type codes "
        "(objective L/D/C/Q x variables C/B/M/I/G x constraints N/B/L/D/C/Q), defaults and non-default "
        "entries, explicit zeros, diagonal and off-diagonal Q entries, sides / bounds at, beyond and below "
        "the infinity threshold (several thresholds, literal inf), integer variables with [0,1]/[1,1]/[0,0] "
        "bounds, names; rendered by QplibSpec.render in plain and rich layouts (comment and blank lines, "
        "indentation, TAB separators, trailing text, six number styles, lower-case codes); error stream: one "
        "fault per class (type code, sense word, count, index, number, variable type, premature EOF) at a "
        "random position. non-trivial = loaded instance with >= 1 variable and a non-constant objective or "
        ">= 1 constraint, or an error case; distinct by rendered text")
TRUSTED = ["hand-written model coq/theories/Qplib.v of qplib/parser.rs and qplib/convert.rs (tied to the code by "
           "this correspondence only)",
           "harness glue: lines joined with '\\n' into a temp file; line number and error class read from the "
           "Display string of the anyhow error (the only place the API exposes them)",
           "f64 -> exact rational decoding in Num.v (f64_of_bits); decimal literal -> exact rational in Qplib.v"]
ASSUMPTIONS = ["every generated literal denotes a binary64 exactly (small dyadics, or m*10^e with m*5^e < 2^53), so "
               "Rust's correctly rounded f64 reader returns the exact value the model computes",
               "whitespace is ASCII (space, TAB); fields of entry lines are separated by exactly one separator "
               "(the reader rejects runs of separators; an observation outside the property, see VERIF_C19_PROBE=1)",
               "negative counts (-1, -3, -0) are part of the count fault words at every count position since the "
               "/repo fix 'QPLIB section counts are parsed as unsigned'; indices 0 / beyond the declared size, entry "
               "lines with too few fields and four-letter type codes are outside the letter of the property: probed "
               "(VERIF_C19_PROBE=1), recorded as observations, never asserted by the passing check",
               "HashMap iteration order is not observable: functions are compared as polynomials, variables and "
               "constraints by id"]
PLANNED = []   # C19_load_render_all (Tier B) is proved: coq/theories/QplibRoundTrip.v
PER_CASE_TIMEOUT = 20.0


def _render(specs, tag):
    """phase 1: Coq renders the texts (sharded over parallel coqc)"""
    size = 60
    shards = [specs[i:i + size] for i in range(0, len(specs), size)]

    def one(args):
        k, sh = args
        body = "Require Import Ommx.RunC19.\nDefinition specs : list tree := [\n" + \
               ";\n".join(C.to_coq(s) for s in sh) + "\n].\n"
        return C.eval_in_coq(["Ommx.RunC19"], "map render_C19 specs", body, "%s_%d" % (tag, k))

    with ThreadPoolExecutor(max_workers=C.NPROC) as ex:
        outs = list(ex.map(one, list(enumerate(shards))))
    texts = [t for o in outs for t in o]
    if len(texts) != len(specs):
        raise RuntimeError("render count mismatch")
    return texts


def make_specs(rng, tier):
    specs = []
    reps = 1 if tier == "quick" else 12
    for _ in range(reps):
        for code in G.ALL_CODES:
            M = G.model(rng, code)
            specs.append(([M, G.layout(rng, M, rich=False), ["none"]], "plain/" + code[2]))
            specs.append(([M, G.layout(rng, M, rich=True), ["none"]], "rich/" + code[2]))
            M2 = G.model(rng, code)
            specs.append(([M2, G.layout(rng, M2, rich=True), ["none"]], "rich/" + code[2]))
    nerr = 420 if tier == "quick" else 6000
    k = 0
    while k < nerr:
        code = rng.choice(G.ALL_CODES)
        M = G.model(rng, code)
        ly = G.layout(rng, M, rich=rng.random() < 0.8)
        for cls in G.fault_classes(M):
            specs.append(([M, ly, G.fault(rng, M, cls)], "fault/" + cls))
            k += 1
    return specs


def gen(rng, tier):
    specs = make_specs(rng, tier)
    texts = _render([s for s, _ in specs], "render_C19")
    cases = []
    for (spec, stream), text in zip(specs, texts):
        if not (isinstance(text, list) and all(isinstance(x, str) for x in text)):
            print("MACHINERY ERROR: render_C19 rejected a generated spec: %r" % (text,))
            sys.exit(2)
        cases.append({"op": "qplib_load", "input": [spec, text], "stream": stream})
    return cases


def nontrivial(case):
    spec, text = case["input"]
    M, _, f = spec
    if f[0] != "none":
        return True
    return M[5] >= 1 and (len(M[7]) + len(M[9]) + len(M[12]) > 0)


def probe(seed):
    """VERIF_C19_PROBE=1: inputs outside the passing check (see gen/qplib.py PROBES); prints, per
    class, how the model reader (what the property would ask) and the SDK answer. Exit 0."""
    import json
    import random
    rng = random.Random(seed)
    ok, out, _ = C.build_harness()
    if not ok:
        print(out[-2000:])
        return 2
    specs = G.probe_specs(rng)
    texts = _render([s for _, s, _ in specs], "probe_C19")
    cases = []
    for (cls, spec, how), text in zip(specs, texts):
        line = None
        if how is not None:
            r = G.mutate_text(rng, text, how)
            if r is None:
                continue
            text, line = r
        cases.append({"cls": cls, "text": text, "line": line})
    res = C.run_harness([["qplib_load_text", c["text"]] for c in cases])
    trees = [["qplib_load_text", c["text"], r] for c, r in zip(cases, res)]
    verdicts = C.run_in_coq(PROP, "RunC19", "run_C19_text", trees, shard_size=60, tag="probe")
    summary = {}
    for c, r, v in zip(cases, res, verdicts):
        sdk = r[0] if r[0] != "err" else "err(line %s, %s)" % (r[3], r[4])
        if r[0] == "panic":
            sdk = "panic: " + r[1]
        model = "model=" + (json.dumps(C.pretty_num(v[2]))[:60] if v[0] == "disagree" else "same-as-sdk")
        key = (c["cls"], v[0], sdk if r[0] != "err" else "err", model if v[0] != "disagree" or v[2][0] != "err" else "model=err")
        e = summary.setdefault(key, [0, c, r, v])
        e[0] += 1
    for (cls, verdict, sdk, model), (n, c, r, v) in sorted(summary.items()):
        print("PROBE class=%s n=%d verdict=%s sdk=%s %s" % (cls, n, verdict, sdk, model))
        print("   example text (mutated line %s): %s" % (c["line"], json.dumps(c["text"])[:400]))
        print("   sdk: %s" % json.dumps(C.pretty_num(r))[:200])
        if v[0] == "disagree":
            print("   model expects: %s (%s)" % (json.dumps(C.pretty_num(v[2]))[:200], v[1]))
    return 0


def main(tier, seed, replay):
    import time
    import check
    t0 = time.time()
    os.makedirs(os.path.join(C.CACHE, "tmp"), exist_ok=True)
    if os.environ.get("VERIF_C19_PROBE"):
        return probe(seed)
    return check.generic_main(sys.modules[__name__], tier, seed, replay, t0)
