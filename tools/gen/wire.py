"""C07 generators and glue, all driven by the schema IR that tools/translate_schema.py reads from
/repo's .proto files:

  * dynamic values for any message type (tree form understood by RunC07.d_value):
      ["u", n] uint64 | ["i", z] int64 | ["b", 0/1] | ["d", bits] double | ["s", hex] string/bytes |
      ["e", z] enum | ["m", [[number, value], ...]] message | ["l", [values]] repeated |
      ["p", [[key, value], ...]] map
  * protobuf text format printer (input of `protoc --encode`), by proto field NAME
  * reader of prost's `{:?}` rendering and the field-by-field content bridge (by proto field NAME)
"""
import re
import struct

NAN = 0x7FF8000000000000
U64 = [0, 1, 127, 128, 300, 16383, 16384, (1 << 32) - 1, 1 << 32, (1 << 62), (1 << 63) - 1, 1 << 63, (1 << 64) - 1]
I64 = [0, 1, -1, 63, 64, -64, -65, (1 << 31), -(1 << 31) - 1, (1 << 63) - 1, -(1 << 63)]
F64 = [0, 1 << 63, NAN, 0x7FF0000000000000, 0xFFF0000000000000, 0x3FF8000000000000, 0xBFF0000000000000,
       1, 0x7FEFFFFFFFFFFFFF, 0x0010000000000000, 0x7FF0000000000001, 0xFFF8000000000123, 0x3FB999999999999A]
STR = ["", "a", "x[1,2]", "h\u00e9llo \u2713 \U0001F600", "tab\there\nnl\"q'\\", "\x00\x01\x7f", "k" * 200]
ENUM_EXTRA = [7, -1, 100, (1 << 31) - 1, -(1 << 31)]


def hexs(b):
    return b.hex()


MODEL_SCALARS = {"uint64", "int64", "double", "bool", "string", "bytes"}
MODEL_KEYS = {"uint64", "int64", "bool", "string"}


def supported_field(f):
    if f["ty"][0] == "s" and f["ty"][1] not in MODEL_SCALARS:
        return False
    if f["card"][0] == "map" and f["card"][1] not in MODEL_KEYS:
        return False
    return True


class Gen:
    def __init__(self, rng, ir):
        self.rng = rng
        self.ir = ir
        self.cov_type = {}          # message type -> number of values generated
        self.cov_field = {}         # (type, field number) -> [set, unset]
        self.cov_enum = {}          # (enum, number) -> count
        self.cov_oneof = {}         # (type, group, arm | None) -> count

    # ---- leaves -------------------------------------------------------------------------
    def leaf(self, ty, plain=False):
        r = self.rng
        if ty[0] == "e":
            vals = [v[1] for v in self.ir["enums"][ty[1]]["values"]]
            z = r.choice(vals) if (plain or r.random() < 0.8) else r.choice(ENUM_EXTRA)
            self.cov_enum[(ty[1], z)] = self.cov_enum.get((ty[1], z), 0) + 1
            return ["e", z]
        k = ty[1]
        if k == "uint64":
            return ["u", r.choice(U64) if r.random() < 0.6 else r.getrandbits(r.choice([7, 14, 33, 64]))]
        if k == "int64":
            return ["i", r.choice(I64) if r.random() < 0.6 else r.getrandbits(r.choice([6, 20, 62])) * r.choice([1, -1])]
        if k == "double":
            if plain:
                return ["d", struct.unpack("<Q", struct.pack("<d", r.randint(-8, 8) / 4))[0]]
            return ["d", r.choice(F64) if r.random() < 0.6 else r.getrandbits(64)]
        if k == "bool":
            return ["b", r.randint(0, 1)]
        if k in ("string", "bytes"):
            s = r.choice(STR) if r.random() < 0.7 else "".join(r.choice("abcXYZ_09 ") for _ in range(r.randint(1, 12)))
            return ["s", hexs(s.encode("utf-8"))]
        raise ValueError("generator: scalar kind %s is not used by the schema" % k)

    def key(self, kind, used):
        r = self.rng
        for _ in range(50):
            if kind == "uint64":
                k = ["u", r.choice([0, 1, 2, 3, 128, (1 << 64) - 1, r.getrandbits(40)])]
            elif kind == "int64":
                k = ["i", r.choice([0, 1, -1, 5, -(1 << 63)])]
            elif kind == "bool":
                k = ["b", r.randint(0, 1)]
            elif kind == "string":
                k = ["s", hexs(r.choice(["", "a", "b", "key", "\u00e9", "k%d" % r.randint(0, 99)]).encode())]
            else:
                raise ValueError("generator: map key kind %s is not used by the schema" % kind)
            if repr(k) not in used:
                used.add(repr(k))
                return k
        return None

    # ---- messages -----------------------------------------------------------------------
    def msg(self, tname, depth=0, profile="random", focus=None, budget=None):
        """profile: random | all | none | sparse;  focus = set of field numbers that must be set"""
        r = self.rng
        if budget is None:
            budget = [60]
        budget[0] -= 1
        desc = self.ir["messages"][tname]
        self.cov_type[tname] = self.cov_type.get(tname, 0) + 1
        p_set = {"random": 0.6, "all": 1.0, "none": 0.0, "sparse": 0.25}[profile]
        if depth >= 3 and profile == "random":
            p_set = 0.35
        if budget[0] <= 0 and profile != "all":
            p_set = min(p_set, 0.15)
        groups = {}
        for f in desc["fields"]:
            if f["card"][0] == "oneof":
                groups.setdefault(f["card"][1], []).append(f)
        chosen = {}
        for g, arms in groups.items():
            if focus and any(a["num"] in focus for a in arms):
                chosen[g] = [a for a in arms if a["num"] in focus][0]["num"]
            elif r.random() < max(p_set, 0.1) + 0.25 and profile != "none":
                chosen[g] = r.choice(arms)["num"]
            else:
                chosen[g] = None
            self.cov_oneof[(tname, g, chosen[g])] = self.cov_oneof.get((tname, g, chosen[g]), 0) + 1
        fields = []
        for f in desc["fields"]:
            c = f["card"]
            if c[0] == "oneof":
                on = chosen[c[1]] == f["num"]
            else:
                on = (focus is not None and f["num"] in focus) or r.random() < p_set
            if not supported_field(f):
                # a scalar kind outside the codec model (the `schema_supported` obligation fails and is
                # reported): never set, so that the rest of the message is still exercised
                on = False
            cv = self.cov_field.setdefault((tname, f["num"]), [0, 0])
            cv[0 if on else 1] += 1
            if not on:
                continue
            sub_profile = profile if profile in ("all", "none") and depth < 1 else "random"
            if profile == "all" and depth >= 1:
                sub_profile = "random"

            def one(ty):
                if ty[0] == "m":
                    return self.msg(ty[1], depth + 1, sub_profile, None, budget)
                return self.leaf(ty)

            if c[0] in ("implicit", "optional", "oneof"):
                fields.append([f["num"], one(f["ty"])])
            elif c[0] == "repeated":
                hi = 3 if f["ty"][0] == "m" and (depth >= 1 or budget[0] < 20) else 5
                n = r.choice([0, 1, 1, 2, hi])
                if f["ty"][0] == "m" and budget[0] <= 0:
                    n = min(n, 1)
                fields.append([f["num"], ["l", [one(f["ty"]) for _ in range(n)]]])
            else:
                n = r.choice([0, 1, 2, 3])
                used = set()
                kvs = []
                for _ in range(n):
                    k = self.key(c[1], used)
                    if k is None:
                        break
                    kvs.append([k, one(f["ty"])])
                fields.append([f["num"], ["p", kvs]])
        return ["m", fields]

    def add_unknown(self, v, tname):
        """inject unknown-field carriers at the top level and (sometimes) one level down"""
        r = self.rng
        desc = self.ir["messages"][tname]
        known = {f["num"] for f in desc["fields"]}
        present = {nv[0] for nv in v[1]}
        pool = [n for n in (15, 16, 17, 99, 1000, 2047, 2048, 18999, 20000, (1 << 29) - 1) if n not in known and n not in present]
        out = list(v[1])
        for n in r.sample(pool, r.randint(1, 2)):
            carrier = r.choice([["u", r.choice(U64)], ["d", r.getrandbits(64)], ["s", hexs(b"\x08\x96\x01unknown")],
                                ["s", ""], ["b", r.randint(0, 1)]])
            out.insert(r.randint(0, len(out)), [n, carrier])
        # nested: first singular message field
        for i, nv in enumerate(out):
            f = next((f for f in desc["fields"] if f["num"] == nv[0]), None)
            if f is not None and f["ty"][0] == "m" and f["card"][0] in ("optional", "oneof") and r.random() < 0.5:
                out[i] = [nv[0], self.add_unknown(nv[1], f["ty"][1])]
                break
        return ["m", out]


def shuffle_fields(rng, v):
    if v[0] == "m":
        fs = [[n, shuffle_fields(rng, x)] for n, x in v[1]]
        rng.shuffle(fs)
        return ["m", fs]
    if v[0] == "l":
        return ["l", [shuffle_fields(rng, x) for x in v[1]]]
    if v[0] == "p":
        return ["p", [[k, shuffle_fields(rng, x)] for k, x in v[1]]]
    return v


def walk(v):
    yield v
    if v[0] == "m":
        for _, x in v[1]:
            yield from walk(x)
    elif v[0] == "l":
        for x in v[1]:
            yield from walk(x)
    elif v[0] == "p":
        for k, x in v[1]:
            yield from walk(k)
            yield from walk(x)


def is_nan_bits(b):
    return (b >> 52) & 0x7FF == 0x7FF and b & ((1 << 52) - 1) != 0


# ======================================================================================
# protobuf text format (by proto field NAME; unknown-field carriers cannot be expressed)


def text_ok(v, ir, tname):
    """expressible in text format: no unknown carriers, NaNs only canonical"""
    desc = ir["messages"][tname]
    by = {f["num"]: f for f in desc["fields"]}
    for n, x in v[1]:
        f = by.get(n)
        if f is None:
            return False
        items = [x] if x[0] not in ("l", "p") else ([e for e in x[1]] if x[0] == "l" else [e[1] for e in x[1]])
        for e in items:
            if e[0] == "d" and is_nan_bits(e[1]) and e[1] != NAN:
                return False
            if e[0] == "m" and not text_ok(e, ir, f["ty"][1]):
                return False
    return True


def t_str(hexstr):
    out = []
    for b in bytes.fromhex(hexstr):
        if b in (0x22, 0x5C, 0x27) or b < 32 or b >= 127:
            out.append("\\%03o" % b)
        else:
            out.append(chr(b))
    return '"' + "".join(out) + '"'


def t_leaf(x, ir, ty):
    k = x[0]
    if k in ("u", "i"):
        return str(x[1])
    if k == "b":
        return "true" if x[1] else "false"
    if k == "s":
        return t_str(x[1])
    if k == "e":
        for nm, num, disp in ir["enums"][ty[1]]["values"]:
            if num == x[1]:
                return disp
        return str(x[1])
    if k == "d":
        b = x[1]
        if is_nan_bits(b):
            return "nan"
        f = struct.unpack("<d", struct.pack("<Q", b))[0]
        if f == float("inf"):
            return "inf"
        if f == float("-inf"):
            return "-inf"
        return repr(f)
    raise ValueError(k)


def to_text(v, ir, tname, ind=0):
    desc = ir["messages"][tname]
    by = {f["num"]: f for f in desc["fields"]}
    pad = " " * ind
    lines = []
    for n, x in v[1]:
        f = by[n]
        name = f["display"]

        def item(e, ty):
            if ty[0] == "m":
                return ["%s%s {" % (pad, name)] + to_text(e, ir, ty[1], ind + 2) + ["%s}" % pad]
            return ["%s%s: %s" % (pad, name, t_leaf(e, ir, ty))]

        c = f["card"][0]
        if c == "repeated":
            for e in x[1]:
                lines += item(e, f["ty"])
        elif c == "map":
            for k, e in x[1]:
                lines.append("%s%s {" % (pad, name))
                lines.append("%s  key: %s" % (pad, t_leaf(k, ir, ("s", f["card"][1]))))
                if f["ty"][0] == "m":
                    lines += ["%s  value {" % pad] + to_text(e, ir, f["ty"][1], ind + 4) + ["%s  }" % pad]
                else:
                    lines.append("%s  value: %s" % (pad, t_leaf(e, ir, f["ty"])))
                lines.append("%s}" % pad)
        else:
            lines += item(x, f["ty"])
    return lines


# ======================================================================================
# prost `{:?}` reader


DBG_TOK = re.compile(r'\s*(?:("(?:\\.|[^"\\])*")|([A-Za-z_][A-Za-z0-9_]*)|(-?(?:\d+\.?\d*(?:e-?\d+)?|inf)|NaN)|([{}\[\](),:]))')


def rust_unescape(s):
    out = []
    i = 0
    n = len(s)
    while i < n:
        c = s[i]
        if c != "\\":
            out.append(c)
            i += 1
            continue
        d = s[i + 1]
        i += 2
        if d == "n":
            out.append("\n")
        elif d == "r":
            out.append("\r")
        elif d == "t":
            out.append("\t")
        elif d == "0":
            out.append("\0")
        elif d in "\\\"'":
            out.append(d)
        elif d == "x":
            out.append(chr(int(s[i:i + 2], 16)))
            i += 2
        elif d == "u":
            j = s.index("}", i)
            out.append(chr(int(s[i + 1:j], 16)))
            i = j + 1
        else:
            raise ValueError("unknown escape \\%s" % d)
    return "".join(out)


def parse_debug(text):
    """-> ('struct', name, {field: v}) | ('variant', name, v) | ('name', ident) | ('num', text) |
          ('str', s) | ('list', [v]) | ('map', [(k, v)])"""
    toks = []
    pos = 0
    while pos < len(text):
        if text[pos:].strip() == "":
            break
        m = DBG_TOK.match(text, pos)
        if not m:
            raise ValueError("debug: cannot tokenise at %r" % text[pos:pos + 40])
        pos = m.end()
        if m.group(1) is not None:
            toks.append(("str", rust_unescape(m.group(1)[1:-1])))
        elif m.group(3) is not None:
            toks.append(("num", m.group(3)))
        elif m.group(2) is not None:
            toks.append(("id", m.group(2)))
        else:
            toks.append((m.group(4), None))
    i = [0]

    def peek():
        return toks[i[0]] if i[0] < len(toks) else (None, None)

    def nxt():
        t = peek()
        i[0] += 1
        return t

    def expect(k):
        t = nxt()
        if t[0] != k:
            raise ValueError("debug: expected %r got %r" % (k, t))
        return t

    def val():
        k, v = nxt()
        if k == "str":
            return ("str", v)
        if k == "num":
            return ("num", v)
        if k == "[":
            out = []
            while peek()[0] != "]":
                out.append(val())
                if peek()[0] == ",":
                    nxt()
            nxt()
            return ("list", out)
        if k == "{":
            out = []
            while peek()[0] != "}":
                kk = val()
                expect(":")
                out.append((kk, val()))
                if peek()[0] == ",":
                    nxt()
            nxt()
            return ("map", out)
        if k == "id":
            if v in ("inf", "NaN"):
                return ("num", v)
            if peek()[0] == "{":
                nxt()
                fs = {}
                while peek()[0] != "}":
                    fn = expect("id")[1]
                    expect(":")
                    fs[fn] = val()
                    if peek()[0] == ",":
                        nxt()
                nxt()
                return ("struct", v, fs)
            if peek()[0] == "(":
                nxt()
                x = val()
                expect(")")
                return ("variant", v, x)
            return ("name", v)
        raise ValueError("debug: unexpected token %r" % ((k, v),))

    r = val()
    if peek()[0] is not None:
        raise ValueError("debug: trailing tokens")
    return r


def nrm(s):
    return s.replace("_", "").lower()


def bridge(dbg, v, ir, tname, path=""):
    """compare prost's Debug tree with the dynamic value, field by field, by proto field name.
    returns list of difference strings (empty = same content)"""
    diffs = []
    desc = ir["messages"][tname]
    if dbg[0] == "name":            # a struct without fields renders as its bare name
        dbg = ("struct", dbg[1], {})
    if dbg[0] != "struct":
        return ["%s: expected a struct rendering, got %r" % (path or tname, dbg[0])]
    if nrm(dbg[1]) != tname.split(".")[-1]:
        diffs.append("%s: struct is called %s, schema says %s" % (path or tname, dbg[1], desc["display"]))
    have = {n: x for n, x in v[1]}
    names = {}
    groups = {}
    for f in desc["fields"]:
        if f["card"][0] == "oneof":
            groups.setdefault(f["card"][1], []).append(f)
        else:
            names[f["display"]] = f
    dbg_fields = {(k[2:] if k.startswith("r#") else k): x for k, x in dbg[2].items()}
    for k in dbg_fields:
        if k not in names and nrm(k) not in groups:
            diffs.append("%s.%s: field of the Rust struct is not in the schema" % (path or tname, k))

    def leaf_eq(d, x, ty, where):
        k = x[0]
        if k in ("u", "i"):
            if d[0] != "num" or not re.fullmatch(r"-?\d+", d[1]) or int(d[1]) != x[1]:
                diffs.append("%s: Rust has %r, value is %d" % (where, d[1:], x[1]))
        elif k == "b":
            if d != ("name", "true" if x[1] else "false"):
                diffs.append("%s: Rust has %r, value is %r" % (where, d[1:], bool(x[1])))
        elif k == "s":
            if d[0] != "str" or d[1].encode("utf-8") != bytes.fromhex(x[1]):
                diffs.append("%s: Rust has %r, value is %r" % (where, d[1:], bytes.fromhex(x[1])))
        elif k == "d":
            if d[0] != "num":
                diffs.append("%s: Rust has %r, value is a double" % (where, d))
            elif is_nan_bits(x[1]):
                if d[1] != "NaN":
                    diffs.append("%s: Rust has %s, value is NaN" % (where, d[1]))
            else:
                try:
                    b = struct.unpack("<Q", struct.pack("<d", float(d[1])))[0]
                except ValueError:
                    b = None
                if b != x[1]:
                    diffs.append("%s: Rust has %s, value has bits %#x" % (where, d[1], x[1]))
        elif k == "e":
            vals = ir["enums"][ty[1]]["values"]
            known = [nm for nm, num, disp in vals if num == x[1]]
            simple = ty[1].split(".")[-1]
            if known:
                if d[0] != "name" or not any(nrm(d[1]) == nm or simple + nrm(d[1]) == nm for nm in known):
                    diffs.append("%s: Rust shows %r for enum number %d, schema names it %s"
                                 % (where, d[1], x[1], known))
            else:
                if d[0] != "num" or int(d[1]) != x[1]:
                    diffs.append("%s: Rust shows %r for the unknown enum number %d" % (where, d[1:], x[1]))
        else:
            diffs.append("%s: unexpected value kind %s" % (where, k))

    def item_eq(d, x, ty, where):
        if ty[0] == "m":
            diffs.extend(bridge(d, x, ir, ty[1], where))
        else:
            leaf_eq(d, x, ty, where)

    def default_leaf(ty):
        if ty[0] == "e":
            return ["e", 0]
        return {"uint64": ["u", 0], "int64": ["i", 0], "double": ["d", 0], "bool": ["b", 0],
                "string": ["s", ""], "bytes": ["s", ""]}[ty[1]]

    for name, f in names.items():
        where = "%s.%s" % (path or tname, name)
        if not supported_field(f):
            continue      # kind outside the codec model: never generated, not compared
        if name not in dbg_fields:
            diffs.append("%s: missing from the Rust struct" % where)
            continue
        d = dbg_fields[name]
        x = have.get(f["num"])
        c = f["card"][0]
        if c == "implicit":
            leaf_eq(d, x if x is not None else default_leaf(f["ty"]), f["ty"], where)
        elif c == "optional":
            if x is None:
                if d != ("name", "None"):
                    diffs.append("%s: Rust has %r, value is absent" % (where, d[:2]))
            elif d[0] != "variant" or d[1] != "Some":
                diffs.append("%s: Rust has %r, value is present" % (where, d[:2]))
            else:
                item_eq(d[2], x, f["ty"], where)
        elif c == "repeated":
            xs = x[1] if x is not None else []
            if d[0] != "list" or len(d[1]) != len(xs):
                diffs.append("%s: Rust has %s elements, value has %d" % (where, len(d[1]) if d[0] == "list" else d[0], len(xs)))
            else:
                for j, (dd, xx) in enumerate(zip(d[1], xs)):
                    item_eq(dd, xx, f["ty"], "%s[%d]" % (where, j))
        else:
            kvs = x[1] if x is not None else []
            if d[0] != "map" or len(d[1]) != len(kvs):
                diffs.append("%s: Rust has %s entries, value has %d" % (where, len(d[1]) if d[0] == "map" else d[0], len(kvs)))
            else:
                for kk, xx in kvs:
                    hit = None
                    for dk, dv in d[1]:
                        sub = []
                        save = diffs[:]
                        del diffs[:]
                        leaf_eq(dk, kk, ("s", f["card"][1]), where)
                        ok = not diffs
                        del diffs[:]
                        diffs.extend(save)
                        if ok:
                            hit = dv
                            break
                    if hit is None:
                        diffs.append("%s: key %r missing in Rust" % (where, kk))
                    else:
                        item_eq(hit, xx, f["ty"], "%s[%r]" % (where, kk[1]))
    for g, arms in groups.items():
        where = "%s.%s" % (path or tname, g)
        d = None
        for k, x in dbg_fields.items():
            if nrm(k) == g:
                d = x
        if d is None:
            diffs.append("%s: oneof missing from the Rust struct" % where)
            continue
        on = [a for a in arms if a["num"] in have]
        if not on:
            if d != ("name", "None"):
                diffs.append("%s: Rust has %r, no arm is set" % (where, d[:2]))
            continue
        arm = on[-1]
        if d[0] != "variant" or d[1] != "Some" or d[2][0] != "variant":
            diffs.append("%s: Rust has %r, arm %s is set" % (where, d[:2], arm["display"]))
        elif nrm(d[2][1]) != arm["name"]:
            diffs.append("%s: Rust shows arm %s, value sets %s" % (where, d[2][1], arm["display"]))
        else:
            item_eq(d[2][2], have[arm["num"]], arm["ty"], where)
    return diffs
