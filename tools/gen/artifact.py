"""Generators for C20: sequences of 0..6 add operations over the four layer kinds, small
messages of every kind (every field of the message exercised somewhere), annotation setter
lists including the typed accessors, user keys, overwrites, and the labelled special streams
(duplicate blobs, empty messages, non-OMMX archives, comma / empty author names)."""
from common import f64
from gen import poly as G

KINDS = ["instance", "parametric_instance", "solution", "sample_set"]
OMMX_TYPE = "application/org.ommx.v1.artifact"

WORDS = ["knapsack", "x", "y[1]", "Jij Inc.", "MIPLIB 2017", "a b", "q\"uote", "back\\slash", "café",
         "日本", "co:lon", "semi;colon", "{json}", "tab\there", "0", "-1", "CC-BY-4.0", "MIT", "",
         " lead", "trail ", "  both  ", "new\nline", " "]
NAMES = ["Alice", "Bob B.", "C. Carol", "d@e.org", "山田", "O'Neil", "x"]


def word(rng):
    return rng.choice(WORDS)


def optional(rng, make, p=0.5):
    return [make()] if rng.random() < p else []


def strmap(rng, maxn=2):
    keys = rng.sample(["k", "key two", "a.b", "ü"], rng.randint(0, maxn))
    return [[k, word(rng)] for k in sorted(keys)]


def rand_function(rng, pool):
    p = G.rand_poly(rng, pool, max_deg=rng.choice([0, 1, 1, 2, 3]), max_terms=4)
    return G.render(rng, p, pool)


def rand_bound(rng):
    lo = rng.choice([0.0, -1.0, -2.5, float("-inf"), 1.0])
    hi = rng.choice([1.0, 3.0, 7.5, float("inf"), 1.0])
    return [f64(lo), f64(hi)]


def rand_dv(rng, i):
    return [i, rng.choice([0, 1, 2, 3, 4, 5]), optional(rng, lambda: rand_bound(rng), 0.7),
            optional(rng, lambda: f64(G.dyadic(rng)), 0.15), optional(rng, lambda: word(rng), 0.5),
            [rng.randint(-3, 9) for _ in range(rng.randint(0, 2))], strmap(rng), optional(rng, lambda: word(rng), 0.2)]


def rand_constraint(rng, i, pool):
    return [i, rng.choice([1, 2, 0]), optional(rng, lambda: rand_function(rng, pool), 0.9),
            optional(rng, lambda: word(rng), 0.5), [rng.randint(0, 5) for _ in range(rng.randint(0, 2))],
            strmap(rng), optional(rng, lambda: word(rng), 0.2)]


def rand_description(rng):
    return [optional(rng, lambda: word(rng)), optional(rng, lambda: word(rng)),
            [rng.choice(NAMES) for _ in range(rng.randint(0, 2))], optional(rng, lambda: word(rng), 0.3)]


def rand_hints(rng, pool):
    oh = [[rng.randint(0, 4), sorted(rng.sample(pool, min(len(pool), rng.randint(0, 3))))]
          for _ in range(rng.randint(0, 2))]
    sos = [[rng.randint(0, 4), [rng.randint(0, 4) for _ in range(rng.randint(0, 2))],
            sorted(rng.sample(pool, min(len(pool), rng.randint(0, 3))))] for _ in range(rng.randint(0, 1))]
    return [oh, sos]


def rand_instance(rng, tiny=False):
    if tiny:
        return [0, [], [], [], [], [], [], [], []]
    pool = G.ids_pool(rng, rng.randint(1, 4))
    dvs = [rand_dv(rng, i) for i in pool]
    cons = [rand_constraint(rng, c, pool) for c in sorted(rng.sample(range(8), rng.randint(0, 2)))]
    removed = [[optional(rng, lambda: rand_constraint(rng, 10 + k, pool), 0.9), word(rng), strmap(rng, 1)]
               for k in range(rng.randint(0, 1))]
    deps = [[i, rand_function(rng, pool)] for i in sorted(rng.sample(pool, rng.randint(0, 1)))]
    params = optional(rng, lambda: [[i, f64(G.dyadic(rng))] for i in sorted(rng.sample(range(20, 26), rng.randint(0, 2)))], 0.2)
    return [rng.choice([0, 1, 2]), optional(rng, lambda: rand_function(rng, pool), 0.9), dvs, cons, removed, deps,
            params, optional(rng, lambda: rand_hints(rng, pool), 0.3), optional(rng, lambda: rand_description(rng), 0.4)]


def rand_parametric(rng, tiny=False):
    if tiny:
        return [0, [], [], [], [], [], [], [], []]
    pool = G.ids_pool(rng, rng.randint(1, 4))
    dvs = [rand_dv(rng, i) for i in pool[: max(1, len(pool) - 1)]]
    ps = [[i, optional(rng, lambda: word(rng)), [rng.randint(0, 3) for _ in range(rng.randint(0, 2))], strmap(rng, 1),
           optional(rng, lambda: word(rng), 0.2)] for i in pool[max(1, len(pool) - 1):]]
    cons = [rand_constraint(rng, c, pool) for c in sorted(rng.sample(range(8), rng.randint(0, 2)))]
    removed = [[optional(rng, lambda: rand_constraint(rng, 10 + k, pool), 0.9), word(rng), strmap(rng, 1)]
               for k in range(rng.randint(0, 1))]
    deps = [[i, rand_function(rng, pool)] for i in sorted(rng.sample(pool, rng.randint(0, 1)))]
    return [rng.choice([0, 1, 2]), optional(rng, lambda: rand_function(rng, pool), 0.9), dvs, ps, cons, removed, deps,
            optional(rng, lambda: rand_hints(rng, pool), 0.3), optional(rng, lambda: rand_description(rng), 0.4)]


def rand_state(rng, tiny=False):
    if tiny:
        return []
    ids = sorted(set(rng.choice([0, 1, 2, 3, 5, 8, 2 ** 40 + 1, 2 ** 63 + 5]) for _ in range(rng.randint(1, 5))))
    vals = [0.0, 1.0, -1.0, 0.5, 2.0 ** 60, -0.0, float("inf"), 1e-300, 3.25]
    return [[i, f64(rng.choice(vals))] for i in ids]


def sampled_values(rng, sample_ids):
    # compressed: groups of sample ids sharing a value
    ids = list(sample_ids)
    rng.shuffle(ids)
    out = []
    while ids:
        n = rng.randint(1, len(ids))
        out.append([f64(G.dyadic(rng)), sorted(ids[:n])])
        ids = ids[n:]
    return out


def boolmap(rng, sample_ids):
    return [[i, rng.randint(0, 1)] for i in sorted(sample_ids)]


def rand_sample_set(rng, tiny=False):
    if tiny:
        return [[], [], [], [], [], [], 0]
    sids = sorted(rng.sample(range(0, 12), rng.randint(1, 3)))
    pool = G.ids_pool(rng, rng.randint(1, 3))
    sdvs = [[optional(rng, lambda: rand_dv(rng, i), 0.9), optional(rng, lambda: sampled_values(rng, sids), 0.9)] for i in pool]
    scs = [[c, rng.choice([1, 2]), optional(rng, lambda: word(rng)), [rng.randint(0, 3) for _ in range(rng.randint(0, 2))],
            strmap(rng, 1), optional(rng, lambda: word(rng), 0.2), optional(rng, lambda: word(rng), 0.2), strmap(rng, 1),
            optional(rng, lambda: sampled_values(rng, sids), 0.9), sorted(rng.sample(pool, rng.randint(0, len(pool)))),
            boolmap(rng, sids)] for c in range(rng.randint(0, 2))]
    return [optional(rng, lambda: sampled_values(rng, sids), 0.9), sdvs, scs, boolmap(rng, sids),
            boolmap(rng, sids) if rng.random() < 0.7 else [], boolmap(rng, sids) if rng.random() < 0.2 else [],
            rng.choice([0, 1, 2])]


def rand_message(rng, kind, tiny=False):
    return {"instance": rand_instance, "parametric_instance": rand_parametric,
            "solution": rand_state, "sample_set": rand_sample_set}[kind](rng, tiny)


# ---- annotations ---------------------------------------------------------------------

PREFIX = {"instance": "org.ommx.v1.instance.", "parametric_instance": "org.ommx.v1.parametric-instance.",
          "solution": "org.ommx.v1.solution.", "sample_set": "org.ommx.v1.sample-set."}


def rand_time(rng):
    y = rng.choice([1970, 1999, 2000, 2024, 2024, 2038, 2100])
    mo = rng.randint(1, 12)
    d = rng.randint(1, 28) if not (y == 2024 and mo == 2 and rng.random() < 0.5) else 29
    frac = rng.choice(["", "", ".5", ".123", ".000001", ".123456789", ".999999999"])
    off = rng.choice(["Z", "+00:00", "+09:00", "-05:30", "+14:00", "-00:00"])
    return "%04d-%02d-%02dT%02d:%02d:%02d%s%s" % (y, mo, d, rng.randint(0, 23), rng.randint(0, 59), rng.randint(0, 59), frac, off)


def rand_digest(rng):
    return rng.choice(["sha256:" + "%064x" % rng.getrandbits(256), "sha512:abc", "md5:A-b_c=", "x+y.z:0"])


def rand_authors(rng, stream):
    if stream == "authors-comma":
        return [rng.choice(["Doe, John", "a,b", ","]), rng.choice(NAMES)][: rng.randint(1, 2)]
    if stream == "authors-emptyname":
        return rng.choice([[""], ["", ""], ["a", ""], ["", "b"]])
    return [rng.choice(NAMES) for _ in range(rng.choice([0, 1, 1, 2, 3]))]


def user_key(rng):
    if rng.random() < 0.3:
        # set_other does not check the key: keys outside org.ommx.* (another vendor, an OCI key, no dots, empty)
        return rng.choice(["com.example.note", "org.opencontainers.image.title", "note", "", "org.ommx.v2.instance.title",
                           "org.ommx.v1.other-kind.title", "ORG.OMMX.USER.X"])
    return "org.ommx.user." + rng.choice(["note", "run-id", "x.y", "備考", "UPPER", "a b"])


def rand_setters(rng, kind, stream="plain"):
    out = []
    n = rng.choice([0, 1, 2, 3, 4, 6])
    il = kind in ("instance", "parametric_instance")
    for _ in range(n):
        if il:
            tag = rng.choice(["title", "created", "authors", "license", "dataset", "variables", "constraints", "other", "other"])
        else:
            tag = rng.choice(["start", "end", "instance", "solver", "other", "other"])
        if tag in ("title", "license", "dataset"):
            out.append([tag, word(rng)])
        elif tag in ("created", "start", "end"):
            out.append([tag, rand_time(rng)])
        elif tag == "authors":
            out.append([tag, rand_authors(rng, stream)])
        elif tag in ("variables", "constraints"):
            out.append([tag, rng.choice([0, 1, 7, 10, 100, 12345, 2 ** 32, 2 ** 63, 2 ** 64 - 1])])
        elif tag in ("instance", "solver"):
            out.append([tag, rand_digest(rng)])
        else:
            if stream == "other-overrides" and rng.random() < 0.7:
                # a user-supplied key that collides with a typed key (set_other does not check keys)
                if il:
                    f = rng.choice(["title", "authors", "license", "dataset", "variables", "constraints", "created"])
                    v = {"variables": rng.choice(["12", "+7", "007", "", "-1", "1e3", " 5", "18446744073709551616", "x"]),
                         "constraints": rng.choice(["0", "+", "9", "ten"]),
                         "created": rng.choice(["yesterday", "", "2024-13-01T00:00:00Z"]),
                         "authors": rng.choice(["a,,b", ",", "x", ""])}.get(f, word(rng))
                else:
                    f = rng.choice(["instance", "solver", "start", "end"])
                    v = {"start": "noon", "end": ""}.get(f, rng.choice(["sha256:abc", "nocolon", "a:b:c", ":", "sha256:", "a:!", ":x"]))
                out.append(["other", PREFIX[kind] + f, v])
            else:
                out.append(["other", user_key(rng), word(rng)])
    if stream in ("authors-comma", "authors-emptyname") and il:
        out.append(["authors", rand_authors(rng, stream)])
    return out


def rand_op(rng, kind=None, stream="plain", tiny=False):
    kind = kind or rng.choice(KINDS)
    return [kind, rand_message(rng, kind, tiny), rand_setters(rng, kind, stream)]


def probe_digest(rng):
    return rng.choice(["sha256:" + "%064x" % rng.getrandbits(256), "sha256:00", "sha512:abcdef"])


def case(mode, ops, probe, stream):
    return {"op": "artifact_roundtrip", "input": [mode, ops, probe], "stream": stream}


def gen_cases(rng, n):
    cases = []
    # fixed corner cases first
    cases.append(case(["ommx"], [], "sha256:00", "empty"))
    for k in KINDS:
        cases.append(case(["ommx"], [[k, rand_message(rng, k, tiny=True), []]], "sha256:00", "empty-message"))
    for i in range(n):
        r = rng.random()
        nops = rng.choice([1, 2, 2, 3, 3, 4, 5, 6])
        if r < 0.55:
            ops = [rand_op(rng) for _ in range(nops)]
            cases.append(case(["ommx"], ops, probe_digest(rng), "plain"))
        elif r < 0.63:
            # all four kinds present: every getter sees a layer of its own and of every other type
            ks = KINDS[:]
            rng.shuffle(ks)
            ops = [rand_op(rng, k) for k in ks] + [rand_op(rng) for _ in range(rng.randint(0, 2))]
            cases.append(case(["ommx"], ops, probe_digest(rng), "all-kinds"))
        elif r < 0.71:
            # identical blob twice with different annotations (first-match semantics made visible)
            ops = [rand_op(rng) for _ in range(rng.randint(1, 3))]
            src = rng.choice(ops)
            dup = [src[0], src[1], rand_setters(rng, src[0])]
            ops.insert(rng.randint(0, len(ops)), dup)
            cases.append(case(["ommx"], ops, probe_digest(rng), "dup-blob"))
        elif r < 0.76:
            # empty messages of different kinds share the empty blob
            ks = rng.sample(KINDS, rng.randint(2, 4))
            ops = [[k, rand_message(rng, k, tiny=True), rand_setters(rng, k)] for k in ks]
            if rng.random() < 0.5:
                ops.append(rand_op(rng))
            cases.append(case(["ommx"], ops, probe_digest(rng), "dup-blob-cross-kind"))
        elif r < 0.84:
            ops = [rand_op(rng, stream="other-overrides") for _ in range(rng.randint(1, 3))]
            cases.append(case(["ommx"], ops, probe_digest(rng), "other-overrides"))
        elif r < 0.89:
            st = rng.choice(["authors-comma", "authors-emptyname"])
            ops = [rand_op(rng, rng.choice(KINDS[:2]), stream=st) for _ in range(rng.randint(1, 2))]
            cases.append(case(["ommx"], ops, probe_digest(rng), st))
        else:
            ops = [rand_op(rng) for _ in range(rng.randint(0, 3))]
            mode = rng.choice([["notype"], ["raw", "application/vnd.ocipkg.v1.artifact"],
                               ["raw", "application/org.ommx.v1.artifact2"], ["raw", "application/org.ommx.v1.config+json"],
                               ["raw", "application/vnd.oci.image.manifest.v1+json"], ["raw", OMMX_TYPE]])
            cases.append(case(mode, ops, probe_digest(rng), "raw-ommx-type" if mode[-1] == OMMX_TYPE else "non-ommx"))
    return cases
