"""Generators for C17 / C18: abstract LP/MIP models (rendered to MPS text by the Coq `render`),
text faults, and linear / nonlinear instances for the write -> read round trip."""
import re
import common as C

ROW_NAMES = ["r1", "LIM2", "c_3", "R.a", "MYEQN", "row5", "dem-6", "Cap7"]
COL_NAMES = ["x1", "YTWO", "v3", "Z.4", "flow5", "w_6", "X7", "k8"]
OBJ_NAMES = ["obj", "COST", "OBJ", "z"]
PROB_NAMES = ["prob", "TESTPROB", "my problem", "p-1", ""]
KW_VALUE = ["UP", "LO", "FX", "LI", "UI"]
KW_ALL = ["UP", "LO", "FX", "MI", "PL", "FR", "BV", "LI", "UI"]


def dyadic(rng, nonzero=False, kmax=24, amax=3):
    while True:
        a = rng.choice([0, 0, 0, 1, 2, amax])
        k = rng.randint(-kmax, kmax)
        if nonzero and k == 0:
            continue
        return k / (2 ** a)


def wide_dyadic(rng, nonzero=False):
    """numbers whose exact decimal expansion needs many digits but at most 15 significant ones (so the shortest
    round-trip rendering of Rust's `{}` IS the exact expansion): k/1024, integers beyond f32's 2^24"""
    if rng.random() < 0.6:
        k = rng.randint(-2 ** 20, 2 ** 20)
        if nonzero and k == 0:
            k = 1
        return k / 1024.0
    return float(rng.choice([1, -1]) * rng.choice([16777217, 2 ** 31 + 1, 2 ** 40 + 1, 10 ** 14 + 1, 123456789]))


def num(x):
    return C.f64(x)


def opt(x, e=lambda v: v):
    return [] if x is None else [e(x)]


INF = float("inf")


def col_final(stmts, is_int):
    """python mirror of the keyword table, only used to keep the generator inside the property's
    scope (no `UP 0` without a lower bound, no PL after an upper-bound statement)"""
    lo = up = None
    for kw, v in stmts:
        if kw in ("UP", "UI"):
            up = v
        elif kw in ("LO", "LI"):
            lo = v
        elif kw == "FX":
            lo = up = v
        elif kw == "MI":
            lo = -INF
        elif kw == "PL":
            up = INF
        elif kw == "FR":
            lo, up = -INF, INF
        elif kw == "BV":
            lo, up = 0.0, 1.0
    return lo, up


def gen_bounds(rng, cols):
    per_col = {}
    for (name, is_int, _) in cols:
        for _try in range(20):
            n = rng.choice([0, 0, 1, 1, 1, 2, 2, 3])
            st = []
            upper_set = False
            for _ in range(n):
                kw = rng.choice(KW_ALL)
                if kw == "PL" and upper_set:
                    continue
                v = 0.0
                if kw in KW_VALUE:
                    r = rng.random()
                    if r < 0.12 and kw in ("UP", "UI"):
                        v = rng.choice([1.0, 1.0, INF])
                    elif r < 0.2 and kw in ("LO", "LI"):
                        v = rng.choice([0.0, 0.0, -INF])
                    elif r < 0.45 and kw in ("UP", "UI"):
                        v = -abs(dyadic(rng, nonzero=True))     # negative upper bounds
                    else:
                        v = dyadic(rng)
                if kw in ("UP", "FX", "UI", "BV", "FR"):
                    upper_set = True
                st.append((kw, v))
            lo, up = col_final(st, is_int)
            if lo is None and up == 0.0:
                continue
            per_col[name] = st
            break
        else:
            per_col[name] = []
    # interleave the columns' statements, keeping each column's own order
    out = []
    pending = {k: list(v) for k, v in per_col.items() if v}
    while pending:
        k = rng.choice(sorted(pending))
        kw, v = pending[k].pop(0)
        out.append([kw, k, num(v)])
        if not pending[k]:
            del pending[k]
    return out


def gen_model(rng, naming=None):
    """returns the model tree [name, sense, objrow, objconst, rows, cols, bounds]"""
    naming = naming or rng.choice(["foreign", "foreign", "foreign", "ommx", "ommx-cols", "ommx-rows", "ommx-bad", "ommx-noncanon"])
    clash = False
    ncols = rng.randint(1, 6)
    nrows = rng.randint(0, 5)
    if naming in ("ommx", "ommx-cols", "ommx-bad", "ommx-noncanon"):
        ids = rng.sample(range(0, 40), ncols)
        if rng.random() < 0.2:
            ids[0] = rng.choice([2 ** 40 + 3, 2 ** 62])
        cnames = ["OMMX_VAR_%d" % i for i in ids]
        if naming == "ommx-bad":
            cnames[rng.randrange(ncols)] = rng.choice(["OMMX_VAR_A", "OMMX_VAR_", "OMMX_VAR_1x"])
        if naming == "ommx-noncanon":
            # a name that is NOT the canonical rendering of a number (leading zero, plus sign) although it parses as one:
            # it may even denote the number of ANOTHER column; it is an ordinary name (fix: parse_id_tag accepts only the
            # canonical decimal rendering), so ids are assigned by position and stay distinct
            k = rng.randrange(ncols)
            other = ids[rng.randrange(ncols)]
            cnames[k] = rng.choice(["OMMX_VAR_0%d", "OMMX_VAR_+%d", "OMMX_VAR_00%d"]) % (other if other < 2 ** 40 else 7)
    else:
        cnames = rng.sample(COL_NAMES, ncols)
    if naming in ("ommx", "ommx-rows", "ommx-bad", "ommx-noncanon"):
        rids = rng.sample(range(0, 40), nrows)
        rnames = ["OMMX_CONSTR_%d" % i for i in rids]
        if naming == "ommx-bad" and nrows and rng.random() < 0.5:
            rnames[rng.randrange(nrows)] = "OMMX_CONSTR_x"
        if naming == "ommx-noncanon" and nrows and rng.random() < 0.7:
            rnames[rng.randrange(nrows)] = rng.choice(["OMMX_CONSTR_0%d", "OMMX_CONSTR_+%d"]) % rids[rng.randrange(nrows)]
        objrow = "OBJ"
    else:
        rnames = rng.sample(ROW_NAMES, nrows)
        objrow = rng.choice(OBJ_NAMES)
        # a declared row that collides with a generated RANGES name
        if nrows >= 2 and rng.random() < 0.1:
            rnames[1] = rnames[0] + "_"
        # ... or the OBJECTIVE row carries the name a RANGES entry on row 0 would generate (fix 401c8f6)
        elif nrows >= 1 and rng.random() < 0.12:
            objrow = rnames[0] + "_"
            clash = True
    rows = []
    for rn in rnames:
        ty = rng.choice(["E", "L", "G", "E", "L", "G", "N"])
        rhs = None if rng.random() < 0.3 else dyadic(rng)
        rg = None
        if ty != "N" and rng.random() < 0.35:
            rg = dyadic(rng, nonzero=True)
        if ty == "N":
            rhs = None if rng.random() < 0.7 else rhs
        if clash and not rows:
            ty = rng.choice(["E", "L", "G"])
            rg = dyadic(rng, nonzero=True)
        rows.append([rn, ty, opt(rhs, num), opt(rg, num)])
    cols = []
    allrows = [objrow] + rnames
    for cn in cnames:
        k = rng.randint(1, min(len(allrows), 4))
        rs = rng.sample(allrows, k)
        rs.sort(key=allrows.index) if rng.random() < 0.5 else None
        coefs = []
        for j, r in enumerate(rs):
            v = dyadic(rng, nonzero=True)
            if j > 0 and rng.random() < 0.04:
                v = 0.0
            coefs.append([r, num(v)])
        is_int = 1 if rng.random() < 0.4 else 0
        cols.append([cn, is_int, coefs])
    # integer columns are mostly contiguous but not always (several marker groups)
    if rng.random() < 0.5:
        cols.sort(key=lambda c: c[1])
    bounds = gen_bounds(rng, [(c[0], c[1], None) for c in cols])
    sense = rng.choice([None, False, True, True])
    objconst = 0.0 if (rng.random() < 0.4 and not clash) else dyadic(rng, nonzero=clash)
    name = rng.choice(PROB_NAMES)
    model = [name, opt(sense, lambda b: 1 if b else 0), objrow, num(objconst), rows, cols, bounds]
    return model, naming


def gen_layout(rng):
    return [rng.randint(0, 1) for _ in range(5)]


# ---------------------------------------------------------------------------------
# faults: one per error class, applied to a rendered text

def _sections(lines):
    """map line index -> section name for field lines"""
    sec = None
    out = {}
    for i, l in enumerate(lines):
        if not l.strip() or l.startswith("*"):
            continue
        if not l.startswith(" "):
            w = l.strip().split()[0] if l.strip() else ""
            sec = w
            out[i] = ("header", w)
        else:
            out[i] = ("field", sec)
    return out


def _retok(line, idx, new):
    parts = re.split(r"(\s+)", line)
    toks = [k for k in range(len(parts)) if parts[k] and not parts[k].isspace()]
    if idx >= len(toks):
        return None
    parts[toks[idx]] = new
    return "".join(parts)


FAULTS = ["col-row", "range-row", "row-type", "bound-type", "marker", "sense", "number", "header"]


def gen_fault(rng, lines, cls):
    sec = _sections(lines)
    fields = lambda s: [i for i, (k, w) in sec.items() if k == "field" and w == s]
    pick = None
    if cls == "col-row":
        c = [i for i in fields("COLUMNS") if "'MARKER'" not in lines[i]]
        if c:
            i = rng.choice(c)
            ntok = len(lines[i].split())
            pick = (i, _retok(lines[i], rng.choice([1, 3]) if ntok == 5 else 1, "NOROW"))
    elif cls == "range-row":
        c = fields("RANGES")
        if c:
            i = rng.choice(c)
            ntok = len(lines[i].split())
            pick = (i, _retok(lines[i], rng.choice([1, 3]) if ntok == 5 else 1, "NOROW"))
    elif cls == "row-type":
        c = fields("ROWS")
        if c:
            i = rng.choice(c)
            pick = (i, _retok(lines[i], 0, rng.choice(["X", "EQ", "n", "LE"])))
    elif cls == "bound-type":
        c = fields("BOUNDS")
        if c:
            i = rng.choice(c)
            pick = (i, _retok(lines[i], 0, rng.choice(["XX", "up", "SC", "BND"])))
    elif cls == "marker":
        c = [i for i in fields("COLUMNS") if "'MARKER'" in lines[i]]
        if c:
            i = rng.choice(c)
            pick = (i, _retok(lines[i], 2, rng.choice(["'INTXXX'", "INTORG", "'intorg'"])))
    elif cls == "sense":
        for i, (k, w) in sec.items():
            if k == "header" and w == "OBJSENSE":
                if len(lines[i].split()) == 2:
                    pick = (i, "OBJSENSE " + rng.choice(["MAXX", "max", "MINIMIZE"]))
                else:
                    j = min(x for x in fields("OBJSENSE") if x > i)
                    pick = (j, _retok(lines[j], 0, rng.choice(["MAXX", "max", "MINIMIZE"])))
    elif cls == "number":
        s = rng.choice(["COLUMNS", "RHS", "RANGES", "BOUNDS"])
        c = [i for i in fields(s) if "'MARKER'" not in lines[i]]
        if s == "BOUNDS":
            c = [i for i in c if len(lines[i].split()) == 4]
        if c:
            i = rng.choice(c)
            ntok = len(lines[i].split())
            pos = 3 if s == "BOUNDS" else (rng.choice([2, 4]) if ntok == 5 else 2)
            pick = (i, _retok(lines[i], pos, rng.choice(["1.2.3", "abc", "1e", "--1", "0x10", "1,5", "."])))
    elif cls == "header":
        c = [i for i, (k, w) in sec.items() if k == "header" and w in ("RHS", "COLUMNS", "BOUNDS", "RANGES", "ENDATA")]
        if c:
            i = rng.choice(c)
            pick = (i, lines[i] + "X")
    if pick is None or pick[1] is None:
        return None
    return [pick[0], pick[1]]


def _respell(rng, tok):
    """another spelling of the same decimal number accepted by <f64 as FromStr>"""
    neg = tok.startswith("-")
    body = tok.lstrip("+-")
    if not body or not all(ch.isdigit() or ch == "." for ch in body) or body.count(".") > 1:
        return None
    ip, _, fp = body.partition(".")
    digits = (ip + fp).lstrip("0") or "0"
    sign = "-" if neg else rng.choice(["", "+"])
    style = rng.randrange(7)
    if style == 0:
        return sign + ip + "." + fp + "0" * rng.randint(1, 3)
    if style == 1:
        return sign + "00" + ip + ("." + fp if fp else "")
    if style == 2:                      # mantissa as an integer with a negative exponent
        return sign + digits + rng.choice(["e", "E"]) + "-" + str(len(fp))
    if style == 3:
        return sign + ip + "." + fp + rng.choice(["e0", "E+0", "e-00", "E+00"])
    if style == 4 and not fp:
        return sign + ip + "."
    if style == 5 and ip.strip("0") == "" and fp:
        return sign + "." + fp
    if style == 6:                      # shifted by two places
        ex = len(digits) + 2 - len(fp)
        return sign + "0.00" + digits + "e" + (rng.choice(["", "+"]) + str(ex) if ex >= 0 else str(ex))
    return sign + body if sign == "+" else None


def gen_restyle(rng, lines):
    """replace one numeric token of a data line by an equivalent spelling"""
    sec = _sections(lines)
    s = rng.choice(["COLUMNS", "RHS", "RANGES", "BOUNDS"])
    c = [i for i, (k, w) in sec.items() if k == "field" and w == s and "'MARKER'" not in lines[i]]
    if s == "BOUNDS":
        c = [i for i in c if len(lines[i].split()) == 4]
    if not c:
        return None
    i = rng.choice(c)
    ntok = len(lines[i].split())
    pos = 3 if s == "BOUNDS" else (rng.choice([2, 4]) if ntok == 5 else 2)
    new = _respell(rng, lines[i].split()[pos])
    if new is None:
        return None
    return [i, _retok(lines[i], pos, new), "restyle"]


def apply_fault(lines, fault):
    out = list(lines)
    out[fault[0]] = fault[1]
    return out


# ---------------------------------------------------------------------------------
# C18: instances in the harness format (conv.rs d_instance)

def lin(terms, const):
    return ["lin", [[[i, num(c)] for i, c in terms], num(const)]]


def dv(i, kind, bound, name=None):
    return [i, kind, opt(bound, lambda b: [num(b[0]), num(b[1])]), [], opt(name), [], [], []]


def constraint(i, eq, fn, name=None):
    return [i, eq, opt(fn), opt(name), [], [], []]


def instance(sense, obj, dvs, cons, name=None):
    desc = [] if name is None else [[[name], [], [], []]]
    return [sense, opt(obj), dvs, cons, [], [], [], [], desc]


def gen_bound_shape(rng, kind):
    """bound shapes: absent / finite / half-infinite / infinite / negative"""
    if kind == 1:     # binary
        return rng.choice([None, None, (0.0, 1.0), (0.0, 1.0), (0.0, 0.0), (1.0, 1.0)])
    s = rng.choice(["none", "finite", "finite", "lower", "upper", "inf", "negative", "zero-one", "fixed"])
    if s == "none":
        return None
    if s == "inf":
        return (-INF, INF)
    a = dyadic(rng)
    b = a + abs(dyadic(rng))
    if rng.random() < 0.1:
        a = wide_dyadic(rng)
        b = a + rng.choice([0.0, 1.0, 0.5, 1024.0])
    if kind == 2 and rng.random() < 0.7:
        a, b = float(int(a)), float(int(a) + rng.randint(0, 9))
    if s == "finite":
        return (a, b)
    if s == "lower":
        return (a, INF)
    if s == "upper":
        return (-INF, b)
    if s == "negative":
        u = -abs(dyadic(rng, nonzero=True))
        return (u - abs(dyadic(rng)), u) if rng.random() < 0.6 else (-INF, u)
    if s == "zero-one":
        return (0.0, 1.0)
    return (a, a)


def gen_linear_fn(rng, ids, allow_const_only=True, dup=False):
    k = rng.randint(0 if allow_const_only else 1, min(len(ids), 4))
    use = rng.sample(ids, k)
    terms = [(i, dyadic(rng, nonzero=True) if (dup or rng.random() < 0.85) else wide_dyadic(rng, nonzero=True)) for i in use]
    if dup and terms:
        i, c = terms[0]
        terms.append((i, dyadic(rng, nonzero=True)))
    const = 0.0 if rng.random() < 0.35 else (dyadic(rng) if (dup or rng.random() < 0.85) else wide_dyadic(rng))
    return terms, const


def render_fn(rng, terms, const):
    """several wire-legal renderings of a linear function"""
    r = rng.random()
    if not terms and r < 0.5:
        return ["const", num(const)]
    if r < 0.8 or not terms:
        return lin(terms, const)
    if r < 0.9:
        # quadratic message with an empty quadratic part
        return ["quad", [[], [], [], [lin(terms, const)[1]]]]
    mons = [[[i], num(c)] for i, c in terms]
    if rng.random() < 0.4:
        # the constant spread over several empty-id monomials (legal: repeated monomials of a Polynomial add up)
        a = float(rng.randint(-6, 6)) / 2
        parts = [a, const - a] if rng.random() < 0.6 else [a, -a, const]
        mons += [[[], num(p)] for p in parts]
    elif const != 0.0 or rng.random() < 0.5:
        mons.append([[], num(const)])
    rng.shuffle(mons)
    return ["poly", mons]


def gen_instance(rng, nonlinear=None, dup=False):
    n = rng.randint(1, 6)
    ids = rng.sample(range(0, 30), n)
    if rng.random() < 0.15:
        ids[0] = rng.choice([2 ** 40 + 1, 2 ** 53])
    if rng.random() < 0.5:
        ids.sort()
    dvs = []
    for i in ids:
        kind = rng.choice([3, 3, 2, 1])
        dvs.append(dv(i, kind, gen_bound_shape(rng, kind), name=rng.choice([None, "x"])))
    m = rng.randint(0, 5)
    cids = rng.sample(range(0, 30), m)
    t, c = gen_linear_fn(rng, ids, dup=dup)
    obj = render_fn(rng, t, c) if not dup else lin(t, c)
    if rng.random() < 0.05 and not dup:
        obj = None
    cons = []
    for ci in cids:
        t, c = gen_linear_fn(rng, ids, dup=dup and rng.random() < 0.5)
        f = render_fn(rng, t, c) if not dup else lin(t, c)
        cons.append(constraint(ci, rng.choice([1, 2]), f, name=rng.choice([None, "c"])))
    if nonlinear is not None:
        i, j = rng.choice(ids), rng.choice(ids)
        q = rng.choice([
            ["quad", [[i], [j], [num(dyadic(rng, nonzero=True))], []]],
            ["quad", [[i], [j], [num(dyadic(rng, nonzero=True))], [lin([(i, 1.0)], 2.0)[1]]]],
            ["poly", [[[i, j], num(dyadic(rng, nonzero=True))], [[i], num(1.0)]]],
            ["poly", [[[i, j, i], num(dyadic(rng, nonzero=True))]]],
            ["poly", [[[i, j], num(0.0)], [[i], num(1.0)]]],     # syntactically of degree 2
        ])
        if nonlinear == "objective" or not cons:
            obj = q
        else:
            k = rng.randrange(len(cons))
            cons[k][2] = [q]
            if nonlinear == "both":
                obj = q
    sense = rng.choice([1, 2])
    name = rng.choice([None, "p", "round trip"])
    return instance(sense, obj, dvs, cons, name)
