"""Generators for instances (positional tree format of harness/src/conv.rs) and states."""
import math
from common import f64, from_bits
from gen import poly as G

INF = float("inf")
KINDS = [1, 2, 3, 4, 5]   # binary, integer, continuous, semi-integer, semi-continuous


def opt(x):
    return [] if x is None else [x]


def meta(rng, prefix):
    """[opt name, subscripts, params, opt description]"""
    name = opt(prefix + str(rng.randint(0, 99))) if rng.random() < 0.6 else []
    subs = [rng.randint(-3, 9) for _ in range(rng.randint(0, 2))]
    params = sorted([["k%d" % i, "v%d" % rng.randint(0, 9)] for i in range(rng.randint(0, 2))])
    desc = opt("d" + str(rng.randint(0, 9))) if rng.random() < 0.3 else []
    return [name, subs, params, desc]


def rand_bound(rng, kind):
    """None (absent) or (lower, upper) floats"""
    r = rng.random()
    if r < 0.25:
        return None
    if kind == 1 and r < 0.7:
        return (0.0, 1.0)
    if r > 0.94:
        # an explicit bound that equals the default (all-zero) Bound message: the variable is FIXED at 0, not unbounded
        return (0.0, 0.0)
    lo = float(rng.randint(-6, 4))
    hi = lo + float(rng.randint(0, 8)) / rng.choice([1, 2])
    r = rng.random()
    if r < 0.15:
        return (-INF, hi)
    if r < 0.3:
        return (lo, INF)
    if r < 0.4:
        return (-INF, INF)
    return (lo, hi)


def eff_bound(kind, b):
    if b is None:
        return (0.0, 1.0) if kind == 1 else (-INF, INF)
    return b


def value_in(rng, kind, b, integral=None):
    lo, hi = eff_bound(kind, b)
    cands = []
    if lo > -INF:
        cands += [lo, lo]
    if hi < INF:
        cands += [hi]
    a = max(lo, -6.0)
    c = min(hi, 6.0)
    if a > c:
        a = c = (lo if lo > -INF else hi)
    # dyadic points inside
    for _ in range(3):
        t = rng.randint(0, 8) / 8.0
        cands.append(a + (c - a) * t)
    v = rng.choice(cands)
    if kind in (1, 2, 4) and rng.random() < 0.8:
        vv = float(math.floor(v)) if math.floor(v) >= lo else float(math.ceil(v))
        if lo <= vv <= hi:
            v = vv
    # keep few significant bits
    v = round(v * 8) / 8.0
    if v < lo:
        v = lo
    if v > hi:
        v = hi
    return v


def dv(id_, kind, bound, subst=None, m=None):
    return [id_, kind, opt([f64(bound[0]), f64(bound[1])] if bound is not None else None),
            opt(f64(subst) if subst is not None else None)] + (m or [[], [], [], []])


def constraint(id_, eq, fn, m=None):
    return [id_, eq, opt(fn)] + (m or [[], [], [], []])


def rand_instance(rng, n_vars=None, max_deg=2, n_cons=None, n_removed=None, with_deps=True,
                  kinds=None, allow_unset=True, sense=None, rich=False):
    """returns (instance tree, info) — info has ids, kinds, bounds, used, dep keys"""
    n_vars = n_vars if n_vars is not None else rng.randint(1, 6)
    pool = G.ids_pool(rng, n_vars, big=0.1)
    kinds_ = {i: rng.choice(kinds or KINDS) for i in pool}
    bounds = {i: rand_bound(rng, kinds_[i]) for i in pool}
    # split pool: usable in functions / irrelevant / dependent
    usable = list(pool)
    rng.shuffle(usable)
    n_irr = rng.randint(0, max(0, len(usable) - 1)) if rng.random() < 0.5 else 0
    irrelevant = usable[:n_irr]
    usable = usable[n_irr:]
    dep_keys = []
    if with_deps and len(usable) >= 2 and rng.random() < 0.4:
        dep_keys = [usable.pop()]
        if len(usable) >= 2 and rng.random() < 0.4:
            dep_keys.append(usable.pop())

    def fn(allow_none=False):
        if allow_none and rng.random() < 0.1:
            return None
        p = G.rand_poly(rng, usable, max_deg=rng.randint(0, max_deg), max_terms=4, maxnum=4, maxexp=1)
        f = G.render(rng, p, usable)
        if f[0] == "unset" and not allow_unset:
            f = ["const", f64(0.0)]
        return f

    objective = fn(allow_none=True)
    n_cons = n_cons if n_cons is not None else rng.randint(0, 3)
    n_removed = n_removed if n_removed is not None else rng.randint(0, 2)
    cid = 0
    cids = []
    cons = []
    for _ in range(n_cons):
        cid += rng.randint(1, 5)
        cids.append(cid)
        cons.append(constraint(cid, rng.choice([1, 2]), fn(allow_none=True), meta(rng, "c")))
    removed = []
    for _ in range(n_removed):
        cid += rng.randint(1, 5)
        cids.append(cid)
        removed.append([[constraint(cid, rng.choice([1, 2]), fn(allow_none=True), meta(rng, "r"))],
                        "" if rng.random() < 0.2 else "reason%d" % rng.randint(0, 3),
                        # (one removed constraint in four looks as a previous penalty round leaves it: reason penalty_method /
                        #  uniform_penalty_method, a `parameter_id` entry among the reason parameters)
                        (sorted([["p%d" % i, str(rng.randint(0, 9))] for i in range(rng.randint(0, 2))]) if rng.random() < 0.75
                         else sorted([["parameter_id", str(rng.randint(0, 40))]] + [["p0", "1"]][:rng.randint(0, 1)]))])
    # constraint ids only have to be unique: the lists are not stored in ascending id order half of the time
    if rng.random() < 0.5:
        rng.shuffle(cons)
    if rng.random() < 0.5:
        rng.shuffle(removed)
    deps = []
    prev = []
    for k in dep_keys:
        p = G.rand_poly(rng, usable + prev, max_deg=rng.randint(0, 2), max_terms=3, maxnum=3, maxexp=1)
        deps.append([k, G.render(rng, p, usable + prev) if True else None])
        if deps[-1][1][0] == "unset":
            deps[-1][1] = ["const", f64(1.0)]
        prev.append(k)
    dvs = []
    subst = {}
    order = list(pool)
    rng.shuffle(order)
    for i in order:
        sv = None
        if i in irrelevant and rng.random() < 0.3:
            sv = value_in(rng, kinds_[i], bounds[i])
            subst[i] = sv
        dvs.append(dv(i, kinds_[i], bounds[i], sv, meta(rng, "x")))
    s = sense if sense is not None else rng.choice([1, 2])
    params, hints, desc = [], [], []
    if rich:
        # the optional parts every transformation must carry over: recorded parameters, constraint hints, description
        if rng.random() < 0.4:
            params = [[[900 + k, f64(float(rng.randint(-3, 3)) / 2)] for k in range(rng.randint(0, 2))]]
        if rng.random() < 0.5 and cids and pool:
            onehot = [[rng.choice(cids), sorted(rng.sample(list(pool), rng.randint(1, min(3, len(pool)))))]
                      for _ in range(rng.randint(0, 2))]
            sos1 = [[rng.choice(cids), sorted(set(rng.choice(cids) for _ in range(rng.randint(0, 2)))),
                     sorted(rng.sample(list(pool), rng.randint(1, min(2, len(pool)))))] for _ in range(rng.randint(0, 1))]
            hints = [[onehot, sos1]]
        if rng.random() < 0.5:
            desc = [[opt(rng.choice([None, "", "prob-%d" % rng.randint(0, 9)])), opt(rng.choice([None, "", "a description"])),
                     [rng.choice(["ann", "bob", ""]) for _ in range(rng.randint(0, 2))], opt(rng.choice([None, "tool"]))]]
    inst = [s, opt(objective), dvs, cons, removed, deps, params, hints, desc]
    used = set()
    for f in [objective] + [c[2][0] if c[2] else None for c in cons] + \
            [r[0][0][2][0] if r[0][0][2] else None for r in removed]:
        if f is not None:
            used |= G.fn_ids(f)
    info = {"pool": pool, "kinds": kinds_, "bounds": bounds, "usable": usable, "irrelevant": irrelevant,
            "dep_keys": dep_keys, "used": used, "cids": cids, "subst": subst}
    return inst, info


def rand_state_for(rng, info, include_irrelevant=0.3, extra=0.2):
    """in-bound state over the usable ids (+ some irrelevant ones, + undefined extras)"""
    ent = []
    for i in info["usable"]:
        ent.append([i, f64(value_in(rng, info["kinds"][i], info["bounds"][i]))])
    for i in info["irrelevant"]:
        if i not in info["subst"] and rng.random() < include_irrelevant:
            ent.append([i, f64(value_in(rng, info["kinds"][i], info["bounds"][i]))])
    if rng.random() < extra:
        ent.append([777000 + rng.randint(0, 9), f64(G.dyadic(rng))])
    rng.shuffle(ent)
    return ent
