"""Generators for C19: abstract QP models (<= 5 variables, <= 4 constraints, every one of the
4x5x6 problem-type codes), layouts (comment / blank lines, indentation, TAB separators,
trailing text, number styles) and single faults, as trees for coq/theories/RunC19.v.

Numbers are decimal literals (neg, mant, exp10, style) whose value mant*10^exp10 is a small
dyadic rational or one of a few exactly representable large magnitudes, so that Rust's f64
reader returns exactly the value the Coq reader computes."""

OKINDS = "LDCQ"
VKINDS = "CBMIG"
CKINDS = "NBLDCQ"
ALL_CODES = [o + v + c for o in OKINDS for v in VKINDS for c in CKINDS]

NSTYLES = 6


def dec(neg, mant, exp10, style):
    return ["dec", 1 if neg else 0, mant, exp10, style]


def inf(neg):
    return ["inf", 1 if neg else 0]


def dyadic(rng, lo=-8, hi=8, maxa=3, nonzero=False):
    """k / 2^a with small k, as a decimal literal; occasionally written with a positive exponent"""
    while True:
        k = rng.randint(lo, hi)
        if k != 0 or not nonzero:
            break
    a = rng.choice([0, 0, 0, 1, 1, 2, maxa])
    mant = abs(k) * 5 ** a
    e = -a
    if a == 0 and k % 10 == 0 and k != 0 and rng.random() < 0.5:
        mant, e = abs(k) // 10, 1
    # extra trailing zeros in the fraction: same value, longer literal
    if rng.random() < 0.15:
        mant, e = mant * 10, e - 1
    neg = k < 0 or (k == 0 and rng.random() < 0.1)
    return dec(neg, mant, e, rng.randrange(NSTYLES))


def small_int(rng, v):
    return dec(v < 0, abs(v), 0, rng.randrange(NSTYLES))


THRESHOLDS = [(1, 20), (1, 20), (1, 10), (1, 3), (1, 2), (64, 0), (16, 0), (4, 0), (25, -1)]


def threshold(rng):
    if rng.random() < 0.08:
        return inf(False), None
    m, e = rng.choice(THRESHOLDS)
    return dec(False, m, e, rng.choice([0, 1, 2, 3, 4])), (m, e)


def beyond_value(rng, thr, neg):
    """a literal whose magnitude is at or beyond the threshold"""
    if thr is None or rng.random() < 0.2:
        return inf(neg)
    m, e = thr
    c = rng.random()
    if c < 0.5:
        return dec(neg, m, e, rng.randrange(NSTYLES))          # exactly the threshold
    if c < 0.8:
        return dec(neg, 2 * m, e, rng.randrange(NSTYLES))
    return dec(neg, 1, 20, rng.choice([2, 3, 4])) if (m, e) != (1, 20) else dec(neg, 3, 20, 2)


BELOW = {(1, 20): [(5, 19), (99, 18)], (1, 10): [(9999999999, 0), (5, 9)], (1, 3): [(999, 0), (9995, -1)],
         (1, 2): [(99, 0), (995, -1)], (64, 0): [(635, -1), (63, 0)], (16, 0): [(1575, -2), (15, 0)],
         (4, 0): [(375, -2), (3, 0)], (25, -1): [(225, -2), (2, 0)]}


def below_value(rng, thr, neg):
    """a large FINITE literal just below the threshold (binary64-exact): it must stay a finite side"""
    m, e = rng.choice(BELOW[thr])
    return dec(neg, m, e, rng.randrange(NSTYLES))


def wide_coef(rng):
    """binary64-exact literals that are not binary32-exact (more than 24 significant bits)"""
    m, e = rng.choice([(16777217, 0), (335544335, -1), (1234567895, -1), (2 ** 40 + 1, 0), (429496729725, -2),
                       (16777217, 1), (2 ** 53 - 1, 0)])
    return dec(rng.random() < 0.5, m, e, rng.randrange(NSTYLES))


def side_value(rng, thr, neg_unbounded, p_unbounded):
    """a bound / constraint side: finite small dyadic, or beyond the threshold (either sign)"""
    if rng.random() < p_unbounded:
        neg = neg_unbounded if rng.random() < 0.8 else not neg_unbounded
        return beyond_value(rng, thr, neg)
    if thr is not None and rng.random() < 0.1:
        return below_value(rng, thr, rng.random() < 0.5)
    return dyadic(rng, -3, 3, maxa=2)


def subset(rng, n, p):
    return [i for i in range(1, n + 1) if rng.random() < p]


NAMES = ["x", "y1", "zeta", "A_b", "v.3", "cap", "n0", "w", "Q", "row-2", "u", "k9"]


def names(rng, n, p):
    out = []
    for i in subset(rng, n, p):
        out.append([i, rng.choice(NAMES) + str(rng.randint(0, 9))])
    rng.shuffle(out)
    return out


def isec(rng, n, p, val):
    out = [[i, val()] for i in subset(rng, n, p)]
    rng.shuffle(out)
    return out


def tri_entries(rng, n, diag_only, p):
    out = []
    for i in range(1, n + 1):
        for j in range(1, i + 1):
            if diag_only and i != j:
                continue
            q = p * (1.6 if i == j else 1.0)
            if rng.random() < q:
                out.append((i, j))
    rng.shuffle(out)
    return out


def model(rng, code, name=None):
    ok, vk, ck = code
    n = rng.choice([1, 2, 2, 3, 3, 4, 5, 5]) if rng.random() > 0.03 else 0
    has_cons = ck not in "NB"
    m = (rng.choice([1, 1, 2, 3, 4]) if rng.random() > 0.06 else 0) if has_cons else 0
    thr_lit, thr = threshold(rng)
    coef = lambda: wide_coef(rng) if rng.random() < 0.06 else dyadic(rng, -6, 6, nonzero=rng.random() < 0.9)
    q0 = []
    if ok != "L":
        q0 = [[i, j, coef()] for (i, j) in tri_entries(rng, n, ok == "D", 0.45)]
    b0d = dec(False, 0, 0, rng.randrange(NSTYLES)) if rng.random() < 0.5 else dyadic(rng, -4, 4, nonzero=True)
    b0 = isec(rng, n, 0.4, lambda: dyadic(rng, -6, 6) if rng.random() < 0.8 else dec(False, 0, 0, rng.randrange(NSTYLES)))
    q0c = dyadic(rng, -9, 9)
    qs = []
    if ck in "DCQ":
        for k in range(1, m + 1):
            for (i, j) in tri_entries(rng, n, ck == "D", 0.25):
                qs.append([k, i, j, coef()])
        rng.shuffle(qs)
    bs = []
    if has_cons:
        for k in range(1, m + 1):
            for i in subset(rng, n, 0.5):
                bs.append([k, i, coef()])
        rng.shuffle(bs)
    if has_cons:
        pl = rng.choice([0.0, 0.2, 0.5, 1.0])
        pu = rng.choice([0.0, 0.2, 0.5, 1.0])
        cld = side_value(rng, thr, True, pl)
        cl = isec(rng, m, 0.5, lambda: side_value(rng, thr, True, 0.3))
        cud = side_value(rng, thr, False, pu)
        cu = isec(rng, m, 0.5, lambda: side_value(rng, thr, False, 0.3))
    else:
        cld, cl, cud, cu = small_int(rng, 0), [], small_int(rng, 0), []
    if vk != "B":
        fix = vk in "IMG" and rng.random() < 0.6
        if fix:
            ld = small_int(rng, rng.choice([0, 0, 1]))
            ud = small_int(rng, rng.choice([1, 1, 0, 2]))
            l = isec(rng, n, 0.3, lambda: small_int(rng, rng.choice([0, 1, -1])))
            u = isec(rng, n, 0.3, lambda: small_int(rng, rng.choice([0, 1, 2])))
        else:
            ld = side_value(rng, thr, True, rng.choice([0.0, 0.3, 1.0]))
            ud = side_value(rng, thr, False, rng.choice([0.0, 0.3, 1.0]))
            l = isec(rng, n, 0.4, lambda: side_value(rng, thr, True, 0.3))
            u = isec(rng, n, 0.4, lambda: side_value(rng, thr, False, 0.3))
    else:
        ld, l, ud, u = small_int(rng, 0), [], small_int(rng, 1), []
    td = rng.choice([0, 1, 2])
    ts = isec(rng, n, 0.5, lambda: rng.choice([0, 1, 2])) if vk in "MG" else []
    x0d, x0 = dyadic(rng), isec(rng, n, 0.2, lambda: dyadic(rng))
    y0d, y0 = dyadic(rng), (isec(rng, m, 0.2, lambda: dyadic(rng)) if has_cons else [])
    z0d, z0 = dyadic(rng), isec(rng, n, 0.2, lambda: dyadic(rng))
    vn = names(rng, n, 0.35)
    cn = names(rng, m, 0.35)
    nm = name or ("QP_%s_%d" % (code, rng.randint(0, 999)))
    return [nm, ok, vk, ck, rng.choice(["min", "max"]), n, m, q0, b0d, b0, q0c, qs, bs, thr_lit,
            cld, cl, cud, cu, ld, l, ud, u, td, ts, x0d, x0, y0d, y0, z0d, z0, vn, cn]


def n_logical(M):
    (nm, ok, vk, ck, se, n, m, q0, b0d, b0, q0c, qs, bs, thr, cld, cl, cud, cu, ld, l, ud, u,
     td, ts, x0d, x0, y0d, y0, z0d, z0, vn, cn) = M
    hc = ck not in "NB"
    k = 4 + (1 if hc else 0)
    if ok != "L":
        k += 1 + len(q0)
    k += 2 + len(b0) + 1
    if ck in "DCQ":
        k += 1 + len(qs)
    if hc:
        k += 1 + len(bs)
    k += 1
    if hc:
        k += 4 + len(cl) + len(cu)
    if vk != "B":
        k += 4 + len(l) + len(u)
    if vk in "MG":
        k += 2 + len(ts)
    k += 2 + len(x0) + (2 + len(y0) if hc else 0) + 2 + len(z0)
    k += 1 + len(vn) + 1 + len(cn)
    return k


def has_entries(M):
    return any(len(M[i]) > 0 for i in (9, 15, 17, 19, 21, 23, 25, 27, 29, 30, 31)) or \
        (M[1] != "L" and len(M[7]) > 0) or (M[3] in "DCQ" and len(M[11]) > 0) or \
        (M[3] not in "NB" and len(M[12]) > 0)


COMMENTS = ["", "   ", "! comment", "# 3 4 5", "% note", "  ! indented comment", "!", "\t# tab comment",
            "!---------------", "#1 1 2.0"]
TRAILS = ["# comment", "some text 1 2", "|", "! bang", "5 lines of data", "#", "% pct", "1.0E+20 x", "variables"]
INDENTS = ["", "", "", " ", "   ", "\t"]


def deco(rng, rich):
    if not rich:
        return [[], "", 0, ""]
    before = [rng.choice(COMMENTS) for _ in range(rng.choice([0, 0, 0, 1, 1, 2]))]
    return [before, rng.choice(INDENTS), 1 if rng.random() < 0.12 else 0,
            rng.choice(TRAILS) if rng.random() < 0.4 else ""]


def layout(rng, M, rich=True):
    k = n_logical(M)
    decos = [deco(rng, rich and rng.random() < 0.7) for _ in range(k)]
    after = [rng.choice(COMMENTS + ["trailing garbage 1 2 3"]) for _ in range(rng.choice([0, 0, 1, 2]))] if rich else []
    return [1 if (rich and rng.random() < 0.25) else 0, rng.choice([0, 1, 2]) if rich else 1, decos, after]


BAD = {
    "type": ["QXL", "XML", "QM", "Q", "QMZ", "123", "LL", "Q-L", "ZZZ", "qmx", "L"],
    "sense": ["min", "max", "minimise", "MINIMIZEE", "1", "minimize!", "Maximum", "mini-mize"],
    # negative counts are malformed counts at every count position (number of variables /
    # constraints, every section count): fixed in /repo by "fix: QPLIB section counts are
    # parsed as unsigned" (they used to be read as i32 in collect_list / consume_list_of_maps)
    "count": ["x", "-1", "-3", "-1", "1.0", "1e1", "3x", "0x10", "two", "1,0", "--2", "+", "-", "1-", "-0"],
    "idx": ["x", "-1", "1.0", "1e1", "3x", "one", "+-1", "1_"],
    "num": ["abc", "1.2.3", "--1", "1e", "e5", ".", "1,5", "0x1F", "+-1", "1_000", "1d5", "infx", "1e+", "-"],
    "vtype": ["3", "-1", "x", "00", "1.0", "02", "B", "10"],
}


def fault(rng, M, cls):
    if cls == "eof":
        return ["eof", rng.randrange(10 ** 6)]
    return ["bad", cls, rng.randrange(10 ** 6), rng.choice(BAD[cls])]


def fault_classes(M):
    out = ["type", "sense", "count", "num", "eof"]
    if has_entries(M):
        out.append("idx")
    if M[2] in "MG":
        out.append("vtype")
    return out


# ---------------------------------------------------------------------------------------
# probes: inputs the property text does not clearly cover (or covers, but the pinned reader
# mishandles); run with VERIF_C19_PROBE=1, reported, never part of the passing check
def probe_specs(rng, n_each=25):
    out = []
    for _ in range(n_each):
        M = model(rng, rng.choice(ALL_CODES))
        ly = layout(rng, M, rich=False)
        # regression probe for the fixed defect (now also part of the normal error stream)
        out.append(("negative-count", [M, ly, ["bad", "count", rng.randrange(10 ** 6), "-1"]], None))
        out.append(("four-letter-code", [M, ly, ["bad", "type", 0, M[1] + M[2] + M[3] + "X"]], None))
        if has_entries(M):
            out.append(("index-zero", [M, ly, ["bad", "idx", rng.randrange(10 ** 6), "0"]], None))
            out.append(("index-out-of-range", [M, ly, ["bad", "idx", rng.randrange(10 ** 6), "9"]], None))
            out.append(("too-few-fields", [M, ly, ["none"]], "drop"))
            out.append(("double-separator", [M, ly, ["none"]], "double"))
            out.append(("indented-entry", [M, ly, ["none"]], "indent"))
    return out


def mutate_text(rng, lines, how):
    """plain layout: an entry line is a line with >= 2 tokens"""
    idxs = [k for k, l in enumerate(lines) if len(l.split()) >= 2]
    if not idxs:
        return None
    k = rng.choice(idxs)
    l = lines[k]
    if how == "drop":
        l = " ".join(l.split()[:-1])
    elif how == "double":
        l = l.replace(" ", "  ", 1)
    elif how == "indent":
        l = " " + l
    return lines[:k] + [l] + lines[k + 1:], k + 1
