"""Generators for function messages (all five variants, normalised or not) and states.
All numbers are small dyadic rationals so that the f64 computation is exact."""
from common import f64


def dyadic(rng, maxnum=8, maxexp=2, nonzero=False):
    while True:
        k = rng.randint(-maxnum, maxnum)
        if k != 0 or not nonzero:
            break
    return k / float(2 ** rng.randint(0, maxexp))


def ids_pool(rng, n=5, big=0.15):
    pool = set()
    while len(pool) < n:
        if rng.random() < big:
            pool.add(rng.choice([2 ** 32 + rng.randint(0, 5), 2 ** 62 + rng.randint(0, 3), 10 ** 6 + rng.randint(0, 9)]))
        else:
            pool.add(rng.randint(0, 12))
    return sorted(pool)


def rand_poly(rng, pool, max_deg=4, max_terms=8, maxnum=8, maxexp=2):
    """abstract polynomial: list of (sorted ids tuple, coeff) with distinct monomials"""
    n = rng.randint(0, max_terms)
    mons = {}
    for _ in range(n):
        d = rng.randint(0, max_deg) if rng.random() < 0.7 else max_deg
        m = tuple(sorted(rng.choice(pool) for _ in range(d)))
        mons[m] = dyadic(rng, maxnum, maxexp, nonzero=True)
    return sorted(mons.items())


def degree(poly):
    return max([len(m) for m, _ in poly] or [0])


def split_terms(rng, poly, p_split=0.3, p_zero=0.3, pool=None):
    """un-normalise: split coefficients into two summands, add explicit zeros, shuffle"""
    out = []
    for m, c in poly:
        if rng.random() < p_split:
            a = dyadic(rng, 4, 1)
            out.append((m, a))
            out.append((m, c - a))
        else:
            out.append((m, c))
    if pool and rng.random() < p_zero:
        d = rng.randint(0, max(1, degree(poly)))
        out.append((tuple(sorted(rng.choice(pool) for _ in range(d))), 0.0))
    rng.shuffle(out)
    return out


def render_linear(rng, terms, normal):
    """terms: list of (m, c) with len(m) <= 1"""
    const = 0.0
    ts = []
    consts = [c for m, c in terms if len(m) == 0]
    const = sum(consts)
    for m, c in terms:
        if len(m) == 1:
            ts.append([m[0], f64(c)])
    return [ts, f64(const)]


def render_quadratic(rng, terms, normal):
    rows, cols, vals = [], [], []
    lin = []
    for m, c in terms:
        if len(m) == 2:
            r, cc = m
            if not normal and r != cc and rng.random() < 0.25:
                # non-symmetric pair of entries (r,c) and (c,r): two different positions
                a = dyadic(rng, 4, 1)
                rows += [r, cc]
                cols += [cc, r]
                vals += [f64(a), f64(c - a)]
                continue
            if not normal and rng.random() < 0.5:
                r, cc = cc, r
            rows.append(r)
            cols.append(cc)
            vals.append(f64(c))
        else:
            lin.append((m, c))
    if not lin and (normal or rng.random() < 0.7):
        linpart = []
    else:
        linpart = [render_linear(rng, lin, normal)]
    return [rows, cols, vals, linpart]


def render_poly(rng, terms, normal):
    out = []
    for m, c in terms:
        ids = list(m)
        if not normal:
            rng.shuffle(ids)
        out.append([ids, f64(c)])
    return out


def render(rng, poly, pool=None, normal=None, variant=None):
    """render an abstract polynomial as a function tree in a variant able to hold it"""
    if normal is None:
        normal = rng.random() < 0.35
    terms = list(poly) if normal else split_terms(rng, poly, pool=pool)
    if normal:
        terms = [(m, c) for m, c in terms if c != 0.0]
    d = degree(terms)
    options = ["poly"]
    if d <= 2:
        options.append("quad")
    if d <= 1:
        options.append("lin")
    if d == 0 and len(terms) <= 1:
        options.append("const")
        if not terms:
            options.append("unset")
    if variant is None or variant not in options:
        # weight towards the most specific variants
        variant = rng.choice(options + options[-2:])
    if variant == "unset":
        return ["unset"]
    if variant == "const":
        return ["const", f64(terms[0][1] if terms else 0.0)]
    if variant == "lin":
        return ["lin", render_linear(rng, terms, normal)]
    if variant == "quad":
        # duplicated (row, col) positions are excluded by the schema: merge same ordered pair
        if not normal:
            merged = {}
            rest = []
            for m, c in terms:
                if len(m) == 2:
                    merged[m] = merged.get(m, 0.0) + c
                else:
                    rest.append((m, c))
            terms = list(merged.items()) + rest
            rng.shuffle(terms)
        return ["quad", render_quadratic(rng, terms, normal)]
    return ["poly", render_poly(rng, terms, normal)]


def fn_ids(fn):
    """ids occurring syntactically in a function tree"""
    tag = fn[0]
    out = set()
    if tag == "lin":
        out |= {t[0] for t in fn[1][0]}
    elif tag == "quad":
        q = fn[1]
        n = min(len(q[0]), len(q[1]), len(q[2]))
        out |= set(q[0][:n]) | set(q[1][:n])
        if q[3]:
            out |= {t[0] for t in q[3][0][0]}
    elif tag == "poly":
        for ids, _ in fn[1]:
            out |= set(ids)
    return out


def rand_state(rng, ids, maxnum=6, maxexp=1, extra=None):
    ent = [[i, f64(dyadic(rng, maxnum, maxexp))] for i in sorted(ids)]
    if extra:
        for i in extra:
            if i not in ids:
                ent.append([i, f64(dyadic(rng, maxnum, maxexp))])
    rng.shuffle(ent)
    return ent
