#!/usr/bin/env python3
"""translate_schema.py — regenerate, from /repo as it is NOW, three closed Coq terms of type
`schema` (coq/theories/Schema.v):

  coq/gen/SchemaProto.v   from proto/ommx/v1/*.proto     (read twice: own proto3-subset reader AND
                                                           protoc --descriptor_set_out; must agree)
  coq/gen/SchemaRust.v    from rust/ommx/src/ommx.v1.rs  (#[prost(..)] attributes, Rust field types,
                                                           #[repr(i32)] enums + as_str_name tables)
  coq/gen/SchemaPy.v      from python/ommx/ommx/v1/*_pb2.py (serialized FileDescriptorProto bytes of
                                                           AddSerializedFile(b'...'), own wire reader —
                                                           there is no python protobuf runtime here)
  coq/gen/SchemaAgree.v   the generated obligations (schemas_agree, schema_wf, ...)

Normalisations (part of the trusted translator, the same function on all three sides):
  N1  every name (message, enum, enum value, field, oneof) is lower-cased and '_' is removed
      (`SOS1`/`Sos1`, `big_m_constraint_ids`, `KIND_SEMI_INTEGER` vs prost's `SemiInteger` is NOT
      used: the Rust side takes the full proto value name from `as_str_name`).
  N2  nested type names are joined with '.', package prefix `ommx.v1.` stripped; Rust module paths
      (`instance::Description`, `super::Linear`) are resolved to the same form.
  N3  a singular message field is `optional` on all sides (protoc: LABEL_OPTIONAL without
      proto3_optional; prost: `message, optional`).
  N4  proto3 `optional` = a synthetic one-member oneof in descriptors; mapped to `optional`.
  N5  `repeated` of a packable type (numeric scalars, bool, enum) is packed unless `[packed=false]`
      (descriptor options.packed=false / prost `packed = "false"`).
  N6  map<K,V> fields: descriptors carry a nested `map_entry` message; it is folded into the field
      (`CMap K` with the field type V) and is not listed as a message.
  N7  messages sorted by name, fields by number, enums by name, enum values by (number, name):
      declaration order is not part of the wire contract.
  N8  not represented: comments, `deprecated`, json_name, file/import structure, reserved ranges.

Exit status of main(): 0 and the four files written; TranslatorError (exit 3) when a source cannot
be read or the two readings of the .proto files disagree (the translator reports ITSELF broken).
"""
import ast
import glob
import json
import os
import re
import subprocess
import sys

VERIF = os.path.dirname(os.path.dirname(os.path.abspath(__file__)))
REPO = os.environ.get("OMMX_REPO", "/repo")
GEN = os.path.join(VERIF, "coq", "gen")
PKG = "ommx.v1"

SCALARS = ["double", "float", "int32", "int64", "uint32", "uint64", "sint32", "sint64",
           "fixed32", "fixed64", "sfixed32", "sfixed64", "bool", "string", "bytes"]
COQ_SCALAR = {"double": "SDouble", "float": "SFloat", "int32": "SInt32", "int64": "SInt64",
              "uint32": "SUInt32", "uint64": "SUInt64", "sint32": "SSInt32", "sint64": "SSInt64",
              "fixed32": "SFixed32", "fixed64": "SFixed64", "sfixed32": "SSFixed32",
              "sfixed64": "SSFixed64", "bool": "SBool", "string": "SString", "bytes": "SBytes"}
UNPACKABLE = {"string", "bytes"}
# FieldDescriptorProto.Type
DESC_TYPE = {1: "double", 2: "float", 3: "int64", 4: "uint64", 5: "int32", 6: "fixed64", 7: "fixed32",
             8: "bool", 9: "string", 12: "bytes", 13: "uint32", 15: "sfixed32", 16: "sfixed64",
             17: "sint32", 18: "sint64"}


class TranslatorError(Exception):
    pass


def norm(name):
    return name.replace("_", "").lower()


def norm_path(parts):
    return ".".join(norm(p) for p in parts)


# ======================================================================================
# IR:  {"messages": {normname: {"display": str, "fields": [field]}}, "enums": {normname: {"display", "values": [(normname, number, display)]}}}
# field = {"num": int, "name": norm, "display": str, "ty": ("s", kind) | ("e", normname) | ("m", normname),
#          "card": ("implicit",) | ("optional",) | ("repeated", packed) | ("map", keykind) | ("oneof", normgroup)}


def packable(ty):
    return ty[0] == "e" or (ty[0] == "s" and ty[1] not in UNPACKABLE)


def finish(ir):
    for m in ir["messages"].values():
        m["fields"].sort(key=lambda f: (f["num"], f["name"]))
    for e in ir["enums"].values():
        e["values"].sort(key=lambda v: (v[1], v[0]))
    return ir


# ======================================================================================
# 1. protobuf wire reader + FileDescriptorProto decoder (shared by protoc's set and the _pb2 bytes)


def rd_varint(b, i):
    r = 0
    s = 0
    while True:
        if i >= len(b):
            raise TranslatorError("descriptor: truncated varint")
        c = b[i]
        i += 1
        r |= (c & 0x7F) << s
        s += 7
        if c < 0x80:
            return r, i
        if s > 70:
            raise TranslatorError("descriptor: varint too long")


def rd_fields(b):
    """-> list of (field number, wire type, value)  value: int | bytes"""
    out = []
    i = 0
    while i < len(b):
        tag, i = rd_varint(b, i)
        fn, wt = tag >> 3, tag & 7
        if wt == 0:
            v, i = rd_varint(b, i)
        elif wt == 1:
            v = int.from_bytes(b[i:i + 8], "little")
            i += 8
        elif wt == 2:
            ln, i = rd_varint(b, i)
            if i + ln > len(b):
                raise TranslatorError("descriptor: truncated length-delimited field")
            v = bytes(b[i:i + ln])
            i += ln
        elif wt == 5:
            v = int.from_bytes(b[i:i + 4], "little")
            i += 4
        else:
            raise TranslatorError("descriptor: unsupported wire type %d" % wt)
        out.append((fn, wt, v))
    return out


def get1(fs, n, default=None):
    r = default
    for fn, _, v in fs:
        if fn == n:
            r = v
    return r


def getn(fs, n):
    return [v for fn, _, v in fs if fn == n]


def s_(x):
    return x.decode("utf-8") if isinstance(x, (bytes, bytearray)) else x


def strip_pkg(type_name, where):
    # ".ommx.v1.Instance.Description" -> ["Instance", "Description"]
    pre = "." + PKG + "."
    if not type_name.startswith(pre):
        raise TranslatorError("%s: type %s outside package %s" % (where, type_name, PKG))
    return type_name[len(pre):].split(".")


def ir_from_file_descriptors(files, origin):
    """files: list of serialized FileDescriptorProto"""
    ir = {"messages": {}, "enums": {}}
    seen_files = set()

    def do_enum(fs, scope):
        name = s_(get1(fs, 1))
        vals = []
        for vb in getn(fs, 2):
            vf = rd_fields(vb)
            num = get1(vf, 2, 0)
            if num >= 1 << 63:
                num -= 1 << 64
            elif num >= 1 << 31:
                num -= 1 << 32
            vals.append((norm(s_(get1(vf, 1))), num, s_(get1(vf, 1))))
        key = norm_path(scope + [name])
        if key in ir["enums"]:
            raise TranslatorError("%s: duplicate enum %s" % (origin, key))
        ir["enums"][key] = {"display": ".".join(scope + [name]), "values": vals}

    def do_msg(fs, scope):
        name = s_(get1(fs, 1))
        here = scope + [name]
        # nested types first: map entries are needed to fold map fields
        entries = {}
        for nb in getn(fs, 3):
            nf = rd_fields(nb)
            opts = get1(nf, 7)
            is_entry = bool(opts is not None and get1(rd_fields(opts), 7, 0))
            if is_entry:
                entries[s_(get1(nf, 1))] = nf
            else:
                do_msg(nf, here)
        for eb in getn(fs, 4):
            do_enum(rd_fields(eb), here)
        oneofs = [s_(get1(rd_fields(ob), 1)) for ob in getn(fs, 8)]
        fields = []
        for fb in getn(fs, 2):
            ff = rd_fields(fb)
            fname = s_(get1(ff, 1))
            where = "%s: %s.%s" % (origin, ".".join(here), fname)
            num = get1(ff, 3)
            label = get1(ff, 4, 1)
            t = get1(ff, 5)
            tname = s_(get1(ff, 6, b""))
            oneof_index = get1(ff, 9)
            p3opt = bool(get1(ff, 17, 0))
            opts = get1(ff, 8)
            packed_opt = None
            if opts is not None:
                po = get1(rd_fields(opts), 2)
                if po is not None:
                    packed_opt = bool(po)

            def mkty(t, tname):
                if t in DESC_TYPE:
                    return ("s", DESC_TYPE[t])
                if t == 14:
                    return ("e", norm_path(strip_pkg(tname, where)))
                if t == 11:
                    return ("m", norm_path(strip_pkg(tname, where)))
                raise TranslatorError("%s: unsupported field type %r" % (where, t))

            ty = mkty(t, tname)
            if label == 2:
                raise TranslatorError("%s: `required` (proto2) is not supported" % where)
            if label == 3:
                entry = None
                if t == 11:
                    parts = strip_pkg(tname, where)
                    if parts[:-1] == here and parts[-1] in entries:
                        entry = entries[parts[-1]]
                if entry is not None:
                    kf = vf = None
                    for eb in getn(entry, 2):
                        ef = rd_fields(eb)
                        if get1(ef, 3) == 1:
                            kf = ef
                        elif get1(ef, 3) == 2:
                            vf = ef
                    if kf is None or vf is None:
                        raise TranslatorError("%s: malformed map entry" % where)
                    kty = mkty(get1(kf, 5), s_(get1(kf, 6, b"")))
                    if kty[0] != "s":
                        raise TranslatorError("%s: non-scalar map key" % where)
                    ty = mkty(get1(vf, 5), s_(get1(vf, 6, b"")))
                    card = ("map", kty[1])
                else:
                    card = ("repeated", packable(ty) and packed_opt is not False)
            elif p3opt:
                card = ("optional",)
            elif oneof_index is not None:
                card = ("oneof", norm(oneofs[oneof_index]))
            elif ty[0] == "m":
                card = ("optional",)
            else:
                card = ("implicit",)
            fields.append({"num": num, "name": norm(fname), "display": fname, "ty": ty, "card": card})
        key = norm_path(here)
        if key in ir["messages"]:
            raise TranslatorError("%s: duplicate message %s" % (origin, key))
        ir["messages"][key] = {"display": ".".join(here), "fields": fields}

    for fb in files:
        fs = rd_fields(fb)
        fname = s_(get1(fs, 1))
        if fname in seen_files:
            continue
        seen_files.add(fname)
        if not fname.startswith("ommx/v1/"):
            continue     # imports from other packages (none today) are not part of the schema
        pkg = s_(get1(fs, 2, b""))
        syntax = s_(get1(fs, 12, b"proto2"))
        if pkg != PKG:
            raise TranslatorError("%s: %s has package %r" % (origin, fname, pkg))
        if syntax != "proto3":
            raise TranslatorError("%s: %s is %s, only proto3 is supported" % (origin, fname, syntax))
        for mb in getn(fs, 4):
            do_msg(rd_fields(mb), [])
        for eb in getn(fs, 5):
            do_enum(rd_fields(eb), [])
    return finish(ir), sorted(seen_files)


def proto_files():
    fs = sorted(glob.glob(os.path.join(REPO, "proto", "ommx", "v1", "*.proto")))
    if not fs:
        raise TranslatorError("no .proto files under %s/proto/ommx/v1" % REPO)
    return fs


def ir_from_protoc():
    out = os.path.join(VERIF, ".cache", "c07_descriptor_set.bin")
    os.makedirs(os.path.dirname(out), exist_ok=True)
    r = subprocess.run(["/usr/bin/protoc", "-I", os.path.join(REPO, "proto"), "--descriptor_set_out=" + out]
                       + proto_files(), stdout=subprocess.PIPE, stderr=subprocess.STDOUT)
    if r.returncode != 0:
        raise TranslatorError("protoc rejects the .proto files:\n" + r.stdout.decode("utf-8", "replace"))
    data = open(out, "rb").read()
    files = getn(rd_fields(data), 1)
    return ir_from_file_descriptors(files, "protoc")[0]


# ======================================================================================
# 2. own reader for the proto3 subset used by the files


PROTO_TOK = re.compile(r'\s*(?:(//[^\n]*|/\*.*?\*/)|("(?:\\.|[^"\\])*")|([A-Za-z_][A-Za-z0-9_.]*)|(-?\d+)|([{}\[\]()<>=;,]))', re.S)


def proto_tokens(text, path):
    pos = 0
    out = []
    n = len(text)
    while pos < n:
        if text[pos:].strip() == "":
            break
        m = PROTO_TOK.match(text, pos)
        if not m:
            raise TranslatorError("%s: cannot tokenise at %r" % (path, text[pos:pos + 40]))
        pos = m.end()
        if m.group(1) is not None:
            continue
        if m.group(2) is not None:
            out.append(("str", ast.literal_eval(m.group(2))))
        elif m.group(3) is not None:
            out.append(("id", m.group(3)))
        elif m.group(4) is not None:
            out.append(("num", int(m.group(4))))
        else:
            out.append((m.group(5), m.group(5)))
    return out


class ProtoReader:
    """recursive descent over: syntax / package / import / option / message / enum / field /
    map field / oneof / `optional` / `repeated` / field options [packed=..., deprecated=...] / reserved"""

    def __init__(self, toks, path):
        self.t = toks
        self.i = 0
        self.path = path
        self.msgs = []     # (scope list, name, raw fields)
        self.enums = []    # (scope list, name, values)

    def peek(self):
        return self.t[self.i] if self.i < len(self.t) else (None, None)

    def next(self):
        x = self.peek()
        self.i += 1
        return x

    def expect(self, k):
        x = self.next()
        if x[0] != k:
            raise TranslatorError("%s: expected %r, got %r" % (self.path, k, x))
        return x[1]

    def skip_stmt(self):
        while self.next()[0] not in (";", None):
            pass

    def file(self):
        syntax = None
        package = None
        while self.peek()[0] is not None:
            k, v = self.peek()
            if k == ";":
                self.next()
            elif v == "syntax":
                self.next()
                self.expect("=")
                syntax = self.expect("str")
                self.expect(";")
            elif v == "package":
                self.next()
                package = self.expect("id")
                self.expect(";")
            elif v in ("import", "option"):
                self.skip_stmt()
            elif v == "message":
                self.message([])
            elif v == "enum":
                self.enum([])
            else:
                raise TranslatorError("%s: unsupported top-level construct %r" % (self.path, v))
        if syntax != "proto3":
            raise TranslatorError("%s: syntax %r, only proto3 is supported" % (self.path, syntax))
        if package != PKG:
            raise TranslatorError("%s: package %r" % (self.path, package))

    def enum(self, scope):
        self.expect("id")
        name = self.expect("id")
        self.expect("{")
        vals = []
        while self.peek()[0] != "}":
            k, v = self.peek()
            if k == ";":
                self.next()
                continue
            if v in ("option", "reserved"):
                self.skip_stmt()
                continue
            vname = self.expect("id")
            self.expect("=")
            num = self.expect("num")
            self.field_options()
            self.expect(";")
            vals.append((vname, num))
        self.expect("}")
        self.enums.append((scope, name, vals))

    def field_options(self):
        opts = {}
        if self.peek()[0] == "[":
            self.next()
            while True:
                k = self.next()
                if k[0] == "(":      # custom option (name)
                    raise TranslatorError("%s: custom options are not supported" % self.path)
                self.expect("=")
                v = self.next()[1]
                opts[k[1]] = v
                d = self.next()[0]
                if d == "]":
                    break
                if d != ",":
                    raise TranslatorError("%s: bad field option list" % self.path)
        return opts

    def one_field(self, label, oneof=None):
        k, v = self.next()
        if v == "map" and self.peek()[0] == "<":
            self.next()
            kt = self.expect("id")
            self.expect(",")
            vt = self.expect("id")
            self.expect(">")
            name = self.expect("id")
            self.expect("=")
            num = self.expect("num")
            opts = self.field_options()
            self.expect(";")
            return {"name": name, "num": num, "label": "map", "key": kt, "type": vt, "opts": opts, "oneof": None}
        if k != "id":
            raise TranslatorError("%s: expected a field type, got %r" % (self.path, (k, v)))
        name = self.expect("id")
        self.expect("=")
        num = self.expect("num")
        opts = self.field_options()
        self.expect(";")
        return {"name": name, "num": num, "label": label, "type": v, "opts": opts, "oneof": oneof}

    def message(self, scope):
        self.expect("id")
        name = self.expect("id")
        here = scope + [name]
        self.expect("{")
        fields = []
        while self.peek()[0] != "}":
            k, v = self.peek()
            if k == ";":
                self.next()
            elif v == "message":
                self.message(here)
            elif v == "enum":
                self.enum(here)
            elif v in ("option", "reserved", "extensions"):
                self.skip_stmt()
            elif v == "oneof":
                self.next()
                g = self.expect("id")
                self.expect("{")
                while self.peek()[0] != "}":
                    if self.peek()[1] == "option":
                        self.skip_stmt()
                        continue
                    fields.append(self.one_field("oneof", oneof=g))
                self.expect("}")
            elif v in ("optional", "repeated"):
                self.next()
                fields.append(self.one_field(v))
            elif v == "required":
                raise TranslatorError("%s: `required` is not proto3" % self.path)
            else:
                fields.append(self.one_field("singular"))
        self.expect("}")
        self.msgs.append((scope, name, fields))


def ir_from_proto_text():
    msgs = []
    enums = []
    for p in proto_files():
        r = ProtoReader(proto_tokens(open(p).read(), p), p)
        r.file()
        msgs += r.msgs
        enums += r.enums
    # name resolution: innermost scope outwards (protobuf rules), then package
    known_m = {tuple(s + [n]) for s, n, _ in msgs}
    known_e = {tuple(s + [n]) for s, n, _ in enums}

    def resolve(tname, scope, where):
        if tname in SCALARS:
            return ("s", tname)
        parts = tname.split(".")
        if parts[0] == "":          # fully qualified ".ommx.v1.X"
            parts = strip_pkg(tname, where)
            cands = [tuple(parts)]
        else:
            if tname.startswith(PKG + "."):
                cands = [tuple(tname[len(PKG) + 1:].split("."))]
            else:
                cands = [tuple(scope[:k] + parts) for k in range(len(scope), -1, -1)]
        for c in cands:
            if c in known_m:
                return ("m", norm_path(c))
            if c in known_e:
                return ("e", norm_path(c))
        raise TranslatorError("%s: unknown type %s" % (where, tname))

    ir = {"messages": {}, "enums": {}}
    for scope, name, vals in enums:
        ir["enums"][norm_path(scope + [name])] = {
            "display": ".".join(scope + [name]), "values": [(norm(v), n, v) for v, n in vals]}
    for scope, name, fields in msgs:
        here = scope + [name]
        out = []
        for f in fields:
            where = "proto: %s.%s" % (".".join(here), f["name"])
            ty = resolve(f["type"], here, where)
            lab = f["label"]
            if lab == "map":
                if f["key"] not in SCALARS:
                    raise TranslatorError("%s: non-scalar map key" % where)
                card = ("map", f["key"])
            elif lab == "repeated":
                po = f["opts"].get("packed")
                card = ("repeated", packable(ty) and po != "false")
            elif lab == "optional":
                card = ("optional",)
            elif lab == "oneof":
                card = ("oneof", norm(f["oneof"]))
            elif ty[0] == "m":
                card = ("optional",)
            else:
                card = ("implicit",)
            out.append({"num": f["num"], "name": norm(f["name"]), "display": f["name"], "ty": ty, "card": card})
        key = norm_path(here)
        if key in ir["messages"]:
            raise TranslatorError("proto: duplicate message %s" % key)
        ir["messages"][key] = {"display": ".".join(here), "fields": out}
    return finish(ir)


# ======================================================================================
# 3. the Python bindings: descriptor bytes inside every *_pb2.py


def ir_from_pb2():
    files = sorted(glob.glob(os.path.join(REPO, "python", "ommx", "ommx", "v1", "*_pb2.py")))
    if not files:
        raise TranslatorError("no *_pb2.py under %s/python/ommx/ommx/v1" % REPO)
    blobs = []
    for p in files:
        try:
            tree = ast.parse(open(p).read(), p)
        except SyntaxError as e:
            raise TranslatorError("%s: %s" % (p, e))
        found = []
        for node in ast.walk(tree):
            if isinstance(node, ast.Call) and isinstance(node.func, ast.Attribute) \
                    and node.func.attr == "AddSerializedFile" and node.args:
                try:
                    v = ast.literal_eval(node.args[0])
                except Exception as e:
                    raise TranslatorError("%s: AddSerializedFile argument is not a literal: %s" % (p, e))
                if not isinstance(v, bytes):
                    raise TranslatorError("%s: AddSerializedFile argument is not bytes" % p)
                found.append(v)
        if len(found) != 1:
            raise TranslatorError("%s: expected exactly one AddSerializedFile call, found %d" % (p, len(found)))
        # the module must describe the .proto of the same stem
        fname = s_(get1(rd_fields(found[0]), 1, b""))
        stem = os.path.basename(p)[:-len("_pb2.py")]
        if fname != "ommx/v1/%s.proto" % stem:
            raise TranslatorError("%s describes %r" % (p, fname))
        blobs.append(found[0])
    ir, seen = ir_from_file_descriptors(blobs, "python")
    return ir, seen


# ======================================================================================
# 4. the Rust bindings: ommx.v1.rs


RUST_TOK = re.compile(r'\s*(?:(//[^\n]*)|("(?:\\.|[^"\\])*")|(r#[A-Za-z_][A-Za-z0-9_]*|[A-Za-z_][A-Za-z0-9_]*)|(-?\d+)|(::|=>|->)|([#\[\](){}<>=;,:&\'!.*?|+-]))')

RUST_BASE = {"double": "f64", "float": "f32", "int32": "i32", "sint32": "i32", "sfixed32": "i32",
             "int64": "i64", "sint64": "i64", "sfixed64": "i64", "uint32": "u32", "fixed32": "u32",
             "uint64": "u64", "fixed64": "u64", "bool": "bool",
             "string": "::prost::alloc::string::String", "enumeration": "i32"}


def rust_tokens(text, path):
    pos = 0
    out = []
    n = len(text)
    while pos < n:
        if text[pos:].strip() == "":
            break
        m = RUST_TOK.match(text, pos)
        if not m:
            raise TranslatorError("%s: cannot tokenise at %r" % (path, text[pos:pos + 40]))
        pos = m.end()
        if m.group(1) is not None:
            continue
        if m.group(2) is not None:
            out.append(("str", ast.literal_eval(m.group(2))))
        elif m.group(3) is not None:
            out.append(("id", m.group(3)))
        elif m.group(4) is not None:
            out.append(("num", int(m.group(4))))
        elif m.group(5) is not None:
            out.append((m.group(5), m.group(5)))
        else:
            out.append((m.group(6), m.group(6)))
    return out


class RustReader:
    def __init__(self, toks, path):
        self.t = toks
        self.i = 0
        self.path = path
        self.structs = []   # (mods, name, derives, [(attrs, fname, type_text)])
        self.enums = []     # (mods, name, derives, repr, [(attrs, vname, payload_type_text | None, discriminant | None)])
        self.impls = []     # (mods, name, {"as_str_name": {variant: str}, "from_str_name": {str: variant}})

    def peek(self, k=0):
        j = self.i + k
        return self.t[j] if j < len(self.t) else (None, None)

    def next(self):
        x = self.peek()
        self.i += 1
        return x

    def expect(self, k):
        x = self.next()
        if x[0] != k:
            raise TranslatorError("%s: expected %r, got %r (token %d)" % (self.path, k, x, self.i))
        return x[1]

    def balanced(self, open_, close):
        """after `open_` has been consumed: collect tokens up to the matching close"""
        depth = 1
        out = []
        while True:
            x = self.next()
            if x[0] is None:
                raise TranslatorError("%s: unbalanced %s" % (self.path, open_))
            if x[0] == open_:
                depth += 1
            elif x[0] == close:
                depth -= 1
                if depth == 0:
                    return out
            out.append(x)

    def attrs(self):
        out = []
        while self.peek()[0] == "#":
            self.next()
            if self.peek()[0] == "!":
                self.next()
            self.expect("[")
            out.append(self.balanced("[", "]"))
        return out

    def type_text(self, stop):
        """collect a type up to a `stop` token at nesting depth 0"""
        depth = 0
        out = []
        while True:
            k, v = self.peek()
            if k is None:
                raise TranslatorError("%s: unterminated type" % self.path)
            if depth == 0 and k in stop:
                return "".join(str(x[1]) for x in out)
            if k in ("<", "(", "["):
                depth += 1
            elif k in (">", ")", "]"):
                depth -= 1
            out.append(self.next())

    def items(self, mods):
        while True:
            k, v = self.peek()
            if k is None or k == "}":
                return
            at = self.attrs()
            k, v = self.peek()
            if v == "pub":
                self.next()
                if self.peek()[0] == "(":       # pub(crate)
                    self.next()
                    self.balanced("(", ")")
                k, v = self.peek()
            if v == "mod":
                self.next()
                name = self.expect("id")
                self.expect("{")
                self.items(mods + [name])
                self.expect("}")
            elif v == "struct":
                self.next()
                name = self.expect("id")
                fields = []
                if self.peek()[0] == ";":
                    self.next()
                else:
                    self.expect("{")
                    while self.peek()[0] != "}":
                        fa = self.attrs()
                        if self.peek()[1] == "pub":
                            self.next()
                        fname = self.expect("id")
                        self.expect(":")
                        ty = self.type_text((",", "}"))
                        if self.peek()[0] == ",":
                            self.next()
                        fields.append((fa, fname, ty))
                    self.expect("}")
                self.structs.append((mods, name, at, fields))
            elif v == "enum":
                self.next()
                name = self.expect("id")
                self.expect("{")
                variants = []
                while self.peek()[0] != "}":
                    va = self.attrs()
                    vname = self.expect("id")
                    payload = None
                    disc = None
                    if self.peek()[0] == "(":
                        self.next()
                        payload = self.type_text((")",))
                        self.expect(")")
                    if self.peek()[0] == "=":
                        self.next()
                        disc = self.expect("num")
                    if self.peek()[0] == ",":
                        self.next()
                    variants.append((va, vname, payload, disc))
                self.expect("}")
                self.enums.append((mods, name, at, variants))
            elif v == "impl":
                self.next()
                head = []
                while self.peek()[0] != "{":
                    head.append(self.next())
                self.expect("{")
                body = self.balanced("{", "}")
                if len(head) == 1:
                    self.impls.append((mods, head[0][1], body))
            elif v in ("use", "const", "type", "static"):
                while self.next()[0] not in (";", None):
                    pass
            else:
                raise TranslatorError("%s: unsupported item starting with %r in module %s"
                                      % (self.path, v, "::".join(mods) or "<root>"))


def attr_text(toks):
    return "".join(str(x[1]) if x[0] != "str" else json.dumps(x[1]) for x in toks)


def prost_attr(attrs, where):
    """-> ordered list of (key, value|None) of the single #[prost(...)] attribute, or None"""
    found = None
    for a in attrs:
        if a and a[0] == ("id", "prost"):
            if found is not None:
                raise TranslatorError("%s: two #[prost] attributes" % where)
            if len(a) < 3 or a[1][0] != "(" or a[-1][0] != ")":
                raise TranslatorError("%s: malformed #[prost] attribute" % where)
            inner = a[2:-1]
            items = []
            cur = []
            for x in inner + [(",", ",")]:
                if x[0] == ",":
                    if cur:
                        if len(cur) == 1 and cur[0][0] == "id":
                            items.append((cur[0][1], None))
                        elif len(cur) == 3 and cur[0][0] == "id" and cur[1][0] == "=" and cur[2][0] == "str":
                            items.append((cur[0][1], cur[2][1]))
                        else:
                            raise TranslatorError("%s: unsupported #[prost] item %s" % (where, attr_text(cur)))
                    cur = []
                else:
                    cur.append(x)
            found = items
    return found


def derives(attrs):
    out = set()
    for a in attrs:
        if a and a[0] == ("id", "derive"):
            txt = attr_text(a)
            for m in re.finditer(r"(?:::)?prost::(\w+)", txt):
                out.add(m.group(1))
    return out


def has_repr_i32(attrs):
    return any(attr_text(a).replace(" ", "") == "repr(i32)" for a in attrs)


def rust_resolve(path_text, mods, where):
    """`instance::Description`, `super::Linear`, `decision_variable::Kind` relative to module `mods`"""
    p = path_text.strip()
    if p.startswith("::") or p.startswith("crate::"):
        raise TranslatorError("%s: absolute path %s not supported" % (where, p))
    parts = p.split("::")
    cur = list(mods)
    while parts and parts[0] == "super":
        if not cur:
            raise TranslatorError("%s: `super` above the root in %s" % (where, p))
        cur.pop()
        parts = parts[1:]
    while parts and parts[0] == "self":
        parts = parts[1:]
    return norm_path(cur + parts)


def unwrap(ty, wrapper):
    ty = ty.strip()
    for w in wrapper:
        if ty.startswith(w + "<") and ty.endswith(">"):
            return ty[len(w) + 1:-1]
    return None


def split_top(s, sep=","):
    out = []
    depth = 0
    cur = ""
    for ch in s:
        if ch in "<([":
            depth += 1
        elif ch in ">)]":
            depth -= 1
        if ch == sep and depth == 0:
            out.append(cur)
            cur = ""
        else:
            cur += ch
    if cur.strip():
        out.append(cur)
    return [x.strip() for x in out]


OPT = ("::core::option::Option", "Option", "::std::option::Option")
VEC = ("::prost::alloc::vec::Vec", "Vec", "::std::vec::Vec")
BOX = ("::prost::alloc::boxed::Box", "Box")
MAPS = ("::std::collections::HashMap", "::prost::alloc::collections::BTreeMap", "HashMap", "BTreeMap",
        "::std::collections::BTreeMap")


def ir_from_rust():
    path = os.path.join(REPO, "rust", "ommx", "src", "ommx.v1.rs")
    if not os.path.exists(path):
        raise TranslatorError("missing %s" % path)
    r = RustReader(rust_tokens(open(path).read(), path), path)
    r.items([])
    if r.peek()[0] is not None:
        raise TranslatorError("%s: trailing tokens" % path)

    oneof_enums = {}
    for mods, name, at, variants in r.enums:
        if "Oneof" in derives(at):
            oneof_enums[norm_path(mods + [name])] = (mods, name, variants)

    ir = {"messages": {}, "enums": {}}

    def field_of(pa, fname, ty_text, mods, where, in_oneof=None):
        """one prost-annotated struct field / oneof arm -> IR field"""
        keys = [k for k, _ in pa]
        d = dict(pa)
        tag = d.get("tag")
        if tag is None or not re.fullmatch(r"\d+", tag):
            raise TranslatorError("%s: missing tag" % where)
        num = int(tag)
        kinds = [k for k in keys if k in SCALARS + ["message", "enumeration", "map", "group"]]
        if len(kinds) != 1:
            raise TranslatorError("%s: cannot determine the prost kind from %s" % (where, keys))
        kind = kinds[0]
        if kind == "group":
            raise TranslatorError("%s: groups are not supported" % where)
        label = [k for k in keys if k in ("optional", "repeated", "required")]
        if len(label) > 1:
            raise TranslatorError("%s: several labels" % where)
        label = label[0] if label else None
        if label == "required":
            raise TranslatorError("%s: `required` (proto2) is not supported" % where)
        ty_text = ty_text.strip()
        if kind == "map":
            spec = split_top(d["map"])
            if len(spec) != 2 or spec[0] not in SCALARS:
                raise TranslatorError("%s: unsupported map spec %r" % (where, d["map"]))
            inner = unwrap(ty_text, MAPS)
            if inner is None:
                raise TranslatorError("%s: map field has Rust type %s" % (where, ty_text))
            kt, vt = split_top(inner)
            if spec[0] != "bytes" and kt != RUST_BASE[spec[0]]:
                raise TranslatorError("%s: map key %s has Rust type %s" % (where, spec[0], kt))
            if spec[1] in SCALARS:
                if spec[1] != "bytes" and vt != RUST_BASE[spec[1]]:
                    raise TranslatorError("%s: map value %s has Rust type %s" % (where, spec[1], vt))
                ty = ("s", spec[1])
            elif spec[1] == "message":
                ty = ("m", rust_resolve(vt, mods, where))
            else:
                m = re.fullmatch(r"enumeration\((.*)\)", spec[1])
                if not m:
                    raise TranslatorError("%s: unsupported map value %r" % (where, spec[1]))
                if vt != "i32":
                    raise TranslatorError("%s: enumeration map value has Rust type %s" % (where, vt))
                ty = ("e", rust_resolve(m.group(1), mods, where))
            return {"num": num, "name": norm(fname), "display": fname, "ty": ty, "card": ("map", spec[0])}
        # peel the wrapper demanded by the label
        if in_oneof is not None:
            if label is not None:
                raise TranslatorError("%s: label inside a oneof" % where)
            base = ty_text
        elif label == "optional":
            base = unwrap(ty_text, OPT)
            if base is None:
                raise TranslatorError("%s: optional field has Rust type %s" % (where, ty_text))
        elif label == "repeated":
            base = unwrap(ty_text, VEC)
            if base is None:
                raise TranslatorError("%s: repeated field has Rust type %s" % (where, ty_text))
        else:
            base = ty_text
        b2 = unwrap(base, BOX)
        if b2 is not None:
            base = b2
        if kind == "message":
            ty = ("m", rust_resolve(base, mods, where))
        elif kind == "enumeration":
            if base != "i32":
                raise TranslatorError("%s: enumeration field has Rust type %s" % (where, base))
            ty = ("e", rust_resolve(d["enumeration"], mods, where))
        else:
            if kind != "bytes" and base != RUST_BASE[kind]:
                raise TranslatorError("%s: prost kind %s but Rust type %s" % (where, kind, base))
            ty = ("s", kind)
        if in_oneof is not None:
            card = ("oneof", in_oneof)
        elif label == "repeated":
            card = ("repeated", packable(ty) and d.get("packed") != "false")
        elif label == "optional" or ty[0] == "m":
            card = ("optional",)
        else:
            card = ("implicit",)
        return {"num": num, "name": norm(fname), "display": fname, "ty": ty, "card": card}

    used_oneofs = set()
    for mods, name, at, fields in r.structs:
        if "Message" not in derives(at):
            raise TranslatorError("%s: struct %s does not derive ::prost::Message" % (path, name))
        out = []
        for fa, fname, ty in fields:
            fname = fname[2:] if fname.startswith("r#") else fname
            where = "rust: %s.%s" % ("::".join(mods + [name]), fname)
            pa = prost_attr(fa, where)
            if pa is None:
                raise TranslatorError("%s: field without #[prost] attribute" % where)
            d = dict(pa)
            if "oneof" in d:
                key = rust_resolve(d["oneof"], mods, where)
                if key not in oneof_enums:
                    raise TranslatorError("%s: oneof enum %s not found" % (where, d["oneof"]))
                if unwrap(ty, OPT) is None or rust_resolve(unwrap(ty, OPT), mods, where) != key:
                    raise TranslatorError("%s: oneof field has Rust type %s" % (where, ty))
                used_oneofs.add(key)
                omods, oname, variants = oneof_enums[key]
                arms = []
                for va, vname, payload, disc in variants:
                    w2 = "rust: %s::%s" % ("::".join(omods + [oname]), vname)
                    pa2 = prost_attr(va, w2)
                    if pa2 is None or payload is None:
                        raise TranslatorError("%s: oneof arm without #[prost] attribute or payload" % w2)
                    arms.append(field_of(pa2, vname, payload, omods, w2, in_oneof=norm(fname)))
                tags = sorted(int(x) for x in split_top(d.get("tags", "")))
                if tags != sorted(a["num"] for a in arms):
                    raise TranslatorError("%s: tags = %r but the arms of %s have %r"
                                          % (where, d.get("tags"), d["oneof"], sorted(a["num"] for a in arms)))
                out += arms
            else:
                out.append(field_of(pa, fname, ty, mods, where))
        key = norm_path(mods + [name])
        if key in ir["messages"]:
            raise TranslatorError("rust: duplicate message %s" % key)
        ir["messages"][key] = {"display": "::".join(mods + [name]), "fields": out}
    for k in oneof_enums:
        if k not in used_oneofs:
            raise TranslatorError("rust: oneof enum %s is not used by any struct" % k)

    impls = {}
    for mods, name, body in r.impls:
        impls[norm_path(mods + [name])] = (name, body)
    for mods, name, at, variants in r.enums:
        dv = derives(at)
        if "Oneof" in dv:
            continue
        where = "rust: enum %s" % "::".join(mods + [name])
        if "Enumeration" not in dv:
            raise TranslatorError("%s derives neither ::prost::Enumeration nor ::prost::Oneof" % where)
        if not has_repr_i32(at):
            raise TranslatorError("%s lacks #[repr(i32)]" % where)
        key = norm_path(mods + [name])
        if key not in impls:
            raise TranslatorError("%s: no impl with as_str_name (prost >= 0.11 expected)" % where)
        _, body = impls[key]
        txt = " ".join(json.dumps(x[1]) if x[0] == "str" else str(x[1]) for x in body)
        # `Name :: Variant => "PROTO_NAME" ,`   and   `"PROTO_NAME" => Some ( Self :: Variant ) ,`
        as_str = dict(re.findall(r"%s :: (\w+) => (\"[^\"]*\")" % re.escape(name), txt))
        from_str = {v: k for k, v in re.findall(r"(\"[^\"]*\") => Some \( Self :: (\w+) \)", txt)}
        vals = []
        for va, vname, payload, disc in variants:
            if payload is not None or disc is None:
                raise TranslatorError("%s::%s: not a plain `Variant = number`" % (where, vname))
            if vname not in as_str:
                raise TranslatorError("%s::%s missing from as_str_name" % (where, vname))
            if from_str.get(vname) != as_str[vname]:
                raise TranslatorError("%s::%s: as_str_name and from_str_name disagree" % (where, vname))
            pname = json.loads(as_str[vname])
            vals.append((norm(pname), disc, pname, vname))
        ir["enums"][key] = {"display": "::".join(mods + [name]), "values": [v[:3] for v in vals],
                            "variants": {v[3]: v[1] for v in vals}}
    return finish(ir)


# ======================================================================================
# 5. comparison of two IRs (for the proto self-check and for the diff that drives the search)


def field_sig(f):
    return (f["num"], f["name"], tuple(f["ty"]), tuple(f["card"]))


def diff_ir(a, b, na, nb):
    """list of dict(kind, message/enum, field, a, b) — what differs between two schemas"""
    out = []
    for m in sorted(set(a["messages"]) | set(b["messages"])):
        if m not in a["messages"] or m not in b["messages"]:
            out.append({"kind": "message-missing", "message": m, "missing_in": na if m not in a["messages"] else nb})
            continue
        fa = {f["num"]: f for f in a["messages"][m]["fields"]}
        fb = {f["num"]: f for f in b["messages"][m]["fields"]}
        na_by_name = {f["name"]: f for f in a["messages"][m]["fields"]}
        nb_by_name = {f["name"]: f for f in b["messages"][m]["fields"]}
        for n in sorted(set(fa) | set(fb)):
            x, y = fa.get(n), fb.get(n)
            if x is None or y is None or field_sig(x) != field_sig(y):
                out.append({"kind": "field", "message": m, "number": n,
                            na: None if x is None else field_sig(x), nb: None if y is None else field_sig(y),
                            "names": sorted({f["name"] for f in (x, y) if f is not None})})
        for nm in sorted(set(na_by_name) & set(nb_by_name)):
            if na_by_name[nm]["num"] != nb_by_name[nm]["num"]:
                pass    # already reported through both numbers
    for e in sorted(set(a["enums"]) | set(b["enums"])):
        if e not in a["enums"] or e not in b["enums"]:
            out.append({"kind": "enum-missing", "enum": e, "missing_in": na if e not in a["enums"] else nb})
            continue
        va = [v[:2] for v in a["enums"][e]["values"]]
        vb = [v[:2] for v in b["enums"][e]["values"]]
        if va != vb:
            out.append({"kind": "enum", "enum": e, na: va, nb: vb})
    return out


# ======================================================================================
# 6. Coq output


def coq_str(s):
    if not all(32 <= ord(c) < 127 for c in s):
        raise TranslatorError("non-ASCII name %r" % s)
    return '"' + s.replace('"', '""') + '"'


def coq_ty(ty):
    if ty[0] == "s":
        return "(TS %s)" % COQ_SCALAR[ty[1]]
    return "(%s %s)" % ("TE" if ty[0] == "e" else "TM", coq_str(ty[1]))


def coq_card(c):
    if c[0] == "implicit":
        return "CImplicit"
    if c[0] == "optional":
        return "COptional"
    if c[0] == "repeated":
        return "(CRepeated %s)" % ("true" if c[1] else "false")
    if c[0] == "map":
        return "(CMap %s)" % COQ_SCALAR[c[1]]
    return "(COneof %s)" % coq_str(c[1])


def coq_schema(ir, name, origin):
    lines = ["(* GENERATED by tools/translate_schema.py from %s — rewritten on every run, do not edit. *)" % origin,
             "Require Import Ommx.Schema.",
             "From Coq Require Import String List NArith ZArith.",
             "Import ListNotations.", "Open Scope string_scope.", "",
             "Definition %s : schema := mkS" % name, "  ["]
    ms = []
    for k in sorted(ir["messages"]):
        m = ir["messages"][k]
        fs = ";\n      ".join("mkF %d %s %s %s" % (f["num"], coq_str(f["name"]), coq_ty(f["ty"]), coq_card(f["card"]))
                              for f in m["fields"])
        ms.append("    (* %s *)\n    mkM %s [\n      %s]" % (m["display"], coq_str(k), fs))
    lines.append(";\n".join(ms))
    lines.append("  ]")
    lines.append("  [")
    es = []
    for k in sorted(ir["enums"]):
        e = ir["enums"][k]
        vs = "; ".join("(%s, %s%%Z)" % (coq_str(v[0]), "%d" % v[1] if v[1] >= 0 else "(%d)" % v[1]) for v in e["values"])
        es.append("    (* %s *)\n    mkE %s [%s]" % (e["display"], coq_str(k), vs))
    lines.append(";\n".join(es))
    lines.append("  ].")
    return "\n".join(lines) + "\n"


AGREE = """(* GENERATED by tools/translate_schema.py — the obligations re-proved on every run against the
   schemas regenerated from /repo's current .proto files, ommx.v1.rs and *_pb2.py. *)
Require Import Ommx.Schema Ommx.Codec OmmxGen.SchemaProto OmmxGen.SchemaRust OmmxGen.SchemaPy.
From Coq Require Import String List NArith ZArith.

Lemma schema_rust_eqb : schema_eqb schema_rust schema_proto = true.
Proof. vm_compute. reflexivity. Qed.

Lemma schema_py_eqb : schema_eqb schema_py schema_proto = true.
Proof. vm_compute. reflexivity. Qed.

Theorem schemas_agree : schema_rust = schema_proto /\\ schema_py = schema_proto.
Proof.
  split; apply schema_eqb_sound; [exact schema_rust_eqb | exact schema_py_eqb].
Qed.

Theorem schema_wf : wf_schema schema_proto = true.
Proof. vm_compute. reflexivity. Qed.

(* every scalar kind the published schema uses is one the codec model implements *)
Theorem schema_supported : codec_supports schema_proto = true.
Proof. vm_compute. reflexivity. Qed.

(* size of what was compared (non-vacuity of the obligations) *)
Definition schema_counts : (nat * nat * nat) :=
  (List.length (s_msgs schema_proto), List.length (s_enums schema_proto),
   List.fold_right (fun m n => (List.length (m_fields m) + n)%%nat) 0%%nat (s_msgs schema_proto)).
Lemma schema_counts_eq : schema_counts = (%d, %d, %d)%%nat.
Proof. vm_compute. reflexivity. Qed.
"""


def write_if_changed(path, text):
    old = open(path).read() if os.path.exists(path) else None
    if old != text:
        tmp = path + ".tmp"
        with open(tmp, "w") as fh:
            fh.write(text)
        os.replace(tmp, path)
        return True
    return False


def strip_display(ir):
    """IR for JSON consumers (generators, Debug bridge)"""
    return ir


def translate(write=True):
    """returns dict(proto, rust, py, diff_rust, diff_py, self_check, files_changed)"""
    p_text = ir_from_proto_text()
    p_protoc = ir_from_protoc()
    self_diff = diff_ir(p_text, p_protoc, "own_reader", "protoc")
    if self_diff:
        raise TranslatorError("the two readings of the .proto files disagree (translator broken): %s"
                              % json.dumps(self_diff)[:2000])
    rust = ir_from_rust()
    py, py_files = ir_from_pb2()
    proto_stems = sorted("ommx/v1/" + os.path.basename(p) for p in proto_files())
    res = {"proto": p_text, "rust": rust, "py": py,
           "diff_rust": diff_ir(rust, p_text, "rust", "proto"),
           "diff_py": diff_ir(py, p_text, "python", "proto"),
           "py_files": py_files, "proto_files": proto_stems, "changed": []}
    if [f for f in py_files if f.startswith("ommx/v1/")] != proto_stems:
        res["diff_py"].append({"kind": "file-set", "python": py_files, "proto": proto_stems})
    if write:
        os.makedirs(GEN, exist_ok=True)
        nm = len(p_text["messages"])
        ne = len(p_text["enums"])
        nf = sum(len(m["fields"]) for m in p_text["messages"].values())
        outs = [("SchemaProto.v", coq_schema(p_text, "schema_proto", "proto/ommx/v1/*.proto (own reader, cross-checked against protoc)")),
                ("SchemaRust.v", coq_schema(rust, "schema_rust", "rust/ommx/src/ommx.v1.rs")),
                ("SchemaPy.v", coq_schema(py, "schema_py", "python/ommx/ommx/v1/*_pb2.py")),
                ("SchemaAgree.v", AGREE % (nm, ne, nf))]
        for fn, text in outs:
            if write_if_changed(os.path.join(GEN, fn), text):
                res["changed"].append(fn)
    return res


def main():
    try:
        res = translate(write=True)
    except TranslatorError as e:
        print("TRANSLATOR ERROR: %s" % e)
        return 3
    p = res["proto"]
    print("schema: %d messages, %d enums, %d fields; rewritten: %s" % (
        len(p["messages"]), len(p["enums"]), sum(len(m["fields"]) for m in p["messages"].values()),
        res["changed"] or "nothing"))
    for d in res["diff_rust"]:
        print("DIFF rust/proto: %s" % json.dumps(d))
    for d in res["diff_py"]:
        print("DIFF python/proto: %s" % json.dumps(d))
    return 0


if __name__ == "__main__":
    sys.exit(main())
