# /verif top-level: `make setup` builds everything from files on disk (offline).
.PHONY: setup coq harness clean
setup:
	python3 tools/setup.py all
coq:
	python3 tools/setup.py coq
harness:
	python3 tools/setup.py harness
clean:
	rm -rf .cache coq/Makefile coq/Makefile.conf coq/.Makefile.d coq/.srcs.stamp
	find coq \( -name '*.vo' -o -name '*.vok' -o -name '*.vos' -o -name '*.glob' -o -name '.*.aux' \) -delete
