# /verif top-level: `make setup` builds everything from files on disk (offline).
.PHONY: setup coq harness clean
setup: coq harness

coq:
	cd coq && coq_makefile -f _CoqProject -o Makefile $$(ls theories/*.v props/*.v gen/*.v 2>/dev/null) \
	  && ls theories/*.v props/*.v gen/*.v 2>/dev/null > .srcs.stamp.tmp \
	  && python3 -c "import sys; open('.srcs.stamp','w').write('\n'.join(open('.srcs.stamp.tmp').read().split()))" \
	  && rm -f .srcs.stamp.tmp && timeout 3000 $(MAKE) -j16

harness:
	cp -n /repo/Cargo.lock harness/Cargo.lock || true
	cd harness && CARGO_NET_OFFLINE=true CARGO_TARGET_DIR=/verif/.cache/target RUSTFLAGS="--cfg ommx_verif" cargo build --release --offline

clean:
	rm -rf .cache coq/Makefile coq/Makefile.conf coq/.Makefile.d coq/.srcs.stamp
	find coq -name '*.vo' -o -name '*.vok' -o -name '*.vos' -o -name '*.glob' -o -name '.*.aux' | xargs rm -f
