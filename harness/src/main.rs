//! ommx-verif-harness: runs the real SDK on cases read from stdin (one JSON array
//! `[op, input]` per line) and prints one JSON result tree per line.
#![allow(dead_code)]
mod conv;
mod ops;
mod tree;

use std::io::{BufRead, Write};
use std::panic::{catch_unwind, AssertUnwindSafe};
use tree::*;

fn main() {
    std::panic::set_hook(Box::new(|_| {}));
    let stdin = std::io::stdin();
    let stdout = std::io::stdout();
    let mut out = std::io::BufWriter::new(stdout.lock());
    for line in stdin.lock().lines() {
        let line = line.expect("stdin");
        if line.trim().is_empty() {
            continue;
        }
        let res = match serde_json::from_str::<serde_json::Value>(&line) {
            Err(e) => L(vec![a("badcase"), a(&format!("json: {e}"))]),
            Ok(v) => match Tree::from_json(&v) {
                Err(e) => L(vec![a("badcase"), a(&e)]),
                Ok(case) => run_case(&case),
            },
        };
        writeln!(out, "{}", res.to_json()).unwrap();
        out.flush().unwrap();
    }
}

fn run_case(case: &Tree) -> Tree {
    let xs = match case.as_list() {
        Ok(xs) if xs.len() == 2 => xs,
        _ => return L(vec![a("badcase"), a("case must be [op, input]")]),
    };
    let op = match xs[0].as_str() {
        Ok(s) => s.to_string(),
        Err(e) => return L(vec![a("badcase"), a(&e)]),
    };
    let input = xs[1].clone();
    match catch_unwind(AssertUnwindSafe(|| ops::dispatch(&op, &input))) {
        Ok(Ok(t)) => t,
        Ok(Err(e)) => L(vec![a("badcase"), a(&e)]),
        Err(p) => {
            let msg = if let Some(s) = p.downcast_ref::<&str>() {
                s.to_string()
            } else if let Some(s) = p.downcast_ref::<String>() {
                s.clone()
            } else {
                "panic".to_string()
            };
            L(vec![a("panic"), a(&msg)])
        }
    }
}
