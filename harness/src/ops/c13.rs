//! C13: integer-slack conversions.
use crate::conv::*;
use crate::tree::*;

fn classify(e: &anyhow::Error) -> Tree {
    let kind = if e.downcast_ref::<ommx::InfeasibleDetected>().is_some() {
        "infeasible"
    } else {
        "other"
    };
    err(kind, &format!("{e:#}"))
}

/// convert_slack: [instance, constraint id, max_integer_range, _] -> [ok | err, instance afterwards]
fn convert_slack(input: &Tree) -> Result<Tree, String> {
    let xs = input.as_list()?;
    let mut ins = d_instance(&xs[0])?;
    let r = match ins.convert_inequality_to_equality_with_integer_slack(xs[1].as_u64()?, xs[2].as_u64()?) {
        Ok(()) => ok(L(vec![])),
        Err(e) => classify(&e),
    };
    Ok(L(vec![r, e_instance(&ins)]))
}

/// add_slack: [instance, constraint id, slack_upper_bound, _] -> [ok (opt b) | err, instance afterwards]
fn add_slack(input: &Tree) -> Result<Tree, String> {
    let xs = input.as_list()?;
    let mut ins = d_instance(&xs[0])?;
    let r = match ins.add_integer_slack_to_inequality(xs[1].as_u64()?, xs[2].as_u64()?) {
        Ok(b) => ok(opt(b, f)),
        Err(e) => classify(&e),
    };
    Ok(L(vec![r, e_instance(&ins)]))
}

pub fn dispatch(op: &str, input: &Tree) -> Option<Result<Tree, String>> {
    match op {
        "convert_slack" => Some(convert_slack(input)),
        "add_slack" => Some(add_slack(input)),
        _ => None,
    }
}
