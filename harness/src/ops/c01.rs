use crate::conv::*;
use crate::tree::*;
use ommx::Evaluate;

/// evaluate: input [function, state] -> ok [value, used ids] | err   (evaluate and evaluate_samples must agree)
pub fn evaluate(input: &Tree) -> Result<Tree, String> {
    let xs = input.as_list()?;
    let fun = d_function(&xs[0])?;
    let st = d_state(&xs[1])?;
    // the same function over a sample collection holding this state under two sample ids: `evaluate_samples` must give
    // that value to both ids and report the same used ids (every stored variant, the unset oneof included)
    let mut entry = ommx::v1::samples::SamplesEntry::default();
    entry.state = Some(st.clone());
    entry.ids = vec![3, 1 << 40];
    let mut samples = ommx::v1::Samples::default();
    samples.entries = vec![entry];
    let sampled = fun.evaluate_samples(&samples);
    Ok(match fun.evaluate(&st) {
        Ok((v, ids)) => match sampled {
            Ok((sv, sids)) => {
                let same = |x: Option<f64>| matches!(x, Some(w) if w.to_bits() == v.to_bits() || (w == v));
                if !same(sv.get(3)) || !same(sv.get(1 << 40)) {
                    err("evaluate_samples", &format!("sampled values {:?} / {:?} differ from the value {v}", sv.get(3), sv.get(1 << 40)))
                } else if sids != ids {
                    // report the ids of the sampled evaluation: the judge compares them with the occurring ids
                    ok(L(vec![f(v), e_ids(sids.iter())]))
                } else {
                    ok(L(vec![f(v), e_ids(ids.iter())]))
                }
            }
            Err(e) => err("evaluate_samples", &format!("{e:#}")),
        },
        Err(e) => match sampled {
            Err(_) => err("evaluate", &format!("{e:#}")),
            // the single evaluation fails but the sampled one succeeds: hand the judge a success it must reject
            Ok((sv, sids)) => ok(L(vec![f(sv.get(3).unwrap_or(f64::NAN)), e_ids(sids.iter())])),
        },
    })
}

pub fn dispatch(op: &str, input: &Tree) -> Option<Result<Tree, String>> {
    match op {
        "evaluate" | "evaluate_f" => Some(evaluate(input)),
        _ => None,
    }
}
