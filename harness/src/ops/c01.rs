use crate::conv::*;
use crate::tree::*;
use ommx::Evaluate;

/// evaluate: input [function, state] -> ok [value, used ids] | err
pub fn evaluate(input: &Tree) -> Result<Tree, String> {
    let xs = input.as_list()?;
    let fun = d_function(&xs[0])?;
    let st = d_state(&xs[1])?;
    Ok(match fun.evaluate(&st) {
        Ok((v, ids)) => ok(L(vec![f(v), e_ids(ids.iter())])),
        Err(e) => err("evaluate", &format!("{e:#}")),
    })
}

pub fn dispatch(op: &str, input: &Tree) -> Option<Result<Tree, String>> {
    match op {
        "evaluate" | "evaluate_f" => Some(evaluate(input)),
        _ => None,
    }
}
