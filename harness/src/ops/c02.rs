//! C02: every operator impl of the public API on the seven operand kinds.
use crate::conv::*;
use crate::tree::*;
use ommx::v1::{DecisionVariable, Function, Linear, Parameter, Polynomial, Quadratic};

pub enum Operand {
    Num(f64),
    Var(DecisionVariable),
    Param(Parameter),
    Lin(Linear),
    Quad(Quadratic),
    Poly(Polynomial),
    Fun(Function),
}

pub trait IntoOperand {
    fn into_operand(self) -> Operand;
}
impl IntoOperand for f64 {
    fn into_operand(self) -> Operand {
        Operand::Num(self)
    }
}
impl IntoOperand for Linear {
    fn into_operand(self) -> Operand {
        Operand::Lin(self)
    }
}
impl IntoOperand for Quadratic {
    fn into_operand(self) -> Operand {
        Operand::Quad(self)
    }
}
impl IntoOperand for Polynomial {
    fn into_operand(self) -> Operand {
        Operand::Poly(self)
    }
}
impl IntoOperand for Function {
    fn into_operand(self) -> Operand {
        Operand::Fun(self)
    }
}

fn d_operand(t: &Tree) -> Result<Operand, String> {
    let xs = t.as_list()?;
    if xs.len() != 2 {
        return Err("operand: arity".into());
    }
    Ok(match xs[0].as_str()? {
        "num" => Operand::Num(xs[1].as_f64()?),
        "var" => {
            let mut v = DecisionVariable::default();
            if let Ok(fields) = xs[1].as_list() {
                // [id, kind, [lower, upper]?, [substituted value]?, [name]?]
                v.id = fields[0].as_u64()?;
                v.kind = fields[1].as_i64()? as i32;
                if let Some(b) = fields[2].as_list()?.first() {
                    let b = b.as_list()?;
                    let mut bound = ommx::v1::Bound::default();
                    bound.lower = b[0].as_f64()?;
                    bound.upper = b[1].as_f64()?;
                    v.bound = Some(bound);
                }
                if let Some(s) = fields[3].as_list()?.first() {
                    v.substituted_value = Some(s.as_f64()?);
                }
                if let Some(n) = fields[4].as_list()?.first() {
                    v.name = Some(n.as_str()?.to_string());
                }
            } else {
                v.id = xs[1].as_u64()?;
            }
            Operand::Var(v)
        }
        "param" => {
            let mut p = Parameter::default();
            p.id = xs[1].as_u64()?;
            Operand::Param(p)
        }
        "lin" => Operand::Lin(d_linear(&xs[1])?),
        "quad" => Operand::Quad(d_quadratic(&xs[1])?),
        "poly" => Operand::Poly(d_polynomial(&xs[1])?),
        "fn" => Operand::Fun(d_function(&xs[1])?),
        k => return Err(format!("operand: kind {k}")),
    })
}

fn e_operand(o: &Operand) -> Tree {
    match o {
        Operand::Num(c) => L(vec![a("num"), f(*c)]),
        Operand::Var(v) => L(vec![a("var"), u(v.id)]),
        Operand::Param(v) => L(vec![a("param"), u(v.id)]),
        Operand::Lin(l) => L(vec![a("lin"), e_linear(l)]),
        Operand::Quad(q) => L(vec![a("quad"), e_quadratic(q)]),
        Operand::Poly(p) => L(vec![a("poly"), e_polynomial(p)]),
        Operand::Fun(g) => L(vec![a("fn"), e_function(g)]),
    }
}

fn binop(input: &Tree) -> Result<Tree, String> {
    let xs = input.as_list()?;
    let op = xs[0].as_str()?;
    let x = d_operand(&xs[1])?;
    let y = d_operand(&xs[2])?;
    let r = match op {
        "add" => super::c02_table::add(x, y),
        "sub" => super::c02_table::sub(x, y),
        "mul" => super::c02_table::mul(x, y),
        _ => return Err(format!("binop: {op}")),
    };
    Ok(match r {
        Some(o) => ok(e_operand(&o)),
        None => err("undefined", "the API defines no such operator impl"),
    })
}

fn neg(input: &Tree) -> Result<Tree, String> {
    let xs = input.as_list()?;
    let x = d_operand(&xs[0])?;
    Ok(match super::c02_table::neg(x) {
        Some(o) => ok(e_operand(&o)),
        None => err("undefined", "no Neg impl"),
    })
}

/// term iterator of a function: [(sorted ids, coefficient)]
fn iter_fn(input: &Tree) -> Result<Tree, String> {
    let xs = input.as_list()?;
    let fun = d_function(&xs[0])?;
    let items: Vec<Tree> = (&fun)
        .into_iter()
        .map(|(ids, c)| L(vec![list(ids.iter(), |x| u(*x)), f(c)]))
        .collect();
    Ok(ok(L(items)))
}

/// the operator table the harness was compiled with
fn table(_input: &Tree) -> Result<Tree, String> {
    Ok(ok(list(super::c02_table::DEFINED.iter(), |(o, x, y)| {
        L(vec![a(o), a(x), a(y)])
    })))
}

pub fn dispatch(op: &str, input: &Tree) -> Option<Result<Tree, String>> {
    match op {
        "binop" => Some(binop(input)),
        "neg" => Some(neg(input)),
        "iter_fn" => Some(iter_fn(input)),
        "op_table" => Some(table(input)),
        _ => None,
    }
}
