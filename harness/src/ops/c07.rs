//! C07 — wire format: prost decode / re-encode of bytes for any ommx.v1 message type, the
//! `{:?}` rendering of the decoded struct (content bridge), and the stored-artifact reader.
use crate::tree::*;
use ommx::v1;
use prost::Message;

fn hex(bs: &[u8]) -> String {
    let mut s = String::with_capacity(bs.len() * 2);
    for b in bs {
        s.push_str(&format!("{b:02x}"));
    }
    s
}

fn unhex(s: &str) -> Result<Vec<u8>, String> {
    if s.len() % 2 != 0 {
        return Err("odd hex length".into());
    }
    (0..s.len())
        .step_by(2)
        .map(|i| u8::from_str_radix(&s[i..i + 2], 16).map_err(|e| format!("hex: {e}")))
        .collect()
}

/// decode -> (re-encoded bytes, Debug rendering)
fn rt<T: Message + Default + std::fmt::Debug>(bytes: &[u8]) -> Tree {
    match T::decode(bytes) {
        Ok(m) => L(vec![a("ok"), a(&hex(&m.encode_to_vec())), a(&format!("{m:?}"))]),
        Err(e) => err("decode", &format!("{e}")),
    }
}

/// type name (normalised proto name: lower case, no underscores, nested with '.') -> T::decode
macro_rules! dispatch_types {
    ($name:expr, $bytes:expr; $( $n:literal => $t:ty ),* $(,)?) => {
        match $name {
            $( $n => Some(rt::<$t>($bytes)), )*
            _ => None,
        }
    };
}

pub const TYPES: &[&str] = &[
    "bound", "constraint", "constrainthints", "decisionvariable", "evaluatedconstraint", "function",
    "infeasible", "instance", "instance.description", "linear", "linear.term", "monomial", "onehot",
    "parameter", "parameters", "parametricinstance", "polynomial", "quadratic", "removedconstraint",
    "result", "sampledconstraint", "sampleddecisionvariable", "sampledvalues",
    "sampledvalues.sampledvaluesentry", "samples", "samples.samplesentry", "sampleset", "solution",
    "sos1", "state", "unbounded",
];

fn roundtrip_named(name: &str, bytes: &[u8]) -> Option<Tree> {
    dispatch_types!(name, bytes;
        "bound" => v1::Bound,
        "constraint" => v1::Constraint,
        "constrainthints" => v1::ConstraintHints,
        "decisionvariable" => v1::DecisionVariable,
        "evaluatedconstraint" => v1::EvaluatedConstraint,
        "function" => v1::Function,
        "infeasible" => v1::Infeasible,
        "instance" => v1::Instance,
        "instance.description" => v1::instance::Description,
        "linear" => v1::Linear,
        "linear.term" => v1::linear::Term,
        "monomial" => v1::Monomial,
        "onehot" => v1::OneHot,
        "parameter" => v1::Parameter,
        "parameters" => v1::Parameters,
        "parametricinstance" => v1::ParametricInstance,
        "polynomial" => v1::Polynomial,
        "quadratic" => v1::Quadratic,
        "removedconstraint" => v1::RemovedConstraint,
        "result" => v1::Result,
        "sampledconstraint" => v1::SampledConstraint,
        "sampleddecisionvariable" => v1::SampledDecisionVariable,
        "sampledvalues" => v1::SampledValues,
        "sampledvalues.sampledvaluesentry" => v1::sampled_values::SampledValuesEntry,
        "samples" => v1::Samples,
        "samples.samplesentry" => v1::samples::SamplesEntry,
        "sampleset" => v1::SampleSet,
        "solution" => v1::Solution,
        "sos1" => v1::Sos1,
        "state" => v1::State,
        "unbounded" => v1::Unbounded,
    )
}

/// c07_roundtrip: [type name, hex bytes] -> ok(hex of encode_to_vec(decode(bytes)), Debug) | err
fn roundtrip(input: &Tree) -> std::result::Result<Tree, String> {
    let xs = input.as_list()?;
    if xs.len() != 2 {
        return Err("c07_roundtrip: [type, hex]".into());
    }
    let name = xs[0].as_str()?;
    let bytes = unhex(xs[1].as_str()?)?;
    match roundtrip_named(name, &bytes) {
        Some(t) => Ok(t),
        None => Ok(err("unknown-type", name)),
    }
}

/// c07_artifact: [path] -> ok([ [media type, type name | "", hex blob, roundtrip result | []] ... ])
fn artifact(input: &Tree) -> std::result::Result<Tree, String> {
    let xs = input.as_list()?;
    let path = xs[0].as_str()?;
    let mut art = match ommx::artifact::Artifact::from_oci_archive(std::path::Path::new(path)) {
        Ok(x) => x,
        Err(e) => return Ok(err("open", &format!("{e:#}"))),
    };
    if let Err(e) = art.get_manifest() {
        return Ok(err("manifest", &format!("{e:#}")));
    }
    let layers = match art.get_layers() {
        Ok(x) => x,
        Err(e) => return Ok(err("layers", &format!("{e:#}"))),
    };
    let mut out = Vec::new();
    for (desc, blob) in layers {
        let mt = format!("{}", desc.media_type());
        let ty = match mt.as_str() {
            "application/org.ommx.v1.instance" => "instance",
            "application/org.ommx.v1.parametric-instance" => "parametricinstance",
            // the layer called `solution` stores a v1::State in this release (Artifact::get_solution)
            "application/org.ommx.v1.solution" => "state",
            "application/org.ommx.v1.sample-set" => "sampleset",
            _ => "",
        };
        let r = if ty.is_empty() {
            L(vec![])
        } else {
            roundtrip_named(ty, &blob).unwrap_or_else(|| L(vec![]))
        };
        out.push(L(vec![a(&mt), a(ty), a(&hex(&blob)), r]));
    }
    // the typed accessor of the SDK must see the same instances
    let n_inst = match art.get_instances() {
        Ok(v) => v.len() as u64,
        Err(e) => return Ok(err("get_instances", &format!("{e:#}"))),
    };
    Ok(ok(L(vec![L(out), u(n_inst)])))
}

static COUNTER: std::sync::atomic::AtomicU64 = std::sync::atomic::AtomicU64::new(0);

fn msg_tree<T: Message + std::fmt::Debug>(m: &T) -> Tree {
    L(vec![a("ok"), a(&hex(&m.encode_to_vec())), a(&format!("{m:?}"))])
}

/// c07_artifact_foreign: [type name (instance | parametricinstance | state | sampleset), hex bytes]
///   the bytes (any conforming encoding, e.g. of another implementation or a newer schema) are stored as the
///   blob of one layer of a local OCI archive under the media type of the kind; the archive is reopened and
///   the layer is read through the typed accessor by digest (and through the listing accessor where one exists)
///   -> ok(hex of encode_to_vec(message the accessor returned), Debug) | err
fn artifact_foreign(input: &Tree) -> std::result::Result<Tree, String> {
    use ommx::artifact::{media_types, Artifact, Builder};
    let xs = input.as_list()?;
    let name = xs[0].as_str()?;
    let bytes = unhex(xs[1].as_str()?)?;
    // mode "get": typed accessor by digest; mode "list": the listing accessor (instance / state only)
    let listing = xs.len() > 2 && xs[2].as_str()? == "list";
    let mt = match name {
        "instance" => media_types::v1_instance(),
        "parametricinstance" => media_types::v1_parametric_instance(),
        "state" => media_types::v1_solution(),
        "sampleset" => media_types::v1_sample_set(),
        _ => return Ok(err("unknown-type", name)),
    };
    let dir = std::path::PathBuf::from("/verif/.cache/tmp");
    std::fs::create_dir_all(&dir).map_err(|e| format!("tmp dir: {e}"))?;
    let n = COUNTER.fetch_add(1, std::sync::atomic::Ordering::SeqCst);
    let path = dir.join(format!("c07-{}-{}.ommx", std::process::id(), n));
    let _ = std::fs::remove_file(&path);
    let run = || -> std::result::Result<Tree, String> {
        let mut builder = Builder::new_archive_unnamed(path.clone()).map_err(|e| format!("builder: {e:#}"))?;
        builder
            .add_layer(mt.clone(), &bytes, Default::default())
            .map_err(|e| format!("add_layer: {e:#}"))?;
        let _ = builder.build().map_err(|e| format!("build: {e:#}"))?;
        let mut art = Artifact::from_oci_archive(&path).map_err(|e| format!("open: {e:#}"))?;
        let layers = art.get_layers().map_err(|e| format!("layers: {e:#}"))?;
        let digest = match layers.first() {
            Some((d, _)) => d.digest().to_string(),
            None => return Ok(err("artifact", "no layer")),
        };
        let digest = ommx::ocipkg::Digest::new(&digest).map_err(|e| format!("digest: {e:#}"))?;
        Ok(match name {
            "instance" if listing => match art.get_instances() {
                Ok(v) if v.len() == 1 => msg_tree(&v[0].1),
                Ok(v) => err("artifact-get", &format!("get_instances: {} layers", v.len())),
                Err(e) => err("artifact-get", &format!("get_instances: {e:#}")),
            },
            "state" if listing => match art.get_solutions() {
                Ok(v) if v.len() == 1 => msg_tree(&v[0].1),
                Ok(v) => err("artifact-get", &format!("get_solutions: {} layers", v.len())),
                Err(e) => err("artifact-get", &format!("get_solutions: {e:#}")),
            },
            "instance" => match art.get_instance(&digest) {
                Ok((m, _)) => msg_tree(&m),
                Err(e) => err("artifact-get", &format!("{e:#}")),
            },
            "parametricinstance" => match art.get_parametric_instance(&digest) {
                Ok((m, _)) => msg_tree(&m),
                Err(e) => err("artifact-get", &format!("{e:#}")),
            },
            "state" => match art.get_solution(&digest) {
                Ok((m, _)) => msg_tree(&m),
                Err(e) => err("artifact-get", &format!("{e:#}")),
            },
            _ => match art.get_sample_set(&digest) {
                Ok((m, _)) => msg_tree(&m),
                Err(e) => err("artifact-get", &format!("{e:#}")),
            },
        })
    };
    let out = run();
    let _ = std::fs::remove_file(&path);
    out
}

pub fn dispatch(op: &str, input: &Tree) -> Option<std::result::Result<Tree, String>> {
    match op {
        "c07_roundtrip" => Some(roundtrip(input)),
        "c07_artifact" => Some(artifact(input)),
        "c07_artifact_foreign" => Some(artifact_foreign(input)),
        "c07_types" => Some(Ok(ok(list(TYPES.iter(), |s| a(s))))),
        _ => None,
    }
}
