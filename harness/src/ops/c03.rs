//! C03: partial evaluation of functions (instance level lives in inst.rs).
use crate::conv::*;
use crate::tree::*;
use ommx::Evaluate;

fn merge_states(a: &ommx::v1::State, b: &ommx::v1::State) -> ommx::v1::State {
    let mut s = a.clone();
    for (k, v) in &b.entries {
        s.entries.insert(*k, *v);
    }
    s
}

/// partial_evaluate: [function, state] -> ok [function', used ids]
fn partial_evaluate(input: &Tree) -> Result<Tree, String> {
    let xs = input.as_list()?;
    let mut fun = d_function(&xs[0])?;
    let st = d_state(&xs[1])?;
    Ok(match fun.partial_evaluate(&st) {
        Ok(ids) => ok(L(vec![e_function(&fun), e_ids(ids.iter())])),
        Err(e) => err("partial_evaluate", &format!("{e:#}")),
    })
}

/// pe_steps: [function, s1, s2] -> ok [pe(pe f s1) s2, pe(pe f s2) s1, pe f (s1 u s2),
///                                     eval(pe f s1, s2), eval(f, s1 u s2)]
fn pe_steps(input: &Tree) -> Result<Tree, String> {
    let xs = input.as_list()?;
    let fun = d_function(&xs[0])?;
    let s1 = d_state(&xs[1])?;
    let s2 = d_state(&xs[2])?;
    let s12 = merge_states(&s1, &s2);
    let e = |r: anyhow::Result<(f64, std::collections::BTreeSet<u64>)>| match r {
        Ok((v, ids)) => ok(L(vec![f(v), e_ids(ids.iter())])),
        Err(e) => err("evaluate", &format!("{e:#}")),
    };
    let mut a = fun.clone();
    let r1 = a.partial_evaluate(&s1).and_then(|_| a.partial_evaluate(&s2));
    let mut b = fun.clone();
    let r2 = b.partial_evaluate(&s2).and_then(|_| b.partial_evaluate(&s1));
    let mut c = fun.clone();
    let r3 = c.partial_evaluate(&s12);
    let mut d = fun.clone();
    let r4 = d.partial_evaluate(&s1);
    if let Err(e) = r1.and(r2).and(r3).and(r4) {
        return Ok(err("partial_evaluate", &format!("{e:#}")));
    }
    Ok(ok(L(vec![
        e_function(&a),
        e_function(&b),
        e_function(&c),
        e(d.evaluate(&s2)),
        e(fun.evaluate(&s12)),
    ])))
}

/// inst_pe_steps: [instance, [s1, s2, ..], s_last] -> [ok [instance after partial_evaluate(s1), (s2), ..,
///   ids returned by the LAST step] | err, evaluate(that instance, s_last), evaluate(original, union)]
fn inst_pe_steps(input: &Tree) -> Result<Tree, String> {
    let xs = input.as_list()?;
    let ins = d_instance(&xs[0])?;
    let steps: Vec<ommx::v1::State> = xs[1].as_list()?.iter().map(d_state).collect::<Result<_, _>>()?;
    let last = d_state(&xs[2])?;
    let mut all = last.clone();
    for s in &steps {
        all = merge_states(&all, s);
    }
    let ev = |i: &ommx::v1::Instance, s: &ommx::v1::State| match i.evaluate(s) {
        Ok((sol, _)) => ok(e_solution(&sol)),
        Err(e) => err("evaluate", &format!("{e:#}")),
    };
    let mut pe = ins.clone();
    let mut ids = std::collections::BTreeSet::new();
    for s in &steps {
        match pe.partial_evaluate(s) {
            Ok(i) => ids = i,
            Err(e) => {
                return Ok(L(vec![err("partial_evaluate", &format!("{e:#}")), L(vec![]), ev(&ins, &all)]));
            }
        }
    }
    Ok(L(vec![ok(L(vec![e_instance(&pe), e_ids(ids.iter())])), ev(&pe, &last), ev(&ins, &all)]))
}

pub fn dispatch(op: &str, input: &Tree) -> Option<Result<Tree, String>> {
    match op {
        "inst_pe_steps" => Some(inst_pe_steps(input)),
        "partial_evaluate" => Some(partial_evaluate(input)),
        "pe_steps" => Some(pe_steps(input)),
        _ => None,
    }
}
