//! C04: Function::substitute, Instance::substitute, dependent variables under every observed
//! iteration order of the dependency map.
use crate::conv::*;
use crate::tree::*;
use ommx::v1;
use ommx::Evaluate;
use std::collections::{BTreeSet, HashMap};

fn d_repl(t: &Tree) -> Result<HashMap<u64, v1::Function>, String> {
    let mut m = HashMap::new();
    for e in t.as_list()? {
        let p = e.as_list()?;
        m.insert(p[0].as_u64()?, d_function(&p[1])?);
    }
    Ok(m)
}

/// fn_substitute: [function, [[id, function]..]] -> ok function | err
fn fn_substitute(input: &Tree) -> Result<Tree, String> {
    let xs = input.as_list()?;
    let fun = d_function(&xs[0])?;
    let r = d_repl(&xs[1])?;
    Ok(match fun.substitute(&r) {
        Ok(g) => ok(e_function(&g)),
        Err(e) => err("substitute", &format!("{e:#}")),
    })
}

fn eval_tree(ins: &v1::Instance, st: &v1::State) -> Tree {
    match ins.evaluate(st) {
        Ok((sol, _)) => ok(e_solution(&sol)),
        Err(e) => err("evaluate", &format!("{e:#}")),
    }
}

/// inst_substitute: [instance, [[replacement map]..] (applied successively), state]
///   -> [ok instance | err, evaluation of the result at state]
fn inst_substitute(input: &Tree) -> Result<Tree, String> {
    let xs = input.as_list()?;
    let mut ins = d_instance(&xs[0])?;
    let st = d_state(&xs[2])?;
    for r in xs[1].as_list()? {
        let r = d_repl(r)?;
        if let Err(e) = ins.substitute(r) {
            return Ok(L(vec![err("substitute", &format!("{e:#}")), L(vec![])]));
        }
    }
    Ok(L(vec![ok(e_instance(&ins)), eval_tree(&ins, &st)]))
}

/// subst_penalty_eval: [instance, [[replacement map]..], state, uniform (0/1), weight]
///   -> [ok substituted instance | err, evaluation at state of
///       with_parameters(penalty_method / uniform_penalty_method (substituted), all weights = weight)]
/// (the QUBO-driver path: the replaced variables must still be recovered after the penalty conversion)
fn subst_penalty_eval(input: &Tree) -> Result<Tree, String> {
    let xs = input.as_list()?;
    let mut ins = d_instance(&xs[0])?;
    let st = d_state(&xs[2])?;
    let uniform = xs[3].as_u64()? == 1;
    let w = xs[4].as_f64()?;
    for r in xs[1].as_list()? {
        let r = d_repl(r)?;
        if let Err(e) = ins.substitute(r) {
            return Ok(L(vec![err("substitute", &format!("{e:#}")), L(vec![])]));
        }
    }
    let first = ok(e_instance(&ins));
    let p = if uniform {
        ins.uniform_penalty_method()
    } else {
        ins.penalty_method()
    };
    let p = match p {
        Ok(p) => p,
        Err(e) => return Ok(L(vec![first, err("penalty", &format!("{e:#}"))])),
    };
    let mut ps = v1::Parameters::default();
    ps.entries = p.parameters.iter().map(|q| (q.id, w)).collect();
    let second = match p.with_parameters(ps) {
        Ok(i) => eval_tree(&i, &st),
        Err(e) => err("with_parameters", &format!("{e:#}")),
    };
    Ok(L(vec![first, second]))
}

/// subst_pe_samples: [instance, [[replacement map]..], state to fix, samples]
///   -> [ok (instance after the substitutions and partial_evaluate) | err, result of the `eval_samples` op on it]
/// (fixing a value is a constant substitution: the recorded dependencies must stay usable, also through
///  evaluate_samples + get, which do not re-insert fixed values the way evaluate does)
fn subst_pe_samples(input: &Tree) -> Result<Tree, String> {
    let xs = input.as_list()?;
    let mut ins = d_instance(&xs[0])?;
    for r in xs[1].as_list()? {
        let r = d_repl(r)?;
        if let Err(e) = ins.substitute(r) {
            return Ok(L(vec![err("substitute", &format!("{e:#}")), L(vec![])]));
        }
    }
    let fix = d_state(&xs[2])?;
    if let Err(e) = ins.partial_evaluate(&fix) {
        return Ok(L(vec![err("partial_evaluate", &format!("{e:#}")), L(vec![])]));
    }
    let it = e_instance(&ins);
    let second = match super::samples::dispatch("eval_samples", &L(vec![it.clone(), xs[3].clone()])) {
        Some(Ok(t)) => t,
        Some(Err(e)) => return Err(e),
        None => return Err("eval_samples op missing".into()),
    };
    Ok(L(vec![ok(it), second]))
}

/// deps_orders: [instance, state, tries] -> ok [[observed iteration order of the dependency map,
///   evaluation]..] for every DISTINCT order seen while rebuilding the map `tries` times
fn deps_orders(input: &Tree) -> Result<Tree, String> {
    let xs = input.as_list()?;
    let st = d_state(&xs[1])?;
    let tries = xs[2].as_u64()?;
    let mut seen: BTreeSet<Vec<u64>> = BTreeSet::new();
    let mut out = Vec::new();
    for _ in 0..tries {
        // a fresh HashMap (fresh RandomState) on every decode
        let ins = d_instance(&xs[0])?;
        let order: Vec<u64> = ins.decision_variable_dependency.keys().cloned().collect();
        if !seen.insert(order.clone()) {
            continue;
        }
        out.push(L(vec![e_ids(order.iter()), eval_tree(&ins, &st)]));
    }
    Ok(ok(L(out)))
}

pub fn dispatch(op: &str, input: &Tree) -> Option<Result<Tree, String>> {
    match op {
        "fn_substitute" => Some(fn_substitute(input)),
        "inst_substitute" => Some(inst_substitute(input)),
        "deps_orders" => Some(deps_orders(input)),
        "subst_penalty_eval" => Some(subst_penalty_eval(input)),
        "subst_pe_samples" => Some(subst_pe_samples(input)),
        _ => None,
    }
}
