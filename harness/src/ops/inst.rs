//! Instance-level operations shared by C03..C15.
use crate::conv::*;
use crate::tree::*;
use ommx::Evaluate;

/// inst_evaluate: [instance, state] -> ok solution | err
fn inst_evaluate(input: &Tree) -> Result<Tree, String> {
    let xs = input.as_list()?;
    let ins = d_instance(&xs[0])?;
    let st = d_state(&xs[1])?;
    Ok(match ins.evaluate(&st) {
        Ok((sol, _used)) => ok(e_solution(&sol)),
        Err(e) => err("evaluate", &format!("{e:#}")),
    })
}

fn d_strmap_pub(t: &Tree) -> Result<std::collections::HashMap<String, String>, String> {
    let mut m = std::collections::HashMap::new();
    for e in t.as_list()? {
        let p = e.as_list()?;
        m.insert(p[0].as_str()?.to_string(), p[1].as_str()?.to_string());
    }
    Ok(m)
}

fn eval_tree(ins: &ommx::v1::Instance, st: &ommx::v1::State) -> Tree {
    match ins.evaluate(st) {
        Ok((sol, _)) => ok(e_solution(&sol)),
        Err(e) => err("evaluate", &format!("{e:#}")),
    }
}

/// relax_history: [instance, [op..], state] with op = ["relax", id, reason, [[k,v]..]] | ["restore", id]
/// -> ok [[result, instance after the op, evaluation at state]..]
fn relax_history(input: &Tree) -> Result<Tree, String> {
    let xs = input.as_list()?;
    let mut ins = d_instance(&xs[0])?;
    let st = d_state(&xs[2])?;
    let mut out = vec![L(vec![a("start"), e_instance(&ins), eval_tree(&ins, &st)])];
    for o in xs[1].as_list()? {
        let p = o.as_list()?;
        let r = match p[0].as_str()? {
            "relax" => ins.relax_constraint(
                p[1].as_u64()?,
                p[2].as_str()?.to_string(),
                d_strmap_pub(&p[3])?,
            ),
            "restore" => ins.restore_constraint(p[1].as_u64()?),
            k => return Err(format!("relax_history: op {k}")),
        };
        let rt = match r {
            Ok(()) => a("ok"),
            Err(_) => a("err"),
        };
        out.push(L(vec![rt, e_instance(&ins), eval_tree(&ins, &st)]));
    }
    Ok(ok(L(out)))
}

pub fn dispatch(op: &str, input: &Tree) -> Option<Result<Tree, String>> {
    match op {
        "inst_evaluate" => Some(inst_evaluate(input)),
        "relax_history" => Some(relax_history(input)),
        _ => None,
    }
}
