//! Instance-level operations shared by C03..C15.
use crate::conv::*;
use crate::tree::*;
use ommx::Evaluate;

/// inst_evaluate: [instance, state] -> ok solution | err
fn inst_evaluate(input: &Tree) -> Result<Tree, String> {
    let xs = input.as_list()?;
    let ins = d_instance(&xs[0])?;
    let st = d_state(&xs[1])?;
    Ok(match ins.evaluate(&st) {
        Ok((sol, _used)) => ok(e_solution(&sol)),
        Err(e) => err("evaluate", &format!("{e:#}")),
    })
}

pub fn dispatch(op: &str, input: &Tree) -> Option<Result<Tree, String>> {
    match op {
        "inst_evaluate" => Some(inst_evaluate(input)),
        _ => None,
    }
}
