//! Instance-level operations shared by C03..C15.
use crate::conv::*;
use crate::tree::*;
use ommx::Evaluate;

/// inst_evaluate: [instance, state] -> ok solution | err
fn inst_evaluate(input: &Tree) -> Result<Tree, String> {
    let xs = input.as_list()?;
    let ins = d_instance(&xs[0])?;
    let st = d_state(&xs[1])?;
    Ok(match ins.evaluate(&st) {
        Ok((sol, _used)) => ok(e_solution(&sol)),
        Err(e) => err("evaluate", &format!("{e:#}")),
    })
}

fn d_strmap_pub(t: &Tree) -> Result<std::collections::HashMap<String, String>, String> {
    let mut m = std::collections::HashMap::new();
    for e in t.as_list()? {
        let p = e.as_list()?;
        m.insert(p[0].as_str()?.to_string(), p[1].as_str()?.to_string());
    }
    Ok(m)
}

fn eval_tree(ins: &ommx::v1::Instance, st: &ommx::v1::State) -> Tree {
    match ins.evaluate(st) {
        Ok((sol, _)) => ok(e_solution(&sol)),
        Err(e) => err("evaluate", &format!("{e:#}")),
    }
}

/// relax_history: [instance, [op..], state] with op = ["relax", id, reason, [[k,v]..]] | ["restore", id]
/// -> ok [[result, instance after the op, evaluation at state]..]
/// the two feasibility maps of Instance::evaluate_samples on the states given as samples 0, 1, 2, ...
fn sample_flags(ins: &ommx::v1::Instance, states: &[ommx::v1::State]) -> Tree {
    let mut samples = ommx::v1::Samples::default();
    for (k, s) in states.iter().enumerate() {
        let mut en = ommx::v1::samples::SamplesEntry::default();
        en.state = Some(s.clone());
        en.ids = vec![k as u64];
        samples.entries.push(en);
    }
    match ins.evaluate_samples(&samples) {
        Ok((ss, _)) => {
            let e_bmap = |m: &std::collections::HashMap<u64, bool>| {
                let mut v: Vec<_> = m.iter().collect();
                v.sort();
                list(v, |(k, x)| L(vec![u(*k), b(*x)]))
            };
            ok(L(vec![e_bmap(&ss.feasible), e_bmap(&ss.feasible_relaxed)]))
        }
        Err(e) => err("evaluate_samples", &format!("{e:#}")),
    }
}

fn relax_history(input: &Tree) -> Result<Tree, String> {
    let xs = input.as_list()?;
    let mut ins = d_instance(&xs[0])?;
    let st = d_state(&xs[2])?;
    // optional 4th element: further states; together with the main state they are evaluated as a sample set
    let mut states = vec![st.clone()];
    if xs.len() > 3 {
        for t in xs[3].as_list()? {
            states.push(d_state(t)?);
        }
    }
    let mut out = vec![L(vec![a("start"), e_instance(&ins), eval_tree(&ins, &st), sample_flags(&ins, &states)])];
    for o in xs[1].as_list()? {
        let p = o.as_list()?;
        let r = match p[0].as_str()? {
            "relax" => ins.relax_constraint(
                p[1].as_u64()?,
                p[2].as_str()?.to_string(),
                d_strmap_pub(&p[3])?,
            ),
            "restore" => ins.restore_constraint(p[1].as_u64()?),
            k => return Err(format!("relax_history: op {k}")),
        };
        let rt = match r {
            Ok(()) => a("ok"),
            Err(_) => a("err"),
        };
        out.push(L(vec![rt, e_instance(&ins), eval_tree(&ins, &st), sample_flags(&ins, &states)]));
    }
    Ok(ok(L(out)))
}

fn anyerr(kind: &str, e: &anyhow::Error) -> Tree {
    err(kind, &format!("{e:#}"))
}

/// as_min: instance -> ok instance (panics are caught by the driver)
fn as_min(input: &Tree) -> Result<Tree, String> {
    let mut ins = d_instance(input)?;
    ins.as_minimization_problem();
    Ok(ok(e_instance(&ins)))
}

/// penalty / uniform_penalty: instance -> ok parametric instance | err
fn penalty(input: &Tree, uniform: bool) -> Result<Tree, String> {
    let ins = d_instance(input)?;
    let r = if uniform {
        ins.uniform_penalty_method()
    } else {
        ins.penalty_method()
    };
    Ok(match r {
        Ok(p) => ok(e_parametric(&p)),
        Err(e) => anyerr("penalty", &e),
    })
}

/// with_parameters: [parametric instance, [[id, value]..]] -> ok instance | err
fn with_parameters(input: &Tree) -> Result<Tree, String> {
    let xs = input.as_list()?;
    let p = d_parametric(&xs[0])?;
    let mut ps = ommx::v1::Parameters::default();
    ps.entries = d_entries(&xs[1])?;
    Ok(match p.with_parameters(ps) {
        Ok(i) => ok(e_instance(&i)),
        Err(e) => anyerr("with_parameters", &e),
    })
}

/// with_parameters_eval: [parametric instance, [[id, value]..], state over the decision variables]
///   -> [ok instance | err, evaluation of that instance at the state (no parameter id may be left in it)]
fn with_parameters_eval(input: &Tree) -> Result<Tree, String> {
    let xs = input.as_list()?;
    let p = d_parametric(&xs[0])?;
    let mut ps = ommx::v1::Parameters::default();
    ps.entries = d_entries(&xs[1])?;
    let st = d_state(&xs[2])?;
    Ok(match p.with_parameters(ps) {
        Ok(i) => {
            let ev = match i.evaluate(&st) {
                Ok((sol, _)) => ok(e_solution(&sol)),
                Err(e) => anyerr("evaluate", &e),
            };
            L(vec![ok(e_instance(&i)), ev])
        }
        Err(e) => L(vec![anyerr("with_parameters", &e), L(vec![])]),
    })
}

/// of_instance_roundtrip: instance -> with_parameters(ParametricInstance::from(instance), {})
fn of_instance_roundtrip(input: &Tree) -> Result<Tree, String> {
    let ins = d_instance(input)?;
    let p: ommx::v1::ParametricInstance = ins.into();
    Ok(match p.clone().with_parameters(ommx::v1::Parameters::default()) {
        Ok(i) => ok(L(vec![e_parametric(&p), e_instance(&i)])),
        Err(e) => anyerr("with_parameters", &e),
    })
}

fn pubo(input: &Tree) -> Result<Tree, String> {
    let ins = d_instance(input)?;
    Ok(match ins.as_pubo_format() {
        Ok(m) => ok(list(m.iter(), |(k, c)| {
            L(vec![list(k.iter(), |x| u(*x)), f(*c)])
        })),
        Err(e) => anyerr("pubo", &e),
    })
}

fn qubo(input: &Tree) -> Result<Tree, String> {
    let ins = d_instance(input)?;
    Ok(match ins.as_qubo_format() {
        Ok((m, c)) => ok(L(vec![
            list(m.iter(), |(k, c)| L(vec![L(vec![u(k.0), u(k.1)]), f(*c)])),
            f(c),
        ])),
        Err(e) => anyerr("qubo", &e),
    })
}

/// log_encode: [instance, id] -> [ok linear | err, instance afterwards]
fn log_encode(input: &Tree) -> Result<Tree, String> {
    let xs = input.as_list()?;
    let mut ins = d_instance(&xs[0])?;
    let id = xs[1].as_u64()?;
    let r = match ins.log_encode(id) {
        Ok(l) => ok(e_linear(&l)),
        Err(e) => anyerr("log_encode", &e),
    };
    Ok(L(vec![r, e_instance(&ins)]))
}

pub fn dispatch(op: &str, input: &Tree) -> Option<Result<Tree, String>> {
    match op {
        "as_min" => Some(as_min(input)),
        "penalty" => Some(penalty(input, false)),
        "uniform_penalty" => Some(penalty(input, true)),
        "with_parameters" => Some(with_parameters(input)),
        "with_parameters_eval" => Some(with_parameters_eval(input)),
        "of_instance_roundtrip" => Some(of_instance_roundtrip(input)),
        "as_pubo" => Some(pubo(input)),
        "as_qubo" => Some(qubo(input)),
        "log_encode" => Some(log_encode(input)),
        "inst_evaluate" => Some(inst_evaluate(input)),
        "relax_history" => Some(relax_history(input)),
        _ => None,
    }
}
