//! C20 — artifacts return what was stored in them.
//!
//! op `artifact_roundtrip`: input `[mode, [add-op..], probe_digest]`
//!   mode   = ["ommx"]            real `ommx::artifact::Builder::new_archive_unnamed`
//!          | ["raw", type]       `ocipkg::OciArtifactBuilder` with an arbitrary artifactType
//!          | ["notype"]          hand-built manifest without any artifactType
//!   add-op = [kind, message, [annotation setter..]]
//!            kind ∈ instance | parametric_instance | solution | sample_set
//!   setter = ["title",s] ["created",rfc3339] ["authors",[s..]] ["license",s] ["dataset",s]
//!            ["variables",n] ["constraints",n]            (instance, parametric_instance)
//!            ["start",rfc3339] ["end",rfc3339] ["instance",digest] ["solver",digest]   (solution, sample_set)
//!            ["other",k,v]                                 (all kinds)
//! The archive is written under /verif/.cache/tmp, reopened with
//! `Artifact::from_oci_archive`, and removed.  Result:
//!   ok [ [aux..], raw_manifest, checked_manifest, [by_kind x4], [get_row..] ]
//!   aux              = [blob_hex, canonical message tree, [[rendered, secs, nanos]..]]  per add-op
//!                      (blob_hex = hex(encode_to_vec(message)), computed here, not read from the archive;
//!                       check.py turns it into an independently computed sha256 digest + size)
//!   raw_manifest     = ok [opt artifactType, [descriptor..]] | err   (ocipkg `Image::get_manifest`, no type check)
//!   checked_manifest = ok [artifactType, [descriptor..]] | err      (`Artifact::get_manifest`)
//!   by_kind          = ok [descriptor..] | err                        (`get_layer_descriptors(media type of kind)`)
//!   get_row          = [digest, [get_instance, get_parametric_instance, get_solution, get_sample_set]]
//!                      one row per distinct layer digest (manifest order) and one for probe_digest;
//!                      each getter: ok [message tree, annotations, accessors] | err kind detail
//!   descriptor       = [media type, digest, size, annotations]   (annotations sorted by key)
//!   accessors        = [title, created, authors, license, dataset, variables, constraints]   (instance kinds)
//!                    | [start, end, instance, solver]                                       (solution kinds)
//!                      each `[]` (Err) or `[value]`; times as [secs, nanos]
use crate::conv::*;
use crate::tree::*;
use ommx::artifact::{
    media_types, Artifact, Builder, InstanceAnnotations, ParametricInstanceAnnotations,
    SampleSetAnnotations, SolutionAnnotations,
};
use ommx::ocipkg::image::{Image, ImageBuilder, OciArchive, OciArchiveBuilder, OciArtifactBuilder};
use ommx::ocipkg::oci_spec::image::{
    Descriptor, DescriptorBuilder, ImageManifest, ImageManifestBuilder, MediaType,
};
use ommx::ocipkg::Digest;
use ommx::v1;
use ommx::Message;
use std::collections::HashMap;
use std::path::PathBuf;
use std::sync::atomic::{AtomicU64, Ordering};

type R<T> = Result<T, String>;

static COUNTER: AtomicU64 = AtomicU64::new(0);

struct TmpFile(PathBuf);
impl Drop for TmpFile {
    fn drop(&mut self) {
        let _ = std::fs::remove_file(&self.0);
    }
}

fn tmp_path() -> R<TmpFile> {
    let dir = PathBuf::from("/verif/.cache/tmp");
    std::fs::create_dir_all(&dir).map_err(|e| format!("tmp dir: {e}"))?;
    let n = COUNTER.fetch_add(1, Ordering::SeqCst);
    let p = dir.join(format!("c20-{}-{}.ommx", std::process::id(), n));
    let _ = std::fs::remove_file(&p);
    Ok(TmpFile(p))
}

// ---- small local converters -------------------------------------------------------

fn d_strmap(t: &Tree) -> R<HashMap<String, String>> {
    let mut m = HashMap::new();
    for e in t.as_list()? {
        let p = e.as_list()?;
        if p.len() != 2 {
            return Err("string map entry: arity".into());
        }
        m.insert(p[0].as_str()?.to_string(), p[1].as_str()?.to_string());
    }
    Ok(m)
}
fn e_strmap(m: &HashMap<String, String>) -> Tree {
    let mut v: Vec<_> = m.iter().collect();
    v.sort();
    list(v, |(k, x)| L(vec![a(k), a(x)]))
}
fn d_optstr(t: &Tree) -> R<Option<String>> {
    Ok(match t.as_opt()? {
        None => None,
        Some(s) => Some(s.as_str()?.to_string()),
    })
}
fn e_optstr(s: &Option<String>) -> Tree {
    opt(s.as_ref(), |x| a(x))
}
fn d_boolmap(t: &Tree) -> R<HashMap<u64, bool>> {
    let mut m = HashMap::new();
    for e in t.as_list()? {
        let p = e.as_list()?;
        if p.len() != 2 {
            return Err("bool map entry: arity".into());
        }
        m.insert(p[0].as_u64()?, p[1].as_bool()?);
    }
    Ok(m)
}
fn e_boolmap(m: &HashMap<u64, bool>) -> Tree {
    let mut v: Vec<_> = m.iter().collect();
    v.sort();
    list(v, |(k, x)| L(vec![u(*k), b(*x)]))
}

// sampled_values = [[value, [ids]]..]
fn d_sampled_values(t: &Tree) -> R<v1::SampledValues> {
    let mut sv = v1::SampledValues::default();
    for e in t.as_list()? {
        let p = e.as_list()?;
        if p.len() != 2 {
            return Err("sampled values entry: arity".into());
        }
        let mut en = v1::sampled_values::SampledValuesEntry::default();
        en.value = p[0].as_f64()?;
        en.ids = p[1].as_list()?.iter().map(|x| x.as_u64()).collect::<R<_>>()?;
        sv.entries.push(en);
    }
    Ok(sv)
}
fn e_sampled_values(sv: &v1::SampledValues) -> Tree {
    list(sv.entries.iter(), |e| L(vec![f(e.value), e_ids(e.ids.iter())]))
}
fn d_opt_sv(t: &Tree) -> R<Option<v1::SampledValues>> {
    Ok(match t.as_opt()? {
        None => None,
        Some(x) => Some(d_sampled_values(x)?),
    })
}

// sample_set = [opt objectives, [[opt dv, opt samples]..], [sampled constraint..],
//               feasible, feasible_relaxed, feasible_unrelaxed, sense]
// sampled constraint = [id, equality, opt name, [subscripts], params, opt description,
//                       opt removed_reason, removed_reason_parameters, opt evaluated_values,
//                       [used ids], feasible]
pub fn d_sample_set(t: &Tree) -> R<v1::SampleSet> {
    let x = t.as_list()?;
    if x.len() != 7 {
        return Err("sample set: arity".into());
    }
    let mut s = v1::SampleSet::default();
    s.objectives = d_opt_sv(&x[0])?;
    for e in x[1].as_list()? {
        let p = e.as_list()?;
        if p.len() != 2 {
            return Err("sampled decision variable: arity".into());
        }
        let mut sdv = v1::SampledDecisionVariable::default();
        sdv.decision_variable = match p[0].as_opt()? {
            None => None,
            Some(d) => Some(d_dv(d)?),
        };
        sdv.samples = d_opt_sv(&p[1])?;
        s.decision_variables.push(sdv);
    }
    for e in x[2].as_list()? {
        let p = e.as_list()?;
        if p.len() != 11 {
            return Err("sampled constraint: arity".into());
        }
        let mut c = v1::SampledConstraint::default();
        c.id = p[0].as_u64()?;
        c.equality = p[1].as_i64()? as i32;
        c.name = d_optstr(&p[2])?;
        c.subscripts = p[3].as_list()?.iter().map(|x| x.as_i64()).collect::<R<_>>()?;
        c.parameters = d_strmap(&p[4])?;
        c.description = d_optstr(&p[5])?;
        c.removed_reason = d_optstr(&p[6])?;
        c.removed_reason_parameters = d_strmap(&p[7])?;
        c.evaluated_values = d_opt_sv(&p[8])?;
        c.used_decision_variable_ids = p[9].as_list()?.iter().map(|x| x.as_u64()).collect::<R<_>>()?;
        c.feasible = d_boolmap(&p[10])?;
        s.constraints.push(c);
    }
    s.feasible = d_boolmap(&x[3])?;
    s.feasible_relaxed = d_boolmap(&x[4])?;
    #[allow(deprecated)]
    {
        s.feasible_unrelaxed = d_boolmap(&x[5])?;
    }
    s.sense = x[6].as_i64()? as i32;
    Ok(s)
}
pub fn e_sample_set(s: &v1::SampleSet) -> Tree {
    #[allow(deprecated)]
    let fu = &s.feasible_unrelaxed;
    L(vec![
        opt(s.objectives.as_ref(), e_sampled_values),
        list(s.decision_variables.iter(), |d| {
            L(vec![
                opt(d.decision_variable.as_ref(), e_dv),
                opt(d.samples.as_ref(), e_sampled_values),
            ])
        }),
        list(s.constraints.iter(), |c| {
            L(vec![
                u(c.id),
                i(c.equality as i64),
                e_optstr(&c.name),
                list(c.subscripts.iter(), |s| i(*s)),
                e_strmap(&c.parameters),
                e_optstr(&c.description),
                e_optstr(&c.removed_reason),
                e_strmap(&c.removed_reason_parameters),
                opt(c.evaluated_values.as_ref(), e_sampled_values),
                e_ids(c.used_decision_variable_ids.iter()),
                e_boolmap(&c.feasible),
            ])
        }),
        e_boolmap(&s.feasible),
        e_boolmap(&s.feasible_relaxed),
        e_boolmap(fu),
        i(s.sense as i64),
    ])
}

fn hex(bytes: &[u8]) -> String {
    const H: &[u8; 16] = b"0123456789abcdef";
    let mut s = String::with_capacity(bytes.len() * 2);
    for x in bytes {
        s.push(H[(x >> 4) as usize] as char);
        s.push(H[(x & 15) as usize] as char);
    }
    s
}

// ---- annotations ------------------------------------------------------------------

fn res<T>(r: anyhow::Result<T>, e: impl Fn(T) -> Tree) -> Tree {
    match r {
        Ok(x) => L(vec![e(x)]),
        Err(_) => L(vec![]),
    }
}

/// the four kinds with their messages and typed annotations
enum Layer {
    Instance(v1::Instance, InstanceAnnotations),
    Parametric(v1::ParametricInstance, ParametricInstanceAnnotations),
    Solution(v1::State, SolutionAnnotations),
    SampleSet(v1::SampleSet, SampleSetAnnotations),
}

macro_rules! instance_like {
    ($ty:ty, $key_created:expr, $setters:expr, $times:expr) => {{
        let mut ann = <$ty>::default();
        for s in $setters {
            let p = s.as_list()?;
            let tag = p.first().ok_or("setter: empty")?.as_str()?;
            match (tag, p.len()) {
                ("title", 2) => ann.set_title(p[1].as_str()?.to_string()),
                ("license", 2) => ann.set_license(p[1].as_str()?.to_string()),
                ("dataset", 2) => ann.set_dataset(p[1].as_str()?.to_string()),
                ("variables", 2) => ann.set_variables(p[1].as_u64()? as usize),
                ("constraints", 2) => ann.set_constraints(p[1].as_u64()? as usize),
                ("authors", 2) => ann.set_authors(
                    p[1].as_list()?.iter().map(|x| Ok(x.as_str()?.to_string())).collect::<R<Vec<String>>>()?,
                ),
                ("created", 2) => {
                    // obtain a DateTime<Local> through the SDK's own accessor (no chrono dependency here)
                    let mut h = HashMap::new();
                    h.insert($key_created.to_string(), p[1].as_str()?.to_string());
                    let dt = <$ty>::from(h).created().map_err(|e| format!("created: {e:#}"))?;
                    $times.push(L(vec![a(&dt.to_rfc3339()), i(dt.timestamp()), u(dt.timestamp_subsec_nanos() as u64)]));
                    ann.set_created(dt);
                }
                ("other", 3) => ann.set_other(p[1].as_str()?.to_string(), p[2].as_str()?.to_string()),
                _ => return Err(format!("setter {tag} not available for this kind")),
            }
        }
        ann
    }};
}

macro_rules! solution_like {
    ($ty:ty, $key_start:expr, $setters:expr, $times:expr) => {{
        let mut ann = <$ty>::default();
        for s in $setters {
            let p = s.as_list()?;
            let tag = p.first().ok_or("setter: empty")?.as_str()?;
            match (tag, p.len()) {
                ("start", 2) | ("end", 2) => {
                    let mut h = HashMap::new();
                    h.insert($key_start.to_string(), p[1].as_str()?.to_string());
                    let dt = <$ty>::from(h).start().map_err(|e| format!("time: {e:#}"))?;
                    $times.push(L(vec![a(&dt.to_rfc3339()), i(dt.timestamp()), u(dt.timestamp_subsec_nanos() as u64)]));
                    if tag == "start" {
                        ann.set_start(dt)
                    } else {
                        ann.set_end(dt)
                    }
                }
                ("instance", 2) => ann.set_instance(Digest::new(p[1].as_str()?).map_err(|e| format!("digest: {e:#}"))?),
                ("solver", 2) => ann.set_solver(Digest::new(p[1].as_str()?).map_err(|e| format!("digest: {e:#}"))?),
                ("other", 3) => ann.set_other(p[1].as_str()?.to_string(), p[2].as_str()?.to_string()),
                _ => return Err(format!("setter {tag} not available for this kind")),
            }
        }
        ann
    }};
}

macro_rules! instance_accessors {
    ($ann:expr) => {
        L(vec![
            res($ann.title(), |s| a(s)),
            res($ann.created(), |dt| L(vec![i(dt.timestamp()), u(dt.timestamp_subsec_nanos() as u64)])),
            res($ann.authors(), |it| list(it, |s| a(s))),
            res($ann.license(), |s| a(s)),
            res($ann.dataset(), |s| a(s)),
            res($ann.variables(), |n| u(n as u64)),
            res($ann.constraints(), |n| u(n as u64)),
        ])
    };
}
macro_rules! solution_accessors {
    ($ann:expr) => {
        L(vec![
            res($ann.start(), |dt| L(vec![i(dt.timestamp()), u(dt.timestamp_subsec_nanos() as u64)])),
            res($ann.end(), |dt| L(vec![i(dt.timestamp()), u(dt.timestamp_subsec_nanos() as u64)])),
            res($ann.instance(), |d| a(&d.to_string())),
            res($ann.solver(), |d| a(&d.to_string())),
        ])
    };
}

fn d_layer(t: &Tree, times: &mut Vec<Tree>) -> R<Layer> {
    let p = t.as_list()?;
    if p.len() != 3 {
        return Err("add-op: arity".into());
    }
    let setters = p[2].as_list()?;
    Ok(match p[0].as_str()? {
        "instance" => Layer::Instance(
            d_instance(&p[1])?,
            instance_like!(InstanceAnnotations, "org.ommx.v1.instance.created", setters, times),
        ),
        "parametric_instance" => Layer::Parametric(
            d_parametric(&p[1])?,
            instance_like!(
                ParametricInstanceAnnotations,
                "org.ommx.v1.parametric-instance.created",
                setters,
                times
            ),
        ),
        "solution" => Layer::Solution(
            d_state(&p[1])?,
            solution_like!(SolutionAnnotations, "org.ommx.v1.solution.start", setters, times),
        ),
        "sample_set" => Layer::SampleSet(
            d_sample_set(&p[1])?,
            solution_like!(SampleSetAnnotations, "org.ommx.v1.sample-set.start", setters, times),
        ),
        k => return Err(format!("unknown layer kind {k}")),
    })
}

impl Layer {
    fn blob(&self) -> Vec<u8> {
        match self {
            Layer::Instance(m, _) => m.encode_to_vec(),
            Layer::Parametric(m, _) => m.encode_to_vec(),
            Layer::Solution(m, _) => m.encode_to_vec(),
            Layer::SampleSet(m, _) => m.encode_to_vec(),
        }
    }
    fn canon(&self) -> Tree {
        match self {
            Layer::Instance(m, _) => e_instance(m),
            Layer::Parametric(m, _) => e_parametric(m),
            Layer::Solution(m, _) => e_state(m),
            Layer::SampleSet(m, _) => e_sample_set(m),
        }
    }
    fn media_type(&self) -> MediaType {
        match self {
            Layer::Instance(..) => media_types::v1_instance(),
            Layer::Parametric(..) => media_types::v1_parametric_instance(),
            Layer::Solution(..) => media_types::v1_solution(),
            Layer::SampleSet(..) => media_types::v1_sample_set(),
        }
    }
    fn annotations(&self) -> HashMap<String, String> {
        match self {
            Layer::Instance(_, x) => x.clone().into(),
            Layer::Parametric(_, x) => x.clone().into(),
            Layer::Solution(_, x) => x.clone().into(),
            Layer::SampleSet(_, x) => x.clone().into(),
        }
    }
}

fn e_descriptor(d: &Descriptor) -> Tree {
    L(vec![
        a(&d.media_type().to_string()),
        a(d.digest()),
        i(d.size()),
        e_strmap(&d.annotations().clone().unwrap_or_default()),
    ])
}

fn e_err(e: &anyhow::Error) -> Tree {
    let msg = format!("{e:#}");
    let kind = if msg.contains("not found") {
        "notfound"
    } else if msg.contains("is not an ommx.v1") {
        "mediatype"
    } else if msg.contains("Not an OMMX Artifact") {
        "not-ommx"
    } else {
        "other"
    };
    err(kind, &msg)
}

fn any(e: anyhow::Error) -> String {
    format!("{e:#}")
}

fn build_archive(mode: &Tree, layers: Vec<Layer>, path: &PathBuf) -> R<()> {
    let m = mode.as_list()?;
    let tag = m.first().ok_or("mode: empty")?.as_str()?;
    match (tag, m.len()) {
        ("ommx", 1) => {
            let mut builder = Builder::new_archive_unnamed(path.clone()).map_err(any)?;
            for l in layers {
                match l {
                    Layer::Instance(msg, ann) => builder.add_instance(msg, ann),
                    Layer::Parametric(msg, ann) => builder.add_parametric_instance(msg, ann),
                    Layer::Solution(msg, ann) => builder.add_solution(msg, ann),
                    Layer::SampleSet(msg, ann) => builder.add_sample_set(msg, ann),
                }
                .map_err(any)?;
            }
            let _artifact = builder.build().map_err(any)?;
            Ok(())
        }
        ("raw", 2) => {
            let ty = MediaType::Other(m[1].as_str()?.to_string());
            let archive = OciArchiveBuilder::new_unnamed(path.clone()).map_err(any)?;
            let mut builder = OciArtifactBuilder::new(archive, ty).map_err(any)?;
            for l in layers {
                builder.add_layer(l.media_type(), &l.blob(), l.annotations()).map_err(any)?;
            }
            let _artifact = builder.build().map_err(any)?;
            Ok(())
        }
        ("notype", 1) => {
            let mut archive = OciArchiveBuilder::new_unnamed(path.clone()).map_err(any)?;
            let config = archive.add_empty_json().map_err(any)?;
            let mut descs = Vec::new();
            for l in layers {
                let (digest, size) = archive.add_blob(&l.blob()).map_err(any)?;
                descs.push(
                    DescriptorBuilder::default()
                        .media_type(l.media_type())
                        .digest(digest.to_string())
                        .size(size)
                        .annotations(l.annotations())
                        .build()
                        .map_err(|e| format!("descriptor: {e}"))?,
                );
            }
            let manifest: ImageManifest = ImageManifestBuilder::default()
                .schema_version(2_u32)
                .config(config)
                .layers(descs)
                .build()
                .map_err(|e| format!("manifest: {e}"))?;
            let _image = archive.build(manifest).map_err(any)?;
            Ok(())
        }
        _ => Err(format!("unknown mode {tag}")),
    }
}

pub fn artifact_roundtrip(input: &Tree) -> R<Tree> {
    let x = input.as_list()?;
    if x.len() != 3 {
        return Err("artifact_roundtrip: arity".into());
    }
    let probe = x[2].as_str()?.to_string();
    let mut aux = Vec::new();
    let mut layers = Vec::new();
    for t in x[1].as_list()? {
        let mut times = Vec::new();
        let l = d_layer(t, &mut times)?;
        aux.push(L(vec![a(&hex(&l.blob())), l.canon(), L(times)]));
        layers.push(l);
    }
    let tmp = tmp_path()?;
    build_archive(&x[0], layers, &tmp.0)?;

    // ---- read back ----
    let mut art: Artifact<OciArchive> = match Artifact::from_oci_archive(&tmp.0) {
        Ok(a) => a,
        Err(e) => return Ok(err("open", &format!("{e:#}"))),
    };
    let mut digests: Vec<String> = Vec::new();
    let raw = match Image::get_manifest(&mut **art) {
        Ok(m) => {
            for d in m.layers() {
                if !digests.contains(d.digest()) {
                    digests.push(d.digest().clone());
                }
            }
            ok(L(vec![
                opt(m.artifact_type().as_ref(), |t| a(&t.to_string())),
                list(m.layers().iter(), e_descriptor),
            ]))
        }
        Err(e) => e_err(&e),
    };
    let checked = match art.get_manifest() {
        Ok(m) => ok(L(vec![
            opt(m.artifact_type().as_ref(), |t| a(&t.to_string())),
            list(m.layers().iter(), e_descriptor),
        ])),
        Err(e) => e_err(&e),
    };
    let mut by_kind = Vec::new();
    for mt in [
        media_types::v1_instance(),
        media_types::v1_parametric_instance(),
        media_types::v1_solution(),
        media_types::v1_sample_set(),
    ] {
        by_kind.push(match art.get_layer_descriptors(&mt) {
            Ok(ds) => ok(list(ds.iter(), e_descriptor)),
            Err(e) => e_err(&e),
        });
    }
    // the listing accessors: every layer of the kind, in insertion order, with ITS OWN descriptor
    let listing = L(vec![
        match art.get_instances() {
            Ok(v) => ok(list(v.iter(), |(d, m)| L(vec![e_descriptor(d), e_instance(m)]))),
            Err(e) => e_err(&e),
        },
        match art.get_solutions() {
            Ok(v) => ok(list(v.iter(), |(d, m)| L(vec![e_descriptor(d), e_state(m)]))),
            Err(e) => e_err(&e),
        },
    ]);
    if !digests.contains(&probe) {
        digests.push(probe);
    }
    let mut rows = Vec::new();
    for ds in &digests {
        let d = Digest::new(ds).map_err(|e| format!("digest {ds}: {e:#}"))?;
        let r_inst = match art.get_instance(&d) {
            Ok((m, ann)) => ok(L(vec![e_instance(&m), e_strmap(&ann), instance_accessors!(ann)])),
            Err(e) => e_err(&e),
        };
        let r_par = match art.get_parametric_instance(&d) {
            Ok((m, ann)) => ok(L(vec![e_parametric(&m), e_strmap(&ann), instance_accessors!(ann)])),
            Err(e) => e_err(&e),
        };
        let r_sol = match art.get_solution(&d) {
            Ok((m, ann)) => ok(L(vec![e_state(&m), e_strmap(&ann), solution_accessors!(ann)])),
            Err(e) => e_err(&e),
        };
        let r_ss = match art.get_sample_set(&d) {
            Ok((m, ann)) => ok(L(vec![e_sample_set(&m), e_strmap(&ann), solution_accessors!(ann)])),
            Err(e) => e_err(&e),
        };
        rows.push(L(vec![a(ds), L(vec![r_inst, r_par, r_sol, r_ss])]));
    }
    drop(art);
    drop(tmp);
    Ok(ok(L(vec![L(aux), raw, checked, L(by_kind), L(rows), listing])))
}

pub fn dispatch(op: &str, input: &Tree) -> Option<Result<Tree, String>> {
    match op {
        "artifact_roundtrip" => Some(artifact_roundtrip(input)),
        _ => None,
    }
}
