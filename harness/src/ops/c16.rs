//! C16 — interval bounds: ommx::Bound operations, Function::evaluate_bound, content_factor.
//! A bound travels as `[lower, upper]` (raw f64 bits). Inputs may carry extra trailing
//! elements (sample points used only by the Coq runner); they are ignored here.
use crate::conv::*;
use crate::tree::*;
use ommx::{Bound, Bounds, VariableID};

type R<T> = Result<T, String>;

fn d_pair(t: &Tree) -> R<(f64, f64)> {
    let p = t.as_list()?;
    if p.len() != 2 {
        return Err("bound: arity".into());
    }
    Ok((p[0].as_f64()?, p[1].as_f64()?))
}
/// operands of the interval operations are valid by construction of the generators;
/// an invalid one is a defect of the generator, not of the SDK
fn d_bnd(t: &Tree) -> R<Bound> {
    let (l, u) = d_pair(t)?;
    Bound::new(l, u).map_err(|e| format!("operand is not a valid bound: {e}"))
}
fn e_bnd(b: &Bound) -> Tree {
    L(vec![f(b.lower()), f(b.upper())])
}
fn need(xs: &[Tree], n: usize) -> R<()> {
    if xs.len() < n {
        Err(format!("expected at least {n} arguments"))
    } else {
        Ok(())
    }
}

pub fn dispatch(op: &str, input: &Tree) -> Option<Result<Tree, String>> {
    Some(run(op, input)?)
}

fn run(op: &str, input: &Tree) -> Option<R<Tree>> {
    let known = [
        "bound_new",
        "bound_add",
        "bound_add_scalar",
        "bound_mul",
        "bound_scale",
        "bound_pow",
        "as_integer_bound",
        "bound_contains",
        "bound_intersection",
        "nearest_to_zero",
        "evaluate_bound",
        "content_factor",
    ];
    if !known.contains(&op) {
        return None;
    }
    Some(run_known(op, input))
}

fn run_known(op: &str, input: &Tree) -> R<Tree> {
    let xs = input.as_list()?;
    match op {
        "bound_new" => {
            need(xs, 2)?;
            let (l, u) = (xs[0].as_f64()?, xs[1].as_f64()?);
            Ok(match Bound::new(l, u) {
                Ok(b) => ok(e_bnd(&b)),
                Err(e) => err("bound", &format!("{e}")),
            })
        }
        "bound_add" => {
            need(xs, 2)?;
            let (x, y) = (d_bnd(&xs[0])?, d_bnd(&xs[1])?);
            Ok(ok(e_bnd(&(x + y))))
        }
        "bound_add_scalar" => {
            need(xs, 2)?;
            let x = d_bnd(&xs[0])?;
            let c = xs[1].as_f64()?;
            Ok(ok(e_bnd(&(x + c))))
        }
        "bound_mul" => {
            need(xs, 2)?;
            let (x, y) = (d_bnd(&xs[0])?, d_bnd(&xs[1])?);
            Ok(ok(e_bnd(&(x * y))))
        }
        "bound_scale" => {
            need(xs, 2)?;
            let x = d_bnd(&xs[0])?;
            let k = xs[1].as_f64()?;
            Ok(ok(e_bnd(&(x * k))))
        }
        "bound_pow" => {
            need(xs, 2)?;
            let x = d_bnd(&xs[0])?;
            let n = xs[1].as_u64()?;
            if n > 255 {
                return Err("exponent does not fit u8".into());
            }
            Ok(ok(e_bnd(&x.pow(n as u8))))
        }
        "as_integer_bound" => {
            need(xs, 1)?;
            let x = d_bnd(&xs[0])?;
            Ok(ok(e_bnd(&x.as_integer_bound())))
        }
        "bound_contains" => {
            need(xs, 3)?;
            let x = d_bnd(&xs[0])?;
            Ok(ok(b(x.contains(xs[1].as_f64()?, xs[2].as_f64()?))))
        }
        "bound_intersection" => {
            need(xs, 2)?;
            let (x, y) = (d_bnd(&xs[0])?, d_bnd(&xs[1])?);
            Ok(ok(opt(x.intersection(&y), |z| e_bnd(&z))))
        }
        "nearest_to_zero" => {
            need(xs, 1)?;
            let x = d_bnd(&xs[0])?;
            Ok(ok(f(x.nearest_to_zero())))
        }
        "evaluate_bound" => {
            need(xs, 2)?;
            let fun = d_function(&xs[0])?;
            let mut bounds = Bounds::new();
            for e in xs[1].as_list()? {
                let p = e.as_list()?;
                if p.len() != 2 {
                    return Err("bounds entry: arity".into());
                }
                let id = p[0].as_u64()?;
                if bounds.insert(VariableID::from(id), d_bnd(&p[1])?).is_some() {
                    return Err("bounds: repeated id".into());
                }
            }
            Ok(ok(e_bnd(&fun.evaluate_bound(&bounds))))
        }
        "content_factor" => {
            need(xs, 1)?;
            let fun = d_function(&xs[0])?;
            Ok(match fun.content_factor() {
                Ok(a) => ok(f(a)),
                Err(e) => err("content_factor", &format!("{e:#}")),
            })
        }
        _ => Err(format!("unknown op {op}")),
    }
}
