//! C08: Instance::validate, ParametricInstance::validate, TryFrom<v1::Instance> for ommx::Instance.
use crate::conv::*;
use crate::tree::*;
use ommx::parse::{Parse, ParseError, RawParseError};

fn validate(input: &Tree) -> Result<Tree, String> {
    let ins = d_instance(input)?;
    Ok(match ins.validate() {
        Ok(()) => ok(L(vec![])),
        Err(e) => err("validate", &format!("{e:#}")),
    })
}
fn pvalidate(input: &Tree) -> Result<Tree, String> {
    let p = d_parametric(input)?;
    Ok(match p.validate() {
        Ok(()) => ok(L(vec![])),
        Err(e) => err("validate", &format!("{e:#}")),
    })
}

fn e_parse_error(e: &ParseError) -> Tree {
    let (kind, payload) = match &e.error {
        RawParseError::UnsupportedV1Function => ("unsupported", L(vec![])),
        RawParseError::MissingField { message, field } => ("missing", L(vec![a(message), a(field)])),
        RawParseError::UnspecifiedEnum { enum_name } => ("unspecified", L(vec![a(enum_name)])),
        RawParseError::DuplicatedVariableID { id } => ("dup-var", L(vec![u(**id)])),
        RawParseError::DuplicatedConstraintID { id } => ("dup-constr", L(vec![u(**id)])),
        RawParseError::UndefinedVariableID { id } => ("undef-var", L(vec![u(**id)])),
        RawParseError::UndefinedConstraintID { id } => ("undef-constr", L(vec![u(**id)])),
        RawParseError::NonUniqueVariableID { id } => ("nonunique-var", L(vec![u(**id)])),
        RawParseError::NonUniqueConstraintID { id } => ("nonunique-constr", L(vec![u(**id)])),
        RawParseError::InvalidBound(_) => ("invalid-bound", L(vec![])),
        _ => ("other", L(vec![])),
    };
    L(vec![
        a("err"),
        a(kind),
        payload,
        list(e.context.iter(), |c| L(vec![a(c.message), a(c.field)])),
    ])
}

fn kind_code(k: ommx::Kind) -> i64 {
    match k {
        ommx::Kind::Binary => 1,
        ommx::Kind::Integer => 2,
        ommx::Kind::Continuous => 3,
        ommx::Kind::SemiInteger => 4,
        ommx::Kind::SemiContinuous => 5,
    }
}
fn eq_code(e: ommx::Equality) -> i64 {
    match e {
        ommx::Equality::EqualToZero => 1,
        ommx::Equality::LessThanOrEqualToZero => 2,
    }
}
fn e_typed_fn(g: &ommx::Function) -> Tree {
    match g {
        ommx::Function::Constant(c) => L(vec![a("const"), f(*c)]),
        ommx::Function::Linear(l) => L(vec![a("lin"), e_linear(l)]),
        ommx::Function::Quadratic(q) => L(vec![a("quad"), e_quadratic(q)]),
        ommx::Function::Polynomial(p) => L(vec![a("poly"), e_polynomial(p)]),
    }
}
fn e_typed_constraint(c: &ommx::Constraint) -> Tree {
    let mut params: Vec<_> = c.parameters.iter().collect();
    params.sort();
    L(vec![
        u(*c.id),
        i(eq_code(c.equality)),
        e_typed_fn(&c.function),
        opt(c.name.as_ref(), |s| a(s)),
        list(c.subscripts.iter(), |s| i(*s)),
        list(params, |(k, v)| L(vec![a(k), a(v)])),
        opt(c.description.as_ref(), |s| a(s)),
    ])
}

/// typed_parse: instance -> [result of Instance::try_from, typed components parsed with the public
/// Parse impls: [[id, kind, lower, upper, opt substituted, name, subscripts, params, description]..],
/// [constraint..], [[constraint, reason, params]..]] (components only when try_from succeeded)
fn typed_parse(input: &Tree) -> Result<Tree, String> {
    let ins = d_instance(input)?;
    let res = match ommx::Instance::try_from(ins.clone()) {
        Ok(_) => a("ok"),
        Err(e) => return Ok(L(vec![e_parse_error(&e), L(vec![])])),
    };
    let dvs = ins.decision_variables.clone().parse(&()).map_err(|e| format!("dvs: {e}"))?;
    let cs = ins.constraints.clone().parse(&()).map_err(|e| format!("constraints: {e}"))?;
    let rs = ins.removed_constraints.clone().parse(&cs).map_err(|e| format!("removed: {e}"))?;
    // the remaining typed components through their public Parse impls: sense, objective, hints
    let sense = match ins.sense().parse(&()).map_err(|e| format!("sense: {e}"))? {
        ommx::Sense::Minimize => 1,
        ommx::Sense::Maximize => 2,
    };
    let objective = ins
        .objective
        .clone()
        .ok_or("objective unset although try_from succeeded")?
        .parse(&())
        .map_err(|e| format!("objective: {e}"))?;
    let hints = match ins.constraint_hints.clone() {
        Some(h) => h
            .parse(&(dvs.clone(), cs.clone()))
            .map_err(|e| format!("hints: {e}"))?,
        None => Default::default(),
    };
    let mut dv_list: Vec<_> = dvs.values().collect();
    dv_list.sort_by_key(|d| *d.id);
    let mut c_list: Vec<_> = cs.values().collect();
    c_list.sort_by_key(|c| *c.id);
    let mut r_list: Vec<_> = rs.values().collect();
    r_list.sort_by_key(|r| *r.constraint.id);
    let comps = L(vec![
        list(dv_list, |d| {
            let mut params: Vec<_> = d.parameters.iter().collect();
            params.sort();
            L(vec![
                u(*d.id),
                i(kind_code(d.kind)),
                f(d.bound.lower()),
                f(d.bound.upper()),
                opt(d.substituted_value, f),
                opt(d.name.as_ref(), |s| a(s)),
                list(d.subscripts.iter(), |s| i(*s)),
                list(params, |(k, v)| L(vec![a(k), a(v)])),
                opt(d.description.as_ref(), |s| a(s)),
            ])
        }),
        list(c_list, e_typed_constraint),
        list(r_list, |r| {
            let mut params: Vec<_> = r.removed_reason_parameters.iter().collect();
            params.sort();
            L(vec![
                e_typed_constraint(&r.constraint),
                a(&r.removed_reason),
                list(params, |(k, v)| L(vec![a(k), a(v)])),
            ])
        }),
        i(sense),
        e_typed_fn(&objective),
        L(vec![
            list(hints.one_hot_constraints.iter(), |o| {
                L(vec![u(*o.id), list(o.variables.iter(), |v| u(**v))])
            }),
            list(hints.sos1_constraints.iter(), |s| {
                L(vec![
                    u(*s.binary_constraint_id),
                    list(s.big_m_constraint_ids.iter(), |c| u(**c)),
                    list(s.variables.iter(), |v| u(**v)),
                ])
            }),
        ]),
    ]);
    Ok(L(vec![res, comps]))
}

pub fn dispatch(op: &str, input: &Tree) -> Option<Result<Tree, String>> {
    match op {
        "validate" => Some(validate(input)),
        "pvalidate" => Some(pvalidate(input)),
        "typed_parse" => Some(typed_parse(input)),
        _ => None,
    }
}
