//! C17 / C18: the MPS reader and writer of the SDK.
//!
//!   mps_load  : [ [line..], mode ]            mode = "plain" | "gz" | "crlf" | "file"
//!               -> ok instance | err kind payload
//!   mps_write : instance -> ok [line..] | [err kind [payload..]]
//!   mps_cross : [ instance, [model line..] ]
//!               -> [ write result, load(SDK text) result, load(model text) result ]
//!               (SDK text is written with mps::write_file and re-read with mps::load_file;
//!                the model's text is fed to load_raw_reader)
use crate::conv::*;
use crate::tree::*;
use flate2::{read::GzDecoder, write::GzEncoder, Compression};
use ommx::mps::{self, MpsParseError, MpsWriteError};
use std::io::{Read, Write};
use std::sync::atomic::{AtomicU64, Ordering};

static COUNTER: AtomicU64 = AtomicU64::new(0);

fn tmp_path(tag: &str) -> std::path::PathBuf {
    let n = COUNTER.fetch_add(1, Ordering::SeqCst);
    std::env::temp_dir().join(format!(
        "ommx_verif_{}_{}_{}.mps.gz",
        std::process::id(),
        tag,
        n
    ))
}

fn lines_of(t: &Tree) -> Result<Vec<String>, String> {
    t.as_list()?
        .iter()
        .map(|x| Ok(x.as_str()?.to_string()))
        .collect()
}

fn join(lines: &[String], sep: &str) -> String {
    let mut s = String::new();
    for l in lines {
        s.push_str(l);
        s.push_str(sep);
    }
    s
}

fn gz(bytes: &[u8]) -> Vec<u8> {
    let mut e = GzEncoder::new(Vec::new(), Compression::new(5));
    e.write_all(bytes).unwrap();
    e.finish().unwrap()
}

fn e_parse_err(e: &MpsParseError) -> Tree {
    let (kind, payload) = match e {
        MpsParseError::UnknownRowName(s) => ("UnknownRowName", s.clone()),
        MpsParseError::InvalidRowType(s) => ("InvalidRowType", s.clone()),
        MpsParseError::InvalidBoundType(s) => ("InvalidBoundType", s.clone()),
        MpsParseError::InvalidHeader(s) => ("InvalidHeader", s.clone()),
        MpsParseError::InvalidMarker(s) => ("InvalidMarker", s.clone()),
        MpsParseError::InvalidObjSense(s) => ("InvalidObjSense", s.clone()),
        MpsParseError::Io(e) => ("Io", format!("{e}")),
        MpsParseError::ParseFloat(e) => ("ParseFloat", format!("{e}")),
    };
    err(kind, &payload)
}

fn load_result(r: Result<ommx::v1::Instance, MpsParseError>) -> Tree {
    match r {
        Ok(ins) => ok(e_instance(&ins)),
        Err(e) => e_parse_err(&e),
    }
}

fn load_text(lines: &[String], mode: &str) -> Result<Tree, String> {
    Ok(match mode {
        "plain" => load_result(mps::load_raw_reader(join(lines, "\n").as_bytes())),
        "crlf" => load_result(mps::load_raw_reader(join(lines, "\r\n").as_bytes())),
        "gz" => load_result(mps::load_zipped_reader(&gz(join(lines, "\n").as_bytes())[..])),
        "file" => {
            let p = tmp_path("in");
            std::fs::write(&p, gz(join(lines, "\n").as_bytes())).map_err(|e| e.to_string())?;
            let r = mps::load_file(&p);
            let _ = std::fs::remove_file(&p);
            load_result(r)
        }
        _ => return Err(format!("mps_load: unknown mode {mode}")),
    })
}

/// c17_load: [model, layout, fault, [line..], mode]: the model part is for the Coq side only
pub fn c17_load(input: &Tree) -> Result<Tree, String> {
    let xs = input.as_list()?;
    if xs.len() != 5 {
        return Err("c17_load: arity".into());
    }
    let lines = lines_of(&xs[3])?;
    load_text(&lines, xs[4].as_str()?)
}

pub fn mps_load(input: &Tree) -> Result<Tree, String> {
    let xs = input.as_list()?;
    if xs.len() != 2 {
        return Err("mps_load: arity".into());
    }
    let lines = lines_of(&xs[0])?;
    load_text(&lines, xs[1].as_str()?)
}

fn e_write_err(e: &MpsWriteError) -> Tree {
    match e {
        MpsWriteError::InvalidConstraintType { name, degree } => L(vec![
            a("err"),
            a("InvalidConstraintType"),
            L(vec![a(name), u(*degree as u64)]),
        ]),
        MpsWriteError::InvalidObjectiveType { degree } => L(vec![
            a("err"),
            a("InvalidObjectiveType"),
            L(vec![u(*degree as u64)]),
        ]),
        MpsWriteError::InvalidVariableId(id) => {
            L(vec![a("err"), a("InvalidVariableId"), L(vec![u(*id)])])
        }
        MpsWriteError::Io(e) => L(vec![a("err"), a("Io"), L(vec![a(&format!("{e}"))])]),
    }
}

/// write with mps::write_file (gzip) and return (path kept?, text lines)
fn write_to_lines(ins: &ommx::v1::Instance, keep: Option<&std::path::Path>) -> Result<Result<Vec<String>, Tree>, String> {
    let p = match keep {
        Some(p) => p.to_path_buf(),
        None => tmp_path("out"),
    };
    let r = mps::write_file(ins, &p);
    let out = match r {
        Err(e) => Err(e_write_err(&e)),
        Ok(()) => {
            let bytes = std::fs::read(&p).map_err(|e| e.to_string())?;
            let mut s = String::new();
            GzDecoder::new(&bytes[..])
                .read_to_string(&mut s)
                .map_err(|e| e.to_string())?;
            // the lines BufRead::lines() would yield
            let mut v: Vec<String> = s.split('\n').map(|x| x.to_string()).collect();
            if v.last().map(|x| x.is_empty()).unwrap_or(false) {
                v.pop();
            }
            Ok(v)
        }
    };
    if keep.is_none() {
        let _ = std::fs::remove_file(&p);
    }
    Ok(out)
}

pub fn mps_write(input: &Tree) -> Result<Tree, String> {
    let ins = d_instance(input)?;
    Ok(match write_to_lines(&ins, None)? {
        Ok(lines) => ok(list(lines.iter(), |l| a(l))),
        Err(t) => t,
    })
}

pub fn mps_cross(input: &Tree) -> Result<Tree, String> {
    let xs = input.as_list()?;
    if xs.len() != 2 {
        return Err("mps_cross: arity".into());
    }
    let ins = d_instance(&xs[0])?;
    let model_lines = lines_of(&xs[1])?;
    let p = tmp_path("rt");
    let w = write_to_lines(&ins, Some(&p))?;
    let (wt, l1) = match w {
        Ok(lines) => {
            let r = mps::load_file(&p);
            (ok(list(lines.iter(), |l| a(l))), load_result(r))
        }
        Err(t) => (t, L(vec![a("none")])),
    };
    let _ = std::fs::remove_file(&p);
    let l2 = if model_lines.is_empty() {
        L(vec![a("none")])
    } else {
        load_text(&model_lines, "plain")?
    };
    Ok(L(vec![wt, l1, l2]))
}

pub fn dispatch(op: &str, input: &Tree) -> Option<Result<Tree, String>> {
    match op {
        "mps_load" => Some(mps_load(input)),
        "c17_load" => Some(c17_load(input)),
        "mps_write" => Some(mps_write(input)),
        "mps_cross" => Some(mps_cross(input)),
        _ => None,
    }
}
