//! Operation dispatch: every property module gets a chance to claim the op name.
pub mod c01;

use crate::tree::Tree;

pub fn dispatch(op: &str, input: &Tree) -> Result<Tree, String> {
    if let Some(r) = c01::dispatch(op, input) {
        return r;
    }
    Err(format!("unknown op {op}"))
}
