pub mod c01;

use crate::tree::Tree;

pub fn dispatch(op: &str, input: &Tree) -> Result<Tree, String> {
    match op {
        "evaluate" => c01::evaluate(input),
        _ => Err(format!("unknown op {op}")),
    }
}
