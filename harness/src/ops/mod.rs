//! Operation dispatch: every property module gets a chance to claim the op name.
pub mod c01;
pub mod c02;
pub mod c02_table;
pub mod c03;
pub mod c04;
pub mod inst;
pub mod samples;
pub mod c07;
pub mod c08;
pub mod c13;
pub mod c16;
pub mod c17;
pub mod c19;
pub mod c20;

use crate::tree::Tree;

pub fn dispatch(op: &str, input: &Tree) -> Result<Tree, String> {
    if let Some(r) = c01::dispatch(op, input) {
        return r;
    }
    if let Some(r) = c19::dispatch(op, input) {
        return r;
    }
    if let Some(r) = c02::dispatch(op, input) {
        return r;
    }
    if let Some(r) = c16::dispatch(op, input) {
        return r;
    }
    if let Some(r) = c20::dispatch(op, input) {
        return r;
    }
    if let Some(r) = c17::dispatch(op, input) {
        return r;
    }
    if let Some(r) = c03::dispatch(op, input) {
        return r;
    }
    if let Some(r) = c07::dispatch(op, input) {
        return r;
    }
    if let Some(r) = inst::dispatch(op, input) {
        return r;
    }
    if let Some(r) = samples::dispatch(op, input) {
        return r;
    }
    if let Some(r) = c04::dispatch(op, input) {
        return r;
    }
    if let Some(r) = c08::dispatch(op, input) {
        return r;
    }
    if let Some(r) = c13::dispatch(op, input) {
        return r;
    }
    Err(format!("unknown op {op}"))
}
