//! C19 — QPLIB reader.  `qplib_load`: input = [line atoms..] (the text is the lines joined by
//! '\n', each terminated by '\n'), written to a private temp file and loaded with the public
//! `ommx::qplib::load_file`.  Result: ok instance-tree | err "qplib" message line
//! class (line = the N of the trailing "(at line N)" of the Display string, -1 if absent;
//! class = ptype | sense | vtype | eof | line | float | int | other, from the message text).
use crate::conv::*;
use crate::tree::*;
use std::io::Write;
use std::sync::atomic::{AtomicU64, Ordering};

static COUNTER: AtomicU64 = AtomicU64::new(0);

fn tmp_path() -> std::path::PathBuf {
    let dir = std::path::Path::new("/verif/.cache/tmp");
    let _ = std::fs::create_dir_all(dir);
    let n = COUNTER.fetch_add(1, Ordering::SeqCst);
    dir.join(format!("c19-{}-{}.qplib", std::process::id(), n))
}

/// the N of a trailing "(at line N)"
fn line_of(msg: &str) -> i64 {
    let key = "(at line ";
    match msg.rfind(key) {
        None => -1,
        Some(p) => {
            let rest = &msg[p + key.len()..];
            match rest.find(')') {
                Some(q) if rest[q + 1..].trim().is_empty() => rest[..q].parse::<i64>().unwrap_or(-1),
                _ => -1,
            }
        }
    }
}

/// error class from the Display text of ParseErrorReason (the enum itself is not reachable:
/// the public API returns anyhow::Error and QplibParseError's fields are private)
fn class_of(msg: &str) -> &'static str {
    if msg.starts_with("Invalid problem type") {
        "ptype"
    } else if msg.starts_with("Invalid OBJSENSE") {
        "sense"
    } else if msg.starts_with("Invalid variable type") {
        "vtype"
    } else if msg.starts_with("Unexpected end of file") {
        "eof"
    } else if msg.starts_with("Line ") && msg.contains("did not match expected formatting") {
        "line"
    } else if msg.contains("float") {
        "float"
    } else if msg.contains("digit") || msg.contains("integer") || msg.contains("number too") {
        "int"
    } else {
        "other"
    }
}

struct Cleanup(std::path::PathBuf);
impl Drop for Cleanup {
    fn drop(&mut self) {
        let _ = std::fs::remove_file(&self.0);
    }
}

/// `qplib_load`: input = [spec, [line..]] (spec = the abstract model the text was rendered
/// from; only Coq reads it).  `qplib_load_text`: input = [line..].
pub fn qplib_load(input: &Tree) -> Result<Tree, String> {
    let xs = input.as_list()?;
    if xs.len() != 2 {
        return Err("qplib_load: input must be [spec, lines]".into());
    }
    qplib_load_text(&xs[1])
}

pub fn qplib_load_text(input: &Tree) -> Result<Tree, String> {
    let mut text = String::new();
    for l in input.as_list()? {
        text.push_str(l.as_str()?);
        text.push('\n');
    }
    let path = tmp_path();
    {
        let mut fh = std::fs::File::create(&path).map_err(|e| format!("tmp file: {e}"))?;
        fh.write_all(text.as_bytes()).map_err(|e| format!("tmp file: {e}"))?;
    }
    let _guard = Cleanup(path.clone());
    Ok(match ommx::qplib::load_file(&path) {
        Ok(ins) => ok(e_instance(&ins)),
        Err(e) => {
            let msg = format!("{e}");
            L(vec![a("err"), a("qplib"), a(&msg), i(line_of(&msg)), a(class_of(&msg))])
        }
    })
}

pub fn dispatch(op: &str, input: &Tree) -> Option<Result<Tree, String>> {
    match op {
        "qplib_load" => Some(qplib_load(input)),
        "qplib_load_text" => Some(qplib_load_text(input)),
        _ => None,
    }
}
