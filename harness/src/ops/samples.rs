//! Sample sets: Instance::evaluate_samples, SampleSet::get, best_feasible* (C06, C15).
use crate::conv::*;
use crate::tree::*;
use ommx::v1;
use ommx::Evaluate;
use prost::Message;
use std::collections::HashMap;

fn d_samples(t: &Tree) -> Result<v1::Samples, String> {
    let mut s = v1::Samples::default();
    for e in t.as_list()? {
        let p = e.as_list()?;
        let mut en = v1::samples::SamplesEntry::default();
        en.state = Some(d_state(&p[0])?);
        en.ids = p[1].as_list()?.iter().map(|x| x.as_u64()).collect::<Result<_, _>>()?;
        s.entries.push(en);
    }
    Ok(s)
}
fn e_sv(sv: &v1::SampledValues) -> Tree {
    list(sv.entries.iter(), |e| L(vec![f(e.value), e_ids(e.ids.iter())]))
}
fn d_sv(t: &Tree) -> Result<v1::SampledValues, String> {
    let mut sv = v1::SampledValues::default();
    for e in t.as_list()? {
        let p = e.as_list()?;
        let mut en = v1::sampled_values::SampledValuesEntry::default();
        en.value = p[0].as_f64()?;
        en.ids = p[1].as_list()?.iter().map(|x| x.as_u64()).collect::<Result<_, _>>()?;
        sv.entries.push(en);
    }
    Ok(sv)
}
fn e_bmap(m: &HashMap<u64, bool>) -> Tree {
    let mut v: Vec<_> = m.iter().collect();
    v.sort();
    list(v, |(k, x)| L(vec![u(*k), b(*x)]))
}
fn d_bmap(t: &Tree) -> Result<HashMap<u64, bool>, String> {
    let mut m = HashMap::new();
    for e in t.as_list()? {
        let p = e.as_list()?;
        m.insert(p[0].as_u64()?, p[1].as_bool()?);
    }
    Ok(m)
}
fn e_optstr(s: &Option<String>) -> Tree {
    opt(s.as_ref(), |x| a(x))
}
fn e_strmap(m: &HashMap<String, String>) -> Tree {
    let mut v: Vec<_> = m.iter().collect();
    v.sort();
    list(v, |(k, x)| L(vec![a(k), a(x)]))
}
fn e_sampled_constraint(c: &v1::SampledConstraint) -> Tree {
    L(vec![
        u(c.id),
        i(c.equality as i64),
        opt(c.evaluated_values.as_ref(), e_sv),
        e_ids(c.used_decision_variable_ids.iter()),
        e_optstr(&c.name),
        list(c.subscripts.iter(), |s| i(*s)),
        e_strmap(&c.parameters),
        e_optstr(&c.description),
        e_optstr(&c.removed_reason),
        e_strmap(&c.removed_reason_parameters),
        e_bmap(&c.feasible),
    ])
}
fn e_sample_set(ss: &v1::SampleSet) -> Tree {
    #[allow(deprecated)]
    let fu = &ss.feasible_unrelaxed;
    L(vec![
        opt(ss.objectives.as_ref(), e_sv),
        list(ss.decision_variables.iter(), |d| {
            L(vec![
                opt(d.decision_variable.as_ref(), e_dv),
                opt(d.samples.as_ref(), e_sv),
            ])
        }),
        list(ss.constraints.iter(), e_sampled_constraint),
        e_bmap(&ss.feasible),
        e_bmap(&ss.feasible_relaxed),
        e_bmap(fu),
        i(ss.sense as i64),
    ])
}
fn res_id(r: anyhow::Result<u64>) -> Tree {
    match r {
        Ok(k) => ok(u(k)),
        Err(e) => err("best", &format!("{e:#}")),
    }
}
fn res_sol(r: anyhow::Result<v1::Solution>) -> Tree {
    match r {
        Ok(s) => ok(e_solution(&s)),
        Err(e) => err("solution", &format!("{e:#}")),
    }
}

/// eval_samples: [instance, [[state, [ids]]..]] ->
///   ok [sample set, [[id, get(id), evaluate(state of id)]..], best_feasible_id, best_feasible_unrelaxed_id,
///       best_feasible(), best_feasible_unrelaxed()] | err
fn eval_samples(input: &Tree) -> Result<Tree, String> {
    let xs = input.as_list()?;
    let ins = d_instance(&xs[0])?;
    let samples = d_samples(&xs[1])?;
    let ss = match ins.evaluate_samples(&samples) {
        Ok((ss, _)) => ss,
        Err(e) => return Ok(err("evaluate_samples", &format!("{e:#}"))),
    };
    let mut per = Vec::new();
    let mut seen = std::collections::BTreeSet::new();
    for (id, st) in samples.iter() {
        if !seen.insert(*id) {
            continue;
        }
        let single = match ins.evaluate(st) {
            Ok((s, _)) => ok(e_solution(&s)),
            Err(e) => err("evaluate", &format!("{e:#}")),
        };
        per.push(L(vec![u(*id), res_sol(ss.get(*id)), single]));
    }
    Ok(ok(L(vec![
        e_sample_set(&ss),
        L(per),
        res_id(ss.best_feasible_id()),
        res_id(ss.best_feasible_unrelaxed_id()),
        res_sol(ss.best_feasible()),
        res_sol(ss.best_feasible_unrelaxed()),
    ])))
}

/// best: [opt objectives, feasible, feasible_relaxed, feasible_unrelaxed, sense, through_wire]
///   -> ok [best_feasible_id, best_feasible_unrelaxed_id]
fn best(input: &Tree) -> Result<Tree, String> {
    let xs = input.as_list()?;
    let mut ss = v1::SampleSet::default();
    ss.objectives = match xs[0].as_opt()? {
        None => None,
        Some(t) => Some(d_sv(t)?),
    };
    ss.feasible = d_bmap(&xs[1])?;
    ss.feasible_relaxed = d_bmap(&xs[2])?;
    #[allow(deprecated)]
    {
        ss.feasible_unrelaxed = d_bmap(&xs[3])?;
    }
    ss.sense = xs[4].as_i64()? as i32;
    if xs[5].as_bool()? {
        // as decoded from a stored message
        let bytes = ss.encode_to_vec();
        ss = v1::SampleSet::decode(bytes.as_slice()).map_err(|e| e.to_string())?;
    }
    Ok(ok(L(vec![
        res_id(ss.best_feasible_id()),
        res_id(ss.best_feasible_unrelaxed_id()),
    ])))
}

pub fn dispatch(op: &str, input: &Tree) -> Option<Result<Tree, String>> {
    match op {
        "eval_samples" => Some(eval_samples(input)),
        "best" => Some(best(input)),
        _ => None,
    }
}
