//! Conversions between trees and ommx.v1 messages (prost structs are #[non_exhaustive]:
//! built with Default + field assignment).
use crate::tree::*;
use ommx::v1;
use std::collections::HashMap;

type R<T> = Result<T, String>;

pub fn d_linear(t: &Tree) -> R<v1::Linear> {
    let xs = t.as_list()?;
    if xs.len() != 2 {
        return Err("linear: arity".into());
    }
    let mut l = v1::Linear::default();
    for term in xs[0].as_list()? {
        let p = term.as_list()?;
        if p.len() != 2 {
            return Err("linear term: arity".into());
        }
        let mut tm = v1::linear::Term::default();
        tm.id = p[0].as_u64()?;
        tm.coefficient = p[1].as_f64()?;
        l.terms.push(tm);
    }
    l.constant = xs[1].as_f64()?;
    Ok(l)
}

pub fn d_quadratic(t: &Tree) -> R<v1::Quadratic> {
    let xs = t.as_list()?;
    if xs.len() != 4 {
        return Err("quadratic: arity".into());
    }
    let mut q = v1::Quadratic::default();
    q.rows = xs[0].as_list()?.iter().map(|x| x.as_u64()).collect::<R<_>>()?;
    q.columns = xs[1].as_list()?.iter().map(|x| x.as_u64()).collect::<R<_>>()?;
    q.values = xs[2].as_list()?.iter().map(|x| x.as_f64()).collect::<R<_>>()?;
    q.linear = match xs[3].as_opt()? {
        None => None,
        Some(l) => Some(d_linear(l)?),
    };
    Ok(q)
}

pub fn d_polynomial(t: &Tree) -> R<v1::Polynomial> {
    let mut p = v1::Polynomial::default();
    for m in t.as_list()? {
        let pr = m.as_list()?;
        if pr.len() != 2 {
            return Err("monomial: arity".into());
        }
        let mut mono = v1::Monomial::default();
        mono.ids = pr[0].as_list()?.iter().map(|x| x.as_u64()).collect::<R<_>>()?;
        mono.coefficient = pr[1].as_f64()?;
        p.terms.push(mono);
    }
    Ok(p)
}

pub fn d_function(t: &Tree) -> R<v1::Function> {
    use v1::function::Function as FE;
    let xs = t.as_list()?;
    let tag = xs.first().ok_or("function: empty")?.as_str()?;
    let mut f = v1::Function::default();
    f.function = match (tag, xs.len()) {
        ("unset", 1) => None,
        ("const", 2) => Some(FE::Constant(xs[1].as_f64()?)),
        ("lin", 2) => Some(FE::Linear(d_linear(&xs[1])?)),
        ("quad", 2) => Some(FE::Quadratic(d_quadratic(&xs[1])?)),
        ("poly", 2) => Some(FE::Polynomial(d_polynomial(&xs[1])?)),
        _ => return Err(format!("function: bad tag {tag}")),
    };
    Ok(f)
}

pub fn d_entries(t: &Tree) -> R<HashMap<u64, f64>> {
    let mut m = HashMap::new();
    for e in t.as_list()? {
        let p = e.as_list()?;
        if p.len() != 2 {
            return Err("state entry: arity".into());
        }
        m.insert(p[0].as_u64()?, p[1].as_f64()?);
    }
    Ok(m)
}

pub fn d_state(t: &Tree) -> R<v1::State> {
    let mut s = v1::State::default();
    s.entries = d_entries(t)?;
    Ok(s)
}

// ---- encoders -------------------------------------------------------------------

pub fn e_linear(l: &v1::Linear) -> Tree {
    L(vec![
        list(l.terms.iter(), |t| L(vec![u(t.id), f(t.coefficient)])),
        f(l.constant),
    ])
}

pub fn e_quadratic(q: &v1::Quadratic) -> Tree {
    L(vec![
        list(q.rows.iter(), |x| u(*x)),
        list(q.columns.iter(), |x| u(*x)),
        list(q.values.iter(), |x| f(*x)),
        opt(q.linear.as_ref(), e_linear),
    ])
}

pub fn e_polynomial(p: &v1::Polynomial) -> Tree {
    list(p.terms.iter(), |m| {
        L(vec![list(m.ids.iter(), |x| u(*x)), f(m.coefficient)])
    })
}

pub fn e_function(fun: &v1::Function) -> Tree {
    use v1::function::Function as FE;
    match &fun.function {
        None => L(vec![a("unset")]),
        Some(FE::Constant(c)) => L(vec![a("const"), f(*c)]),
        Some(FE::Linear(l)) => L(vec![a("lin"), e_linear(l)]),
        Some(FE::Quadratic(q)) => L(vec![a("quad"), e_quadratic(q)]),
        Some(FE::Polynomial(p)) => L(vec![a("poly"), e_polynomial(p)]),
        #[allow(unreachable_patterns)]
        Some(_) => L(vec![a("unknown-function-variant")]),
    }
}

pub fn e_entries(m: &HashMap<u64, f64>) -> Tree {
    let mut v: Vec<_> = m.iter().collect();
    v.sort_by_key(|(k, _)| **k);
    list(v, |(k, x)| L(vec![u(*k), f(*x)]))
}

pub fn e_state(s: &v1::State) -> Tree {
    e_entries(&s.entries)
}

pub fn e_ids<'a>(ids: impl IntoIterator<Item = &'a u64>) -> Tree {
    list(ids, |x| u(*x))
}

// ================================================================================
// Instance-level messages.  Positional formats (see coq/theories/InstTree.v):
//   dv         = [id, kind, opt [lower, upper], opt substituted, opt name, [subscripts], [[k,v]..], opt description]
//   constraint = [id, equality, opt function, opt name, [subscripts], [[k,v]..], opt description]
//   removed    = [opt constraint, reason, [[k,v]..]]
//   instance   = [sense, opt objective, [dv..], [constraint..], [removed..], [[id, function]..],
//                 opt [[id, value]..] (parameters), opt hints, opt description]
//   hints      = [[ [constraint_id, [var ids]] .. ], [ [binary_constraint_id, [big_m ids], [var ids]] .. ]]
//   description= [opt name, opt description, [authors], opt created_by]
//   parameter  = [id, opt name, [subscripts], [[k,v]..], opt description]
//   parametric = [sense, opt objective, [dv..], [parameter..], [constraint..], [removed..], [[id,function]..], opt hints, opt description]

fn d_strmap(t: &Tree) -> R<HashMap<String, String>> {
    let mut m = HashMap::new();
    for e in t.as_list()? {
        let p = e.as_list()?;
        if p.len() != 2 {
            return Err("string map entry: arity".into());
        }
        m.insert(p[0].as_str()?.to_string(), p[1].as_str()?.to_string());
    }
    Ok(m)
}
fn e_strmap(m: &HashMap<String, String>) -> Tree {
    let mut v: Vec<_> = m.iter().collect();
    v.sort();
    list(v, |(k, x)| L(vec![a(k), a(x)]))
}
fn d_optstr(t: &Tree) -> R<Option<String>> {
    Ok(match t.as_opt()? {
        None => None,
        Some(s) => Some(s.as_str()?.to_string()),
    })
}
fn e_optstr(s: &Option<String>) -> Tree {
    opt(s.as_ref(), |x| a(x))
}
fn d_i64s(t: &Tree) -> R<Vec<i64>> {
    t.as_list()?.iter().map(|x| x.as_i64()).collect()
}
fn d_u64s(t: &Tree) -> R<Vec<u64>> {
    t.as_list()?.iter().map(|x| x.as_u64()).collect()
}
fn d_optfn(t: &Tree) -> R<Option<v1::Function>> {
    Ok(match t.as_opt()? {
        None => None,
        Some(x) => Some(d_function(x)?),
    })
}

pub fn d_bound(t: &Tree) -> R<v1::Bound> {
    let p = t.as_list()?;
    if p.len() != 2 {
        return Err("bound: arity".into());
    }
    let mut b = v1::Bound::default();
    b.lower = p[0].as_f64()?;
    b.upper = p[1].as_f64()?;
    Ok(b)
}
pub fn e_bound(b: &v1::Bound) -> Tree {
    L(vec![f(b.lower), f(b.upper)])
}

pub fn d_dv(t: &Tree) -> R<v1::DecisionVariable> {
    let x = t.as_list()?;
    if x.len() != 8 {
        return Err("decision variable: arity".into());
    }
    let mut v = v1::DecisionVariable::default();
    v.id = x[0].as_u64()?;
    v.kind = x[1].as_i64()? as i32;
    v.bound = match x[2].as_opt()? {
        None => None,
        Some(b) => Some(d_bound(b)?),
    };
    v.substituted_value = match x[3].as_opt()? {
        None => None,
        Some(s) => Some(s.as_f64()?),
    };
    v.name = d_optstr(&x[4])?;
    v.subscripts = d_i64s(&x[5])?;
    v.parameters = d_strmap(&x[6])?;
    v.description = d_optstr(&x[7])?;
    Ok(v)
}
pub fn e_dv(v: &v1::DecisionVariable) -> Tree {
    L(vec![
        u(v.id),
        i(v.kind as i64),
        opt(v.bound.as_ref(), e_bound),
        opt(v.substituted_value, f),
        e_optstr(&v.name),
        list(v.subscripts.iter(), |s| i(*s)),
        e_strmap(&v.parameters),
        e_optstr(&v.description),
    ])
}

pub fn d_constraint(t: &Tree) -> R<v1::Constraint> {
    let x = t.as_list()?;
    if x.len() != 7 {
        return Err("constraint: arity".into());
    }
    let mut c = v1::Constraint::default();
    c.id = x[0].as_u64()?;
    c.equality = x[1].as_i64()? as i32;
    c.function = d_optfn(&x[2])?;
    c.name = d_optstr(&x[3])?;
    c.subscripts = d_i64s(&x[4])?;
    c.parameters = d_strmap(&x[5])?;
    c.description = d_optstr(&x[6])?;
    Ok(c)
}
pub fn e_constraint(c: &v1::Constraint) -> Tree {
    L(vec![
        u(c.id),
        i(c.equality as i64),
        opt(c.function.as_ref(), e_function),
        e_optstr(&c.name),
        list(c.subscripts.iter(), |s| i(*s)),
        e_strmap(&c.parameters),
        e_optstr(&c.description),
    ])
}

pub fn d_removed(t: &Tree) -> R<v1::RemovedConstraint> {
    let x = t.as_list()?;
    if x.len() != 3 {
        return Err("removed constraint: arity".into());
    }
    let mut r = v1::RemovedConstraint::default();
    r.constraint = match x[0].as_opt()? {
        None => None,
        Some(c) => Some(d_constraint(c)?),
    };
    r.removed_reason = x[1].as_str()?.to_string();
    r.removed_reason_parameters = d_strmap(&x[2])?;
    Ok(r)
}
pub fn e_removed(r: &v1::RemovedConstraint) -> Tree {
    L(vec![
        opt(r.constraint.as_ref(), e_constraint),
        a(&r.removed_reason),
        e_strmap(&r.removed_reason_parameters),
    ])
}

fn d_deps(t: &Tree) -> R<HashMap<u64, v1::Function>> {
    let mut m = HashMap::new();
    for e in t.as_list()? {
        let p = e.as_list()?;
        if p.len() != 2 {
            return Err("dependency: arity".into());
        }
        m.insert(p[0].as_u64()?, d_function(&p[1])?);
    }
    Ok(m)
}
fn e_deps(m: &HashMap<u64, v1::Function>) -> Tree {
    let mut v: Vec<_> = m.iter().collect();
    v.sort_by_key(|(k, _)| **k);
    list(v, |(k, x)| L(vec![u(*k), e_function(x)]))
}

fn d_hints(t: &Tree) -> R<v1::ConstraintHints> {
    let x = t.as_list()?;
    if x.len() != 2 {
        return Err("hints: arity".into());
    }
    let mut h = v1::ConstraintHints::default();
    for o in x[0].as_list()? {
        let p = o.as_list()?;
        let mut oh = v1::OneHot::default();
        oh.constraint_id = p[0].as_u64()?;
        oh.decision_variables = d_u64s(&p[1])?;
        h.one_hot_constraints.push(oh);
    }
    for o in x[1].as_list()? {
        let p = o.as_list()?;
        let mut s = v1::Sos1::default();
        s.binary_constraint_id = p[0].as_u64()?;
        s.big_m_constraint_ids = d_u64s(&p[1])?;
        s.decision_variables = d_u64s(&p[2])?;
        h.sos1_constraints.push(s);
    }
    Ok(h)
}
fn e_hints(h: &v1::ConstraintHints) -> Tree {
    L(vec![
        list(h.one_hot_constraints.iter(), |o| {
            L(vec![u(o.constraint_id), e_ids(o.decision_variables.iter())])
        }),
        list(h.sos1_constraints.iter(), |s| {
            L(vec![
                u(s.binary_constraint_id),
                e_ids(s.big_m_constraint_ids.iter()),
                e_ids(s.decision_variables.iter()),
            ])
        }),
    ])
}

fn d_description(t: &Tree) -> R<v1::instance::Description> {
    let x = t.as_list()?;
    if x.len() != 4 {
        return Err("description: arity".into());
    }
    let mut d = v1::instance::Description::default();
    d.name = d_optstr(&x[0])?;
    d.description = d_optstr(&x[1])?;
    d.authors = x[2].as_list()?.iter().map(|s| Ok(s.as_str()?.to_string())).collect::<R<_>>()?;
    d.created_by = d_optstr(&x[3])?;
    Ok(d)
}
fn e_description(d: &v1::instance::Description) -> Tree {
    L(vec![
        e_optstr(&d.name),
        e_optstr(&d.description),
        list(d.authors.iter(), |s| a(s)),
        e_optstr(&d.created_by),
    ])
}

pub fn d_instance(t: &Tree) -> R<v1::Instance> {
    let x = t.as_list()?;
    if x.len() != 9 {
        return Err(format!("instance: arity {}", x.len()));
    }
    let mut ins = v1::Instance::default();
    ins.sense = x[0].as_i64()? as i32;
    ins.objective = d_optfn(&x[1])?;
    ins.decision_variables = x[2].as_list()?.iter().map(d_dv).collect::<R<_>>()?;
    ins.constraints = x[3].as_list()?.iter().map(d_constraint).collect::<R<_>>()?;
    ins.removed_constraints = x[4].as_list()?.iter().map(d_removed).collect::<R<_>>()?;
    ins.decision_variable_dependency = d_deps(&x[5])?;
    ins.parameters = match x[6].as_opt()? {
        None => None,
        Some(p) => {
            let mut ps = v1::Parameters::default();
            ps.entries = d_entries(p)?;
            Some(ps)
        }
    };
    ins.constraint_hints = match x[7].as_opt()? {
        None => None,
        Some(h) => Some(d_hints(h)?),
    };
    ins.description = match x[8].as_opt()? {
        None => None,
        Some(d) => Some(d_description(d)?),
    };
    Ok(ins)
}
pub fn e_instance(ins: &v1::Instance) -> Tree {
    L(vec![
        i(ins.sense as i64),
        opt(ins.objective.as_ref(), e_function),
        list(ins.decision_variables.iter(), e_dv),
        list(ins.constraints.iter(), e_constraint),
        list(ins.removed_constraints.iter(), e_removed),
        e_deps(&ins.decision_variable_dependency),
        opt(ins.parameters.as_ref(), |p| e_entries(&p.entries)),
        opt(ins.constraint_hints.as_ref(), e_hints),
        opt(ins.description.as_ref(), e_description),
    ])
}

pub fn d_parameter(t: &Tree) -> R<v1::Parameter> {
    let x = t.as_list()?;
    if x.len() != 5 {
        return Err("parameter: arity".into());
    }
    let mut p = v1::Parameter::default();
    p.id = x[0].as_u64()?;
    p.name = d_optstr(&x[1])?;
    p.subscripts = d_i64s(&x[2])?;
    p.parameters = d_strmap(&x[3])?;
    p.description = d_optstr(&x[4])?;
    Ok(p)
}
pub fn e_parameter(p: &v1::Parameter) -> Tree {
    L(vec![
        u(p.id),
        e_optstr(&p.name),
        list(p.subscripts.iter(), |s| i(*s)),
        e_strmap(&p.parameters),
        e_optstr(&p.description),
    ])
}

pub fn d_parametric(t: &Tree) -> R<v1::ParametricInstance> {
    let x = t.as_list()?;
    if x.len() != 9 {
        return Err("parametric instance: arity".into());
    }
    let mut ins = v1::ParametricInstance::default();
    ins.sense = x[0].as_i64()? as i32;
    ins.objective = d_optfn(&x[1])?;
    ins.decision_variables = x[2].as_list()?.iter().map(d_dv).collect::<R<_>>()?;
    ins.parameters = x[3].as_list()?.iter().map(d_parameter).collect::<R<_>>()?;
    ins.constraints = x[4].as_list()?.iter().map(d_constraint).collect::<R<_>>()?;
    ins.removed_constraints = x[5].as_list()?.iter().map(d_removed).collect::<R<_>>()?;
    ins.decision_variable_dependency = d_deps(&x[6])?;
    ins.constraint_hints = match x[7].as_opt()? {
        None => None,
        Some(h) => Some(d_hints(h)?),
    };
    ins.description = match x[8].as_opt()? {
        None => None,
        Some(d) => Some(d_description(d)?),
    };
    Ok(ins)
}
pub fn e_parametric(ins: &v1::ParametricInstance) -> Tree {
    L(vec![
        i(ins.sense as i64),
        opt(ins.objective.as_ref(), e_function),
        list(ins.decision_variables.iter(), e_dv),
        list(ins.parameters.iter(), e_parameter),
        list(ins.constraints.iter(), e_constraint),
        list(ins.removed_constraints.iter(), e_removed),
        e_deps(&ins.decision_variable_dependency),
        opt(ins.constraint_hints.as_ref(), e_hints),
        opt(ins.description.as_ref(), e_description),
    ])
}

pub fn e_evaluated_constraint(c: &v1::EvaluatedConstraint) -> Tree {
    // [id, equality, value, [used ids], opt name, [subscripts], params, opt description,
    //  opt dual, opt removed_reason, removed_reason_parameters]
    L(vec![
        u(c.id),
        i(c.equality as i64),
        f(c.evaluated_value),
        e_ids(c.used_decision_variable_ids.iter()),
        e_optstr(&c.name),
        list(c.subscripts.iter(), |s| i(*s)),
        e_strmap(&c.parameters),
        e_optstr(&c.description),
        opt(c.dual_variable, f),
        e_optstr(&c.removed_reason),
        e_strmap(&c.removed_reason_parameters),
    ])
}

pub fn e_solution(s: &v1::Solution) -> Tree {
    // [opt state, objective, [dv..], [evaluated constraint..], feasible, opt feasible_relaxed,
    //  feasible_unrelaxed (deprecated), optimality, relaxation]
    #[allow(deprecated)]
    let fu = s.feasible_unrelaxed;
    L(vec![
        opt(s.state.as_ref(), e_state),
        f(s.objective),
        list(s.decision_variables.iter(), e_dv),
        list(s.evaluated_constraints.iter(), e_evaluated_constraint),
        b(s.feasible),
        opt(s.feasible_relaxed, b),
        b(fu),
        i(s.optimality as i64),
        i(s.relaxation as i64),
    ])
}
