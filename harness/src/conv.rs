//! Conversions between trees and ommx.v1 messages (prost structs are #[non_exhaustive]:
//! built with Default + field assignment).
use crate::tree::*;
use ommx::v1;
use std::collections::HashMap;

type R<T> = Result<T, String>;

pub fn d_linear(t: &Tree) -> R<v1::Linear> {
    let xs = t.as_list()?;
    if xs.len() != 2 {
        return Err("linear: arity".into());
    }
    let mut l = v1::Linear::default();
    for term in xs[0].as_list()? {
        let p = term.as_list()?;
        if p.len() != 2 {
            return Err("linear term: arity".into());
        }
        let mut tm = v1::linear::Term::default();
        tm.id = p[0].as_u64()?;
        tm.coefficient = p[1].as_f64()?;
        l.terms.push(tm);
    }
    l.constant = xs[1].as_f64()?;
    Ok(l)
}

pub fn d_quadratic(t: &Tree) -> R<v1::Quadratic> {
    let xs = t.as_list()?;
    if xs.len() != 4 {
        return Err("quadratic: arity".into());
    }
    let mut q = v1::Quadratic::default();
    q.rows = xs[0].as_list()?.iter().map(|x| x.as_u64()).collect::<R<_>>()?;
    q.columns = xs[1].as_list()?.iter().map(|x| x.as_u64()).collect::<R<_>>()?;
    q.values = xs[2].as_list()?.iter().map(|x| x.as_f64()).collect::<R<_>>()?;
    q.linear = match xs[3].as_opt()? {
        None => None,
        Some(l) => Some(d_linear(l)?),
    };
    Ok(q)
}

pub fn d_polynomial(t: &Tree) -> R<v1::Polynomial> {
    let mut p = v1::Polynomial::default();
    for m in t.as_list()? {
        let pr = m.as_list()?;
        if pr.len() != 2 {
            return Err("monomial: arity".into());
        }
        let mut mono = v1::Monomial::default();
        mono.ids = pr[0].as_list()?.iter().map(|x| x.as_u64()).collect::<R<_>>()?;
        mono.coefficient = pr[1].as_f64()?;
        p.terms.push(mono);
    }
    Ok(p)
}

pub fn d_function(t: &Tree) -> R<v1::Function> {
    use v1::function::Function as FE;
    let xs = t.as_list()?;
    let tag = xs.first().ok_or("function: empty")?.as_str()?;
    let mut f = v1::Function::default();
    f.function = match (tag, xs.len()) {
        ("unset", 1) => None,
        ("const", 2) => Some(FE::Constant(xs[1].as_f64()?)),
        ("lin", 2) => Some(FE::Linear(d_linear(&xs[1])?)),
        ("quad", 2) => Some(FE::Quadratic(d_quadratic(&xs[1])?)),
        ("poly", 2) => Some(FE::Polynomial(d_polynomial(&xs[1])?)),
        _ => return Err(format!("function: bad tag {tag}")),
    };
    Ok(f)
}

pub fn d_entries(t: &Tree) -> R<HashMap<u64, f64>> {
    let mut m = HashMap::new();
    for e in t.as_list()? {
        let p = e.as_list()?;
        if p.len() != 2 {
            return Err("state entry: arity".into());
        }
        m.insert(p[0].as_u64()?, p[1].as_f64()?);
    }
    Ok(m)
}

pub fn d_state(t: &Tree) -> R<v1::State> {
    let mut s = v1::State::default();
    s.entries = d_entries(t)?;
    Ok(s)
}

// ---- encoders -------------------------------------------------------------------

pub fn e_linear(l: &v1::Linear) -> Tree {
    L(vec![
        list(l.terms.iter(), |t| L(vec![u(t.id), f(t.coefficient)])),
        f(l.constant),
    ])
}

pub fn e_quadratic(q: &v1::Quadratic) -> Tree {
    L(vec![
        list(q.rows.iter(), |x| u(*x)),
        list(q.columns.iter(), |x| u(*x)),
        list(q.values.iter(), |x| f(*x)),
        opt(q.linear.as_ref(), e_linear),
    ])
}

pub fn e_polynomial(p: &v1::Polynomial) -> Tree {
    list(p.terms.iter(), |m| {
        L(vec![list(m.ids.iter(), |x| u(*x)), f(m.coefficient)])
    })
}

pub fn e_function(fun: &v1::Function) -> Tree {
    use v1::function::Function as FE;
    match &fun.function {
        None => L(vec![a("unset")]),
        Some(FE::Constant(c)) => L(vec![a("const"), f(*c)]),
        Some(FE::Linear(l)) => L(vec![a("lin"), e_linear(l)]),
        Some(FE::Quadratic(q)) => L(vec![a("quad"), e_quadratic(q)]),
        Some(FE::Polynomial(p)) => L(vec![a("poly"), e_polynomial(p)]),
        #[allow(unreachable_patterns)]
        Some(_) => L(vec![a("unknown-function-variant")]),
    }
}

pub fn e_entries(m: &HashMap<u64, f64>) -> Tree {
    let mut v: Vec<_> = m.iter().collect();
    v.sort_by_key(|(k, _)| **k);
    list(v, |(k, x)| L(vec![u(*k), f(*x)]))
}

pub fn e_state(s: &v1::State) -> Tree {
    e_entries(&s.entries)
}

pub fn e_ids<'a>(ids: impl IntoIterator<Item = &'a u64>) -> Tree {
    list(ids, |x| u(*x))
}
