//! Generic case/result trees exchanged with check.py and Coq (see coq/theories/Tree.v).
use serde_json::{json, Value};

#[derive(Debug, Clone, PartialEq)]
pub enum Tree {
    A(String),
    I(i128),
    F(u64),
    L(Vec<Tree>),
}

pub use Tree::{A, F, I, L};

pub fn a(s: &str) -> Tree {
    Tree::A(s.to_string())
}
pub fn f(x: f64) -> Tree {
    Tree::F(x.to_bits())
}
pub fn u(x: u64) -> Tree {
    Tree::I(x as i128)
}
pub fn i(x: i64) -> Tree {
    Tree::I(x as i128)
}
pub fn b(x: bool) -> Tree {
    Tree::I(if x { 1 } else { 0 })
}
pub fn opt<T>(o: Option<T>, e: impl Fn(T) -> Tree) -> Tree {
    match o {
        None => L(vec![]),
        Some(x) => L(vec![e(x)]),
    }
}
pub fn list<T>(xs: impl IntoIterator<Item = T>, e: impl Fn(T) -> Tree) -> Tree {
    L(xs.into_iter().map(e).collect())
}
pub fn ok(t: Tree) -> Tree {
    L(vec![a("ok"), t])
}
pub fn err(kind: &str, detail: &str) -> Tree {
    L(vec![a("err"), a(kind), a(detail)])
}

impl Tree {
    pub fn from_json(v: &Value) -> Result<Tree, String> {
        match v {
            Value::String(s) => Ok(A(s.clone())),
            Value::Number(n) => {
                if let Some(x) = n.as_i64() {
                    Ok(I(x as i128))
                } else if let Some(x) = n.as_u64() {
                    Ok(I(x as i128))
                } else {
                    Err(format!("non-integer number {n}"))
                }
            }
            Value::Array(xs) => Ok(L(xs
                .iter()
                .map(Tree::from_json)
                .collect::<Result<Vec<_>, _>>()?)),
            Value::Object(m) => {
                let bits = m
                    .get("f")
                    .and_then(|x| x.as_u64())
                    .ok_or_else(|| "object without u64 field f".to_string())?;
                Ok(F(bits))
            }
            _ => Err(format!("unsupported json {v}")),
        }
    }
    pub fn to_json(&self) -> Value {
        match self {
            A(s) => Value::String(s.clone()),
            I(x) => {
                if *x >= 0 {
                    json!(*x as u64)
                } else {
                    json!(*x as i64)
                }
            }
            F(bits) => json!({ "f": bits }),
            L(xs) => Value::Array(xs.iter().map(|t| t.to_json()).collect()),
        }
    }
    pub fn as_list(&self) -> Result<&[Tree], String> {
        match self {
            L(xs) => Ok(xs),
            _ => Err(format!("expected list, got {self:?}")),
        }
    }
    pub fn as_u64(&self) -> Result<u64, String> {
        match self {
            I(x) if *x >= 0 && *x <= u64::MAX as i128 => Ok(*x as u64),
            _ => Err(format!("expected u64, got {self:?}")),
        }
    }
    pub fn as_i64(&self) -> Result<i64, String> {
        match self {
            I(x) if *x >= i64::MIN as i128 && *x <= i64::MAX as i128 => Ok(*x as i64),
            _ => Err(format!("expected i64, got {self:?}")),
        }
    }
    pub fn as_f64(&self) -> Result<f64, String> {
        match self {
            F(bits) => Ok(f64::from_bits(*bits)),
            I(x) => {
                let v = *x as f64;
                if v as i128 == *x {
                    Ok(v)
                } else {
                    Err(format!("integer {x} is not an exact f64"))
                }
            }
            _ => Err(format!("expected number, got {self:?}")),
        }
    }
    pub fn as_str(&self) -> Result<&str, String> {
        match self {
            A(s) => Ok(s),
            _ => Err(format!("expected atom, got {self:?}")),
        }
    }
    pub fn as_bool(&self) -> Result<bool, String> {
        match self {
            I(0) => Ok(false),
            I(1) => Ok(true),
            _ => Err(format!("expected bool, got {self:?}")),
        }
    }
    pub fn as_opt(&self) -> Result<Option<&Tree>, String> {
        match self.as_list()? {
            [] => Ok(None),
            [x] => Ok(Some(x)),
            _ => Err(format!("expected option, got {self:?}")),
        }
    }
}
